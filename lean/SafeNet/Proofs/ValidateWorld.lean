import SafeNet.Proofs.ValidateData
/-!
# Every schedule of concurrent validations: who may put what

The small-step semantics `World` lets any number of validations run interleaved, each store read an explicit
step that may be served at any later time.  This file proves an invariant over **all** action lists
(`World.run`), by induction over the list: every key the store holds was held initially or was put by a
validation that was actually started, whose read/write key is that key, whose record key passed the key
check, and which was either a replication delivery or paid in full.  The per-step facts are the
table-level lemmas of `Proofs/Validate.lean` (which hold for *every* observation vector, hence whatever the
interleaving made the validation observe).
-/
namespace SafeNet.Validate
open SafeNet.Gen.Validate

/-! ## Store facts -/

theorem Store.get_put_same' (s : Store) (k : Nat) (c : Content) : (s.put k c).get k = some c := by
  induction s with
  | nil => simp [Store.put, Store.get]
  | cons e rest ih =>
    obtain ⟨k', c'⟩ := e
    unfold Store.put
    split
    · simp [Store.get]
    · rename_i h; simp [Store.get, h, ih]

theorem Store.get_put_ne' (s : Store) (k k' : Nat) (c : Content) (h : k' ≠ k) :
    (s.put k' c).get k = s.get k := by
  induction s with
  | nil => simp [Store.put, Store.get, h]
  | cons e rest ih =>
    obtain ⟨k2, c2⟩ := e
    unfold Store.put
    split
    · rename_i h2; subst h2; simp [Store.get, h]
    · simp [Store.get, ih]

/-- a put never removes a key -/
theorem Store.put_keeps (s : Store) (k k' : Nat) (c : Content) (h : s.get k ≠ none) :
    (s.put k' c).get k ≠ none := by
  by_cases hk : k' = k
  · subst hk; rw [Store.get_put_same']; simp
  · rw [Store.get_put_ne' _ _ _ _ hk]; exact h

theorem applyToks_keeps (toks : List Tok) (s : Store) (k : Nat) (h : s.get k ≠ none) :
    (applyToks s toks).get k ≠ none := by
  induction toks generalizing s with
  | nil => exact h
  | cons t rest ih =>
    cases t with
    | W k' c' => exact ih _ (Store.put_keeps s k k' c' h)
    | H _ | G _ | K | V | P _ | F _ _ | R _ _ => exact ih s h

/-- a key held after applying a trace was held before or some put of the trace is for it -/
theorem applyToks_new (toks : List Tok) (s : Store) (k : Nat)
    (h : (applyToks s toks).get k ≠ none) : s.get k ≠ none ∨ ∃ c, Tok.W k c ∈ toks := by
  induction toks generalizing s with
  | nil => exact Or.inl h
  | cons t rest ih =>
    cases t with
    | W k' c' =>
      rcases ih (s.put k' c') h with h1 | ⟨c, hc⟩
      · by_cases hk : k' = k
        · subst hk; exact Or.inr ⟨c', by simp⟩
        · rw [Store.get_put_ne' _ _ _ _ hk] at h1; exact Or.inl h1
      · exact Or.inr ⟨c, by simp [hc]⟩
    | H _ | G _ | K | V | P _ | F _ _ | R _ _ =>
      rcases ih s h with h1 | ⟨c, hc⟩
      · exact Or.inl h1
      · exact Or.inr ⟨c, by simp [hc]⟩

/-! ## What one validation may put, whatever it observed -/

/-- all six payment conditions hold (Boolean form of `Props.C03.PaidInFull`) -/
def paidB (d : Delivery) : Bool :=
  isPaid d.kind && (match d.pay with | some p => (vecOf p).all | none => false)

/-- replication delivery, or client upload paid in full -/
def Legit (d : Delivery) : Prop := d.client = false ∨ paidB d = true

/-- the record key passed the key check: it is the key read and written and, unless the delivery is a
replicated transaction vector, the key the content determines -/
def KeyOk (d : Delivery) : Prop :=
  rwKey d = d.rk ∧ (¬ (d.client = false ∧ d.kind = .tx) → derivedKey d.content = some d.rk)

theorem paidB_of_obs {d : Delivery} {a : Ans}
    (h : ((obsOfAns d a).pay == .ok && isPaid d.kind) = true) : paidB d = true := by
  simp only [Bool.and_eq_true, beq_iff_eq] at h
  obtain ⟨hp, hk⟩ := h
  rw [obs_pay] at hp
  unfold paidB
  rw [hk]
  cases hd : d.pay with
  | none => rw [hd] at hp; simp at hp
  | some p =>
    rw [hd] at hp
    have := payCheck_ok_iff_all (vecOf p)
    simp only [hp, beq_self_eq_true] at this
    simp [← this]

/-- **Per-validation put lemma.**  Whatever answers `a` a validation of `d` has received, every put in its
trace is under `rwKey d`, the key check passed, and the delivery is legitimate or the *first*
`RecordStoreHasKey` answer it received was "held". -/
theorem W_of_any_obs {d : Delivery} {a : Ans} {k : Nat} {c : Content}
    (h : Tok.W k c ∈ (tr d.client d.kind (obsOfAns d a)).map (inst d a)) :
    k = rwKey d ∧ KeyOk d ∧ (Legit d ∨ a.hs.getD 0 false = true) := by
  obtain ⟨hk, hw, _⟩ := W_mem_inv h
  refine ⟨hk, ?_, ?_⟩
  · have hm := imp_of_bool (tbl_put_needs_key_match d.client d.kind (obsOfAns d a)) hw
    simp only [Bool.and_eq_true, Bool.or_eq_true, Bool.not_eq_eq_eq_not, Bool.not_true, beq_iff_eq] at hm
    by_cases hv : d.client = false ∧ d.kind = .tx
    · obtain ⟨hc, hkd⟩ := hv
      refine ⟨by simp [rwKey, hc, hkd, route_repl_tx], fun hn => absurd ⟨hc, hkd⟩ hn⟩
    · have hkm : (obsOfAns d a).km = true := by
        rcases hm.1 with h1 | h1
        · exact h1
        · exact absurd h1 hv
      obtain ⟨hd, hr⟩ := km_true_key hkm hv
      exact ⟨hr, fun _ => hd⟩
  · cases hcl : d.client with
    | false => exact Or.inl (Or.inl hcl)
    | true =>
      by_cases hp : ((obsOfAns d a).pay == .ok && isPaid d.kind) = true
      · exact Or.inl (Or.inr (paidB_of_obs hp))
      · right
        have hcond : ((obsOfAns d a).pay != .ok || !isPaid d.kind) = true := by
          cases h1 : isPaid d.kind
          · simp
          · cases h2 : (obsOfAns d a).pay <;> simp_all
        have := imp_of_bool (tbl_unpaid_only_updates d.client d.kind (obsOfAns d a))
          (and3 hcl hw hcond)
        simp only [Bool.and_eq_true] at this
        rw [← obs_h1]; exact this.1

/-- every token `advance` emits is an instantiated token of the validation's trace at its current answers -/
theorem advance_toks_sub (f : Flight) (s : Store) (t : Tok) (h : t ∈ (advance f s).toks) :
    t ∈ (tr f.d.client f.d.kind (obsOfAns f.d f.a)).map (inst f.d f.a) := by
  unfold advance at h
  simp only at h
  unfold tr Out.trace
  split at h
  · simp only at h
    rw [List.mem_map] at h ⊢
    obtain ⟨tk, htk, he⟩ := h
    refine ⟨tk, ?_, he⟩
    have h1 := List.mem_of_mem_drop htk
    have h2 := List.mem_of_mem_take h1
    exact List.mem_append_left _ h2
  · simp only at h
    rw [List.mem_map] at h ⊢
    obtain ⟨tk, htk, he⟩ := h
    refine ⟨tk, ?_, he⟩
    rcases List.mem_append.mp htk with h1 | h1
    · exact List.mem_append_left _ (List.mem_of_mem_drop h1)
    · exact List.mem_append_right _ h1

theorem advance_store (f : Flight) (s : Store) : (advance f s).store = applyToks s (advance f s).toks := by
  unfold advance
  simp only
  split <;> rfl

theorem advance_flight_d (f : Flight) (s : Store) : (advance f s).flight.d = f.d := by
  unfold advance
  simp only
  split <;> rfl

theorem advance_flight_a (f : Flight) (s : Store) : (advance f s).flight.a = f.a := by
  unfold advance
  simp only
  split <;> rfl

/-! ## The history invariant -/

/-- deliveries of the `begin` actions that were legal (the id was free), in order -/
def startedBy (w : World) : List Act → List Delivery
  | [] => []
  | a :: rest =>
    (match a with
      | .begin id d => if (w.flight id).isNone then [d] else []
      | _ => []) ++ startedBy (w.act a).1 rest

/-- key `k` is accounted for: held initially, or put target of a started, key-checked, legitimate validation -/
def Just (s0 : Store) (D : List Delivery) (k : Nat) : Prop :=
  s0.get k ≠ none ∨ ∃ d ∈ D, rwKey d = k ∧ KeyOk d ∧ Legit d

theorem Just.mono {s0 : Store} {D D' : List Delivery} {k : Nat} (h : Just s0 D k)
    (hsub : ∀ d ∈ D, d ∈ D') : Just s0 D' k := by
  rcases h with h | ⟨d, hd, h⟩
  · exact Or.inl h
  · exact Or.inr ⟨d, hsub d hd, h⟩

structure Inv (s0 : Store) (D : List Delivery) (w : World) : Prop where
  held : ∀ k, w.store.get k ≠ none → Just s0 D k
  flights : ∀ p ∈ w.flights, p.2.d ∈ D ∧ (p.2.a.hs.getD 0 false = true → w.store.get (rwKey p.2.d) ≠ none)

theorem flight_mem {w : World} {id : Nat} {f : Flight} (h : w.flight id = some f) :
    ∃ p ∈ w.flights, p.2 = f := by
  unfold World.flight at h
  cases hf : w.flights.find? (·.1 == id) with
  | none => rw [hf] at h; simp at h
  | some p =>
    rw [hf] at h
    simp only [Option.map_some, Option.some.injEq] at h
    exact ⟨p, List.mem_of_find?_eq_some hf, h⟩

theorem mem_setFlight {w : World} {id : Nat} {fo : Option Flight} {p : Nat × Flight}
    (h : p ∈ (w.setFlight id fo).flights) : p ∈ w.flights ∨ fo = some p.2 := by
  unfold World.setFlight at h
  simp only at h
  cases fo with
  | none =>
    simp only at h
    exact Or.inl (List.mem_filter.mp h).1
  | some f =>
    simp only at h
    rcases List.mem_append.mp h with h1 | h1
    · exact Or.inl (List.mem_filter.mp h1).1
    · simp only [List.mem_singleton] at h1
      right; rw [h1]

theorem setFlight_store (w : World) (id : Nat) (fo : Option Flight) : (w.setFlight id fo).store = w.store := rfl

/-- one `advance` of a flight that satisfies the flight clause keeps the invariant -/
theorem inv_advance {s0 : Store} {D : List Delivery} {w : World} (hinv : Inv s0 D w)
    (f : Flight) (hfD : f.d ∈ D)
    (hfh : f.a.hs.getD 0 false = true → w.store.get (rwKey f.d) ≠ none) (id : Nat) :
    Inv s0 D (({ w with store := (advance f w.store).store }).setFlight id
      (if (advance f w.store).done.isSome then none else some (advance f w.store).flight)) := by
  have hnew : ∀ k, (advance f w.store).store.get k ≠ none → Just s0 D k := by
    intro k hk
    rw [advance_store] at hk
    rcases applyToks_new _ _ _ hk with h1 | ⟨c, hc⟩
    · exact hinv.held k h1
    · obtain ⟨hkk, hko, hl⟩ := W_of_any_obs (advance_toks_sub f w.store _ hc)
      rcases hl with hl | hl
      · exact Or.inr ⟨f.d, hfD, hkk.symm, hko, hl⟩
      · rw [hkk]; exact hinv.held _ (hfh hl)
  have hkeep : ∀ k, w.store.get k ≠ none → (advance f w.store).store.get k ≠ none := by
    intro k hk
    rw [advance_store]
    exact applyToks_keeps _ _ _ hk
  constructor
  · intro k hk
    rw [setFlight_store] at hk
    exact hnew k hk
  · intro p hp
    rw [setFlight_store]
    rcases mem_setFlight hp with h1 | h1
    · obtain ⟨hd, hh⟩ := hinv.flights p h1
      exact ⟨hd, fun h => hkeep _ (hh h)⟩
    · split at h1
      · simp at h1
      · simp only [Option.some.injEq] at h1
        rw [← h1, advance_flight_d, advance_flight_a]
        exact ⟨hfD, fun h => hkeep _ (hfh h)⟩

theorem serve_d (f : Flight) (s : Store) : (serve f s).d = f.d := by
  unfold serve
  split <;> rfl

/-- serving a read keeps the flight clause: a first "held" answer is given only when the key is held -/
theorem serve_first (f : Flight) (s : Store)
    (hfh : f.a.hs.getD 0 false = true → s.get (rwKey f.d) ≠ none) :
    (serve f s).a.hs.getD 0 false = true → s.get (rwKey (serve f s).d) ≠ none := by
  rw [serve_d]
  unfold serve
  split
  · simp only
    cases hhs : f.a.hs with
    | nil =>
      simp only [List.nil_append, List.getD_cons_zero]
      intro h
      cases hg : s.get (rwKey f.d) with
      | none => rw [hg] at h; simp at h
      | some c => simp
    | cons b rest =>
      simp only [List.cons_append, List.getD_cons_zero]
      intro h
      apply hfh
      rw [hhs]; simpa using h
  · exact hfh
  · exact hfh

/-- **One scheduler action keeps the invariant** (with the started list extended by a legal `begin`). -/
theorem inv_act {s0 : Store} {D : List Delivery} {w : World} (hinv : Inv s0 D w) (a : Act) :
    Inv s0 (D ++ startedBy w [a]) (w.act a).1 := by
  have hmono : ∀ {w' : World} {E : List Delivery}, Inv s0 D w' → Inv s0 (D ++ E) w' := by
    intro w' E h
    exact ⟨fun k hk => (h.held k hk).mono (fun d hd => List.mem_append_left _ hd),
      fun p hp => ⟨List.mem_append_left _ (h.flights p hp).1, (h.flights p hp).2⟩⟩
  cases a with
  | «begin» id d =>
    simp only [World.act, startedBy]
    cases hf : w.flight id with
    | some f0 => simpa using hinv
    | none =>
      simp only [Option.isNone_none, if_true, List.append_nil]
      have hinv' : Inv s0 (D ++ [d]) w := hmono hinv
      have := inv_advance hinv' (Flight.start d) (by simp [Flight.start])
        (by simp [Flight.start]) id
      exact this
  | ans id =>
    simp only [World.act, startedBy, List.append_nil]
    cases hf : w.flight id with
    | none => exact hinv
    | some f =>
      simp only
      split
      · obtain ⟨p, hp, hpf⟩ := flight_mem hf
        obtain ⟨hd, hh⟩ := hinv.flights p hp
        rw [hpf] at hd hh
        constructor
        · intro k hk; rw [setFlight_store] at hk; exact hinv.held k hk
        · intro q hq
          rw [setFlight_store]
          rcases mem_setFlight hq with h1 | h1
          · exact hinv.flights q h1
          · simp only [Option.some.injEq] at h1
            rw [← h1]
            exact ⟨by rw [serve_d]; exact hd, serve_first f w.store hh⟩
      · exact hinv
  | run id =>
    simp only [World.act, startedBy, List.append_nil]
    cases hf : w.flight id with
    | none => exact hinv
    | some f =>
      simp only
      split
      · obtain ⟨p, hp, hpf⟩ := flight_mem hf
        obtain ⟨hd, hh⟩ := hinv.flights p hp
        rw [hpf] at hd hh
        exact inv_advance hinv f hd hh id
      · exact hinv

theorem startedBy_cons (w : World) (a : Act) (rest : List Act) :
    startedBy w (a :: rest) = startedBy w [a] ++ startedBy (w.act a).1 rest := by
  simp [startedBy]

/-- **Every schedule keeps the invariant.** -/
theorem inv_run {s0 : Store} {D : List Delivery} {w : World} (hinv : Inv s0 D w) (acts : List Act) :
    Inv s0 (D ++ startedBy w acts) (w.run acts) := by
  induction acts generalizing D w with
  | nil => simpa [World.run, startedBy] using hinv
  | cons a rest ih =>
    have h1 := inv_act hinv a
    have h2 := ih h1
    rw [startedBy_cons, ← List.append_assoc]
    simpa [World.run] using h2

theorem inv_init (s0 : Store) : Inv s0 [] ⟨s0, []⟩ :=
  ⟨fun _ hk => Or.inl hk, fun p hp => by simp at hp⟩

/-- **Main theorem of this file.**  From any initial store, after any list of scheduler actions (any number
of validations, reads served at any time, any interleaving), every key the store holds was held initially or
is the put key of a validation that was started, whose record key passed the key check and which was a
replication delivery or paid in full. -/
theorem any_schedule_held_is_justified (s0 : Store) (acts : List Act) (k : Nat)
    (h : (World.run ⟨s0, []⟩ acts).store.get k ≠ none) :
    Just s0 (startedBy ⟨s0, []⟩ acts) k := by
  have := (inv_run (inv_init s0) acts).held k h
  simpa using this

end SafeNet.Validate
