import SafeNet.Proofs.Cbor
import SafeNet.Model.WireCbor
import SafeNet.Gen.WireShape
/-!
Helper lemmas for the CBOR half of C12: the serde-tree embedding `toC` produces well-formed CBOR items, and the
type-directed reader `ofC` inverts it on every value of every (well-formed) schema; the tie of the hand-written message
schemas to the type definitions `rs2lean` reads from the source (`Gen.WireShape`), now including FIELD NAMES (they are map
keys on the wire).
-/
namespace SafeNet.WireCbor
open SafeNet.Cbor
open SafeNet.Wire (validUtf8 nm)

/-- schemas whose values never serialise to `null` (so `Some(x)` and `None` cannot be confused).  `()` is fine here:
cbor4ii writes the unit as an empty array. -/
def nonNullC : CSchema → Bool
  | .opt _ => false
  | .absent => false
  | _ => true

mutual
/-- well-formed schema: the payload of every `Option` is a non-null type -/
def schemaOkC : CSchema → Bool
  | .opt s => nonNullC s && schemaOkC s
  | .seq s => schemaOkC s
  | .tup ss => schemaOkCList ss
  | .record fs => schemaOkCFields fs
  | .enum vs => schemaOkCFields vs
  | _ => true
def schemaOkCList : List CSchema → Bool
  | [] => true
  | s :: ss => schemaOkC s && schemaOkCList ss
def schemaOkCFields : List (List Nat × CSchema) → Bool
  | [] => true
  | (_, p) :: rest => schemaOkC p && schemaOkCFields rest
end

def nameOkC (n : List Nat) : Bool := n.length < 18446744073709551616 && isBytes n

mutual
/-- sizes and integers fit the 64-bit CBOR argument, bytes are bytes -/
def treeWfC : CTree → Bool
  | .unit => true
  | .bool _ => true
  | .u n => n < 18446744073709551616
  | .i m => m < 18446744073709551616
  | .str s => nameOkC s
  | .bytes s => nameOkC s
  | .none => true
  | .some t => treeWfC t
  | .seq ts => ts.length < 18446744073709551616 && treeWfCList ts
  | .tup ts => ts.length < 18446744073709551616 && treeWfCList ts
  | .record fs => fs.length < 18446744073709551616 && treeWfCFields fs
  | .uvar n => nameOkC n
  | .nvar n t => nameOkC n && treeWfC t
def treeWfCList : List CTree → Bool
  | [] => true
  | t :: ts => treeWfC t && treeWfCList ts
def treeWfCFields : List (List Nat × CTree) → Bool
  | [] => true
  | (k, t) :: fs => nameOkC k && (treeWfC t && treeWfCFields fs)
end

theorem toCs_length (ts : List CTree) : (toCs ts).length = ts.length := by
  induction ts with
  | nil => rfl
  | cons t ts ih => simp [toCs, ih]

theorem toCFields_length (fs : List (List Nat × CTree)) : (toCFields fs).length = fs.length := by
  induction fs with
  | nil => rfl
  | cons f fs ih => obtain ⟨k, t⟩ := f; simp [toCFields, ih]

mutual
theorem toC_wf' : (t : CTree) → treeWfC t = true → wf (toC t) = true
  | .unit, _ => rfl
  | .bool _, _ => rfl
  | .u n, h => by simpa [treeWfC, toC, wf] using h
  | .i m, h => by simpa [treeWfC, toC, wf] using h
  | .str s, h => by simpa [treeWfC, toC, wf, nameOkC] using h
  | .bytes s, h => by simpa [treeWfC, toC, wf, nameOkC] using h
  | .none, _ => rfl
  | .some t, h => by
      simp only [treeWfC] at h; simp only [toC]; exact toC_wf' t h
  | .seq ts, h => by
      simp only [treeWfC, Bool.and_eq_true, decide_eq_true_eq] at h
      simp only [toC, wf, Bool.and_eq_true, decide_eq_true_eq, toCs_length]
      exact ⟨h.1, toCs_wf ts h.2⟩
  | .tup ts, h => by
      simp only [treeWfC, Bool.and_eq_true, decide_eq_true_eq] at h
      simp only [toC, wf, Bool.and_eq_true, decide_eq_true_eq, toCs_length]
      exact ⟨h.1, toCs_wf ts h.2⟩
  | .record fs, h => by
      simp only [treeWfC, Bool.and_eq_true, decide_eq_true_eq] at h
      simp only [toC, wf, Bool.and_eq_true, decide_eq_true_eq, toCFields_length]
      exact ⟨h.1, toCFields_wf fs h.2⟩
  | .uvar n, h => by simpa [treeWfC, toC, wf, nameOkC] using h
  | .nvar n t, h => by
      simp only [treeWfC, Bool.and_eq_true] at h
      have := toC_wf' t h.2
      have hn := h.1
      simp only [nameOkC, Bool.and_eq_true, decide_eq_true_eq] at hn
      simp [toC, wf, wfPairs, this, hn.1, hn.2]
theorem toCs_wf : (ts : List CTree) → treeWfCList ts = true → wfList (toCs ts) = true
  | [], _ => rfl
  | t :: ts, h => by
      simp only [treeWfCList, Bool.and_eq_true] at h
      simp only [toCs, wfList, Bool.and_eq_true]
      exact ⟨toC_wf' t h.1, toCs_wf ts h.2⟩
theorem toCFields_wf : (fs : List (List Nat × CTree)) → treeWfCFields fs = true → wfPairs (toCFields fs) = true
  | [], _ => rfl
  | (k, t) :: fs, h => by
      simp only [treeWfCFields, Bool.and_eq_true] at h
      have hk := h.1
      simp only [nameOkC, Bool.and_eq_true, decide_eq_true_eq] at hk
      simp only [toCFields, wfPairs, wf, Bool.and_eq_true, decide_eq_true_eq]
      exact ⟨⟨hk.1, hk.2⟩, toC_wf' t h.2.1, toCFields_wf fs h.2.2⟩
end

theorem toC_wf (t : CTree) (h : treeWfC t = true) : WellFormed (toC t) := toC_wf' t h

theorem toC_ne_null (s : CSchema) (t : CTree) (hn : nonNullC s = true) (hc : conformsC s t = true) :
    toC t ≠ .null := by
  cases s <;> cases t <;> simp [conformsC, nonNullC] at hc hn <;> simp [toC]

theorem ofC_opt_of_ne_null (s : CSchema) (v : Val) (h : v ≠ .null) :
    ofC (.opt s) v = (ofC s v).map .some := by
  cases v <;> first | (exact absurd rfl h) | simp [ofC]

theorem toCs_cons_mapM (s : CSchema) (ts : List CTree)
    (ih : ∀ t ∈ ts, ofC s (toC t) = some t) : (toCs ts).mapM (ofC s) = some ts := by
  induction ts with
  | nil => rfl
  | cons t ts iht =>
    simp only [toCs, List.mapM_cons, ih t (by simp), iht (fun x hx => ih x (by simp [hx]))]
    rfl

mutual
theorem ofC_toC (s : CSchema) (t : CTree) (hs : schemaOkC s = true) (hc : conformsC s t = true) :
    ofC s (toC t) = some t := by
  match s, t with
  | .unit, .unit => rfl
  | .bool, .bool _ => rfl
  | .uint bound, .u n => simp only [conformsC, decide_eq_true_eq] at hc; simp [toC, ofC, hc]
  | .str, .str x => simp only [conformsC] at hc; simp [toC, ofC, hc]
  | .bytes, .bytes _ => rfl
  | .bytesN n, .bytes x => simp only [conformsC, decide_eq_true_eq] at hc; simp [toC, ofC, hc]
  | .opt _, .none => rfl
  | .opt s', .some t' =>
    simp only [schemaOkC, Bool.and_eq_true] at hs
    simp only [conformsC] at hc
    simp only [toC]
    rw [ofC_opt_of_ne_null s' _ (toC_ne_null s' t' hs.1 hc), ofC_toC s' t' hs.2 hc]; rfl
  | .seq s', .seq ts =>
    simp only [schemaOkC] at hs
    simp only [conformsC, List.all_eq_true] at hc
    simp only [toC, ofC]
    rw [toCs_cons_mapM s' ts (fun x hx => ofC_toC s' x hs (hc x hx))]; rfl
  | .tup ss, .tup ts =>
    simp only [schemaOkC] at hs
    simp only [conformsC] at hc
    simp only [toC, ofC]
    rw [ofCTup_toCs ss ts hs hc]; rfl
  | .record fs, .record ts =>
    simp only [schemaOkC] at hs
    simp only [conformsC] at hc
    simp only [toC, ofC]
    rw [ofCRec_toCFields fs ts hs hc]; rfl
  | .enum vs, .uvar name => simp only [conformsC] at hc; simp [toC, ofC, hc]
  | .enum vs, .nvar name t' =>
    simp only [schemaOkC] at hs
    simp only [conformsC] at hc
    simp only [toC, ofC]
    exact ofCVariant_toC vs name t' hs hc
  | .unit, .bool _ | .unit, .u _ | .unit, .i _ | .unit, .str _ | .unit, .bytes _ | .unit, .none | .unit, .some _ | .unit, .seq _ | .unit, .tup _ | .unit, .record _ | .unit, .uvar _ | .unit, .nvar _ _ => simp [conformsC] at hc
  | .bool, .unit | .bool, .u _ | .bool, .i _ | .bool, .str _ | .bool, .bytes _ | .bool, .none | .bool, .some _ | .bool, .seq _ | .bool, .tup _ | .bool, .record _ | .bool, .uvar _ | .bool, .nvar _ _ => simp [conformsC] at hc
  | .uint _, .unit | .uint _, .bool _ | .uint _, .i _ | .uint _, .str _ | .uint _, .bytes _ | .uint _, .none | .uint _, .some _ | .uint _, .seq _ | .uint _, .tup _ | .uint _, .record _ | .uint _, .uvar _ | .uint _, .nvar _ _ => simp [conformsC] at hc
  | .str, .unit | .str, .bool _ | .str, .u _ | .str, .i _ | .str, .bytes _ | .str, .none | .str, .some _ | .str, .seq _ | .str, .tup _ | .str, .record _ | .str, .uvar _ | .str, .nvar _ _ => simp [conformsC] at hc
  | .bytes, .unit | .bytes, .bool _ | .bytes, .u _ | .bytes, .i _ | .bytes, .str _ | .bytes, .none | .bytes, .some _ | .bytes, .seq _ | .bytes, .tup _ | .bytes, .record _ | .bytes, .uvar _ | .bytes, .nvar _ _ => simp [conformsC] at hc
  | .bytesN _, .unit | .bytesN _, .bool _ | .bytesN _, .u _ | .bytesN _, .i _ | .bytesN _, .str _ | .bytesN _, .none | .bytesN _, .some _ | .bytesN _, .seq _ | .bytesN _, .tup _ | .bytesN _, .record _ | .bytesN _, .uvar _ | .bytesN _, .nvar _ _ => simp [conformsC] at hc
  | .opt _, .unit | .opt _, .bool _ | .opt _, .u _ | .opt _, .i _ | .opt _, .str _ | .opt _, .bytes _ | .opt _, .seq _ | .opt _, .tup _ | .opt _, .record _ | .opt _, .uvar _ | .opt _, .nvar _ _ => simp [conformsC] at hc
  | .seq _, .unit | .seq _, .bool _ | .seq _, .u _ | .seq _, .i _ | .seq _, .str _ | .seq _, .bytes _ | .seq _, .none | .seq _, .some _ | .seq _, .tup _ | .seq _, .record _ | .seq _, .uvar _ | .seq _, .nvar _ _ => simp [conformsC] at hc
  | .tup _, .unit | .tup _, .bool _ | .tup _, .u _ | .tup _, .i _ | .tup _, .str _ | .tup _, .bytes _ | .tup _, .none | .tup _, .some _ | .tup _, .seq _ | .tup _, .record _ | .tup _, .uvar _ | .tup _, .nvar _ _ => simp [conformsC] at hc
  | .record _, .unit | .record _, .bool _ | .record _, .u _ | .record _, .i _ | .record _, .str _ | .record _, .bytes _ | .record _, .none | .record _, .some _ | .record _, .seq _ | .record _, .tup _ | .record _, .uvar _ | .record _, .nvar _ _ => simp [conformsC] at hc
  | .enum _, .unit | .enum _, .bool _ | .enum _, .u _ | .enum _, .i _ | .enum _, .str _ | .enum _, .bytes _ | .enum _, .none | .enum _, .some _ | .enum _, .seq _ | .enum _, .tup _ | .enum _, .record _ => simp [conformsC] at hc
  | .absent, _ => simp [conformsC] at hc
termination_by sizeOf s
decreasing_by
  all_goals simp_wf
  all_goals omega
theorem ofCTup_toCs (ss : List CSchema) (ts : List CTree) (hs : schemaOkCList ss = true)
    (hc : conformsCTup ss ts = true) : ofCTup ss (toCs ts) = some ts := by
  match ss, ts with
  | [], [] => rfl
  | s :: ss', t :: ts' =>
    simp only [schemaOkCList, Bool.and_eq_true] at hs
    simp only [conformsCTup, Bool.and_eq_true] at hc
    simp only [toCs, ofCTup, ofC_toC s t hs.1 hc.1, ofCTup_toCs ss' ts' hs.2 hc.2]
    rfl
  | [], _ :: _ => simp [conformsCTup] at hc
  | _ :: _, [] => simp [conformsCTup] at hc
termination_by sizeOf ss
decreasing_by
  all_goals simp_wf
  all_goals omega
theorem ofCRec_toCFields (fs : List (List Nat × CSchema)) (ts : List (List Nat × CTree))
    (hs : schemaOkCFields fs = true) (hc : conformsCRec fs ts = true) : ofCRec fs (toCFields ts) = some ts := by
  match fs, ts with
  | [], [] => rfl
  | (k, s) :: fs', (k', t) :: ts' =>
    simp only [schemaOkCFields, Bool.and_eq_true] at hs
    simp only [conformsCRec, Bool.and_eq_true] at hc
    have hk : k = k' := eq_of_beq hc.1
    subst hk
    have hb : (k == k) = true := hc.1
    simp only [toCFields, ofCRec, hb, ofC_toC s t hs.1 hc.2.1, ofCRec_toCFields fs' ts' hs.2 hc.2.2]
    rfl
  | [], _ :: _ => simp [conformsCRec] at hc
  | _ :: _, [] => simp [conformsCRec] at hc
termination_by sizeOf fs
decreasing_by
  all_goals simp_wf
  all_goals omega
theorem ofCVariant_toC (vs : List (List Nat × CSchema)) (name : List Nat) (t : CTree)
    (hs : schemaOkCFields vs = true) (hc : conformsCVariant vs name t = true) :
    ofCVariant vs name (toC t) = some (.nvar name t) := by
  match vs with
  | [] => simp [conformsCVariant] at hc
  | (n, p) :: rest =>
    simp only [schemaOkCFields, Bool.and_eq_true] at hs
    cases hn : (n == name) with
    | true =>
      simp only [conformsCVariant, hn] at hc
      simp only [ofCVariant, hn]
      rw [ofC_toC p t hs.1 hc]; rfl
    | false =>
      simp only [conformsCVariant, hn] at hc
      simp only [ofCVariant, hn]
      exact ofCVariant_toC rest name t hs.2 hc
termination_by sizeOf vs
decreasing_by
  all_goals simp_wf
  all_goals omega
end

/-! ## the codec on byte strings -/

theorem readMsg_writeMsg (s : CSchema) (t : CTree) (rest : List Nat) (hs : schemaOkC s = true)
    (hc : conformsC s t = true) (hw : treeWfC t = true) : readMsg s (writeMsg t ++ rest) = some (t, rest) := by
  unfold readMsg writeMsg
  rw [SafeNet.Cbor.decode_encode _ _ (toC_wf t hw)]
  simp only
  rw [ofC_toC s t hs hc]; rfl

theorem readMsg_prefix_none (s : CSchema) (t : CTree) (hw : treeWfC t = true) (n : Nat) (hn : n < (writeMsg t).length) :
    readMsg s ((writeMsg t).take n) = none := by
  unfold readMsg
  unfold writeMsg at hn ⊢
  rw [SafeNet.Cbor.prefix_rejected _ (toC_wf t hw) n hn]

/-! ## tie of the hand-written message schemas to the source's type definitions (`Gen.WireShape`) -/

section Shapes
open SafeNet.Gen.WireShape

/-- does a schema payload have the shape serde derives for the variant — for struct variants with the SAME FIELD NAMES in
the same order (they are the map keys cbor4ii writes)? -/
def shapeOkC : VShape → CSchema → Bool
  | .unit, .absent => true
  | .unit, _ => false
  | .newtype, .absent => false
  | .newtype, _ => true
  | .fields names, .record fs => fs.map (·.1) == names.map nm
  | .fields _, _ => false

/-- the schema describes exactly the variants of the source enum (by name, any order), each with the derived shape -/
def enumTiedC (gen : List (String × VShape)) : CSchema → Bool
  | .enum vs =>
    gen.length == vs.length &&
    gen.all (fun g => match vs.find? (fun v => v.1 == nm g.1) with
      | some v => shapeOkC g.2 v.2
      | none => false) &&
    (gen.map (·.1)).eraseDups.length == gen.length
  | _ => false

/-- the schema is a record with exactly the source struct's field names, in declaration order -/
def structTiedC (gen : List String) : CSchema → Bool
  | .record fs => fs.map (·.1) == gen.map nm
  | _ => false

end Shapes

mutual
/-- every variant name and field name a schema can put on the wire -/
def schemaNames : CSchema → List (List Nat)
  | .opt s => schemaNames s
  | .seq s => schemaNames s
  | .tup ss => schemaNamesList ss
  | .record fs => schemaNamesFields fs
  | .enum vs => schemaNamesFields vs
  | _ => []
def schemaNamesList : List CSchema → List (List Nat)
  | [] => []
  | s :: ss => schemaNames s ++ schemaNamesList ss
def schemaNamesFields : List (List Nat × CSchema) → List (List Nat)
  | [] => []
  | (k, s) :: fs => k :: (schemaNames s ++ schemaNamesFields fs)
end

def nameText (n : List Nat) : String := String.ofList (n.map Char.ofNat)

/-- the names of a schema as strings, each once, in order of first appearance -/
def wireNames (s : CSchema) : List String := ((schemaNames s).map nameText).eraseDups

end SafeNet.WireCbor
