import SafeNet.Model.Store
/-!
The AEAD clause of the store model, derived instead of postulated.

The model says `readFile true (.torn v n) = none` (a strict prefix of a ciphertext never authenticates) and
`readFile true (.full v) = some (.whole v)`.  Here record files are byte strings produced by an abstract
authenticated cipher, and the start-up scan / `get` do what `get_record_from_bytes` does: decrypt under the
store's key and the nonce derived from the record key, and skip the file when that fails.  From three algebraic
laws of an ideal AEAD (`Cipher.Ideal`: correctness, authenticity, no ciphertext is a proper prefix of another;
plus key/nonce separation for foreign files) it follows that a completely written file decrypts to its value, a
torn file is skipped at every prefix length, and a file written under another store key or for another nonce is
skipped — i.e. the byte-level decrypt-or-skip logic refines `readFile true`.
-/
namespace SafeNet.Store

abbrev Bytes := List Nat

/-- an authenticated cipher: key, nonce, plaintext ↦ ciphertext; decryption may refuse -/
structure Cipher where
  enc : Nat → Nat → Bytes → Bytes
  dec : Nat → Nat → Bytes → Option Bytes

/-- the laws of an ideal AEAD used below (hypotheses of the theorems, not axioms) -/
structure Cipher.Ideal (C : Cipher) : Prop where
  /-- decryption inverts encryption -/
  correct : ∀ k n v, C.dec k n (C.enc k n v) = some v
  /-- authenticity: only a ciphertext made under this key and nonce decrypts, and to its own plaintext -/
  authentic : ∀ k n c v, C.dec k n c = some v → c = C.enc k n v
  /-- no ciphertext is a proper prefix of another one under the same key and nonce -/
  prefixFree : ∀ k n v v', C.enc k n v' <+: C.enc k n v → v' = v
  /-- ciphertexts under different keys or nonces are different -/
  separated : ∀ k n k' n' v v', C.enc k n v = C.enc k' n' v' → k = k' ∧ n = n'

/-- `get_record_from_bytes` (feature `encrypt-records`): decrypt under the store's key (derived from the node's
seed) and the nonce derived from the record key; `none` = "Failed to decrypt … clean it up" / not served -/
def decodeFile (C : Cipher) (storeKey : Nat) (nonceOf : Nat → Nat) (k : Nat) (bytes : Bytes) : Option Bytes :=
  match C.dec storeKey (nonceOf k) bytes with
  | some v => some v
  | none => if Gen.Store.decryptFailureSkips then none else some bytes   -- the source returns `None` on failure

theorem decodeFile_eq (C : Cipher) (storeKey : Nat) (nonceOf : Nat → Nat) (k : Nat) (bytes : Bytes) :
    decodeFile C storeKey nonceOf k bytes = C.dec storeKey (nonceOf k) bytes := by
  unfold decodeFile
  cases C.dec storeKey (nonceOf k) bytes with
  | some v => rfl
  | none => simp [show Gen.Store.decryptFailureSkips = true from rfl]

/-- the bytes of a record file of key `k` in state `f`: the ciphertext of the value, or its first `n` bytes -/
def render (C : Cipher) (storeKey : Nat) (nonceOf : Nat → Nat) (valBytes : Nat → Bytes) (k : Nat) : File → Bytes
  | .full v => C.enc storeKey (nonceOf k) (valBytes v)
  | .torn v n => (C.enc storeKey (nonceOf k) (valBytes v)).take n

variable {C : Cipher}

/-- a completely written file decrypts to exactly the value that was written -/
theorem decode_full (h : C.Ideal) (storeKey : Nat) (nonceOf : Nat → Nat) (k : Nat) (v : Bytes) :
    decodeFile C storeKey nonceOf k (C.enc storeKey (nonceOf k) v) = some v := by
  rw [decodeFile_eq]; exact h.correct _ _ _

/-- **a torn file is never served**: every strict prefix of a ciphertext fails to decrypt -/
theorem decode_torn (h : C.Ideal) (storeKey : Nat) (nonceOf : Nat → Nat) (k : Nat) (v : Bytes) (n : Nat)
    (hn : n < (C.enc storeKey (nonceOf k) v).length) :
    decodeFile C storeKey nonceOf k ((C.enc storeKey (nonceOf k) v).take n) = none := by
  rw [decodeFile_eq]
  cases hd : C.dec storeKey (nonceOf k) ((C.enc storeKey (nonceOf k) v).take n) with
  | none => rfl
  | some v' =>
    exfalso
    have h1 := h.authentic _ _ _ _ hd
    have h2 : C.enc storeKey (nonceOf k) v' <+: C.enc storeKey (nonceOf k) v := by
      rw [← h1]; exact List.take_prefix _ _
    have h3 := h.prefixFree _ _ _ _ h2
    subst h3
    have : ((C.enc storeKey (nonceOf k) v').take n).length = (C.enc storeKey (nonceOf k) v').length := by rw [h1]
    rw [List.length_take] at this
    omega

/-- **a foreign file is never served**: a ciphertext made under another store key (another node identity), or
for a record key with another nonce, fails to decrypt -/
theorem decode_foreign (h : C.Ideal) (storeKey : Nat) (nonceOf : Nat → Nat) (k : Nat) (key' nonce' : Nat) (v : Bytes)
    (hne : ¬ (key' = storeKey ∧ nonce' = nonceOf k)) :
    decodeFile C storeKey nonceOf k (C.enc key' nonce' v) = none := by
  rw [decodeFile_eq]
  cases hd : C.dec storeKey (nonceOf k) (C.enc key' nonce' v) with
  | none => rfl
  | some v' =>
    exfalso
    have h1 := h.authentic _ _ _ _ hd
    exact hne (h.separated _ _ _ _ _ _ h1)

/-- **The model's AEAD clause is a refinement of decrypt-or-skip**: for a well-formed file (a torn one holds fewer
bytes than the full ciphertext) decrypting the rendered bytes gives the bytes of exactly what `readFile true` says. -/
theorem readFile_refines (h : C.Ideal) (storeKey : Nat) (nonceOf : Nat → Nat) (valBytes : Nat → Bytes) (k : Nat) (f : File)
    (hwf : ∀ v n, f = .torn v n → n < (C.enc storeKey (nonceOf k) (valBytes v)).length) :
    decodeFile C storeKey nonceOf k (render C storeKey nonceOf valBytes k f) =
      (readFile true f).map (fun r => valBytes (match r with | .whole v => v | .part v _ => v)) := by
  cases f with
  | full v => simp only [render, readFile, Option.map_some]; exact decode_full h _ _ _ _
  | torn v n =>
    simp only [render, readFile, show Gen.Store.decryptFailureSkips = true from rfl, Bool.and_self, ↓reduceIte, Option.map_none]
    exact decode_torn h _ _ _ _ _ (hwf v n rfl)

/-! ### the laws are satisfiable -/

/-- a toy cipher with the four laws: the ciphertext carries key, nonce and the plaintext length in front -/
def toyCipher : Cipher where
  enc k n v := k :: n :: v.length :: v
  dec k n c :=
    match c with
    | k' :: n' :: l :: v => if k' = k ∧ n' = n ∧ l = v.length then some v else none
    | _ => none

theorem toyCipher_ideal : toyCipher.Ideal := by
  refine ⟨?_, ?_, ?_, ?_⟩
  · intro k n v; simp [toyCipher]
  · intro k n c v hd
    simp only [toyCipher] at hd ⊢
    split at hd
    · rename_i k' n' l v'
      split at hd
      · rename_i hc
        cases hd
        obtain ⟨rfl, rfl, rfl⟩ := hc
        rfl
      · cases hd
    · cases hd
  · intro k n v v' hp
    simp only [toyCipher] at hp
    obtain ⟨t, ht⟩ := hp
    simp only [List.cons_append, List.cons.injEq, true_and] at ht
    obtain ⟨hl, hv⟩ := ht
    have : (v' ++ t).length = v.length := by rw [hv]
    rw [List.length_append] at this
    have ht0 : t = [] := List.eq_nil_of_length_eq_zero (by omega)
    subst ht0
    simpa using hv
  · intro k n k' n' v v' he
    simp only [toyCipher, List.cons.injEq] at he
    exact ⟨he.1, he.2.1⟩

end SafeNet.Store
