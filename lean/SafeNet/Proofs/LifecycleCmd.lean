import SafeNet.Proofs.Lifecycle
/-!
# C19: the command layer (`Sys`, `SOp`) — step lemmas

`stepS` unfolded per kind of step; a command (`SOp.cmd`) is `reload`, possibly the partial refresh, possibly the
operation; which processes an operation whose caller does not save can have removed (none).
-/
namespace SafeNet.Lifecycle

/-! ## Translator ties: the save / refresh sites the proofs rely on (regenerated from cmd/node.rs, bin/daemon/main.rs) -/

theorem gen_stop_saves : CmdCfg.gen.stopSavesOnOk = true ∧ CmdCfg.gen.stopSavesOnErr = true := ⟨rfl, rfl⟩
theorem gen_upgrade_saves : CmdCfg.gen.upgradeSavesOnOk = true ∧ CmdCfg.gen.upgradeSavesOnErr = true := ⟨rfl, rfl⟩
theorem gen_daemon_saves : CmdCfg.gen.daemonRestartSavesOnOk = true ∧ CmdCfg.gen.daemonRestartSavesOnErr = true :=
  ⟨rfl, rfl⟩
theorem gen_ok_saves : CmdCfg.gen.addSavesOnOk = true ∧ CmdCfg.gen.startSavesOnOk = true ∧
    CmdCfg.gen.removeSavesOnOk = true ∧ CmdCfg.gen.statusSavesOnOk = true := ⟨rfl, rfl, rfl, rfl⟩
theorem gen_refresh_first : CmdCfg.gen.stopRefreshFirst = true ∧ CmdCfg.gen.removeRefreshFirst = true ∧
    CmdCfg.gen.startRefreshFirst = true ∧ CmdCfg.gen.upgradeRefreshFirst = true := ⟨rfl, rfl, rfl, rfl⟩

/-! ## `stepS` unfolded -/

theorem stepS_reload (s : Sys) : stepS s .reload = ⟨⟨s.file, s.w.os⟩, s.file⟩ := rfl

theorem stepS_nonadd (s : Sys) (o : Op) (hna : ∀ c np mp rp m v f, o ≠ .add c np mp rp m v f) :
    stepS s (.op o) =
      ⟨(exec s.w o).1, if callerSaves s.w o (exec s.w o).2.1 then (exec s.w o).1.reg else s.file⟩ := by
  cases o <;> first | (exfalso; exact hna _ _ _ _ _ _ _ rfl) | rfl

theorem stepS_add (s : Sys) (c : Nat) (np mp rp : Option (Nat × Nat)) (m : Bool) (v : Nat) (f : List Fault) :
    stepS s (.op (.add c np mp rp m v f)) =
      ⟨(addNode s.w ⟨f, 0⟩ s.file c np mp rp m v).1,
        if savesAfter CmdCfg.gen.addSavesOnOk CmdCfg.gen.addSavesOnErr (addNode s.w ⟨f, 0⟩ s.file c np mp rp m v).2.2.1
        then (addNode s.w ⟨f, 0⟩ s.file c np mp rp m v).1.reg else (addNode s.w ⟨f, 0⟩ s.file c np mp rp m v).2.2.2⟩ := rfl

theorem callerSaves_refresh (w : World) (r : Res) : callerSaves w .refresh r = false := rfl

theorem stepS_refresh (s : Sys) : stepS s (.op .refresh) = ⟨⟨s.w.reg.map (svcRefresh s.w.os), s.w.os⟩, s.file⟩ := rfl

/-- The state a command works on is the reloaded state, partially refreshed if the command does that. -/
theorem cmdEntry_cases (s : Sys) (o : Op) :
    cmdEntry CmdCfg.gen s o = stepS s .reload ∨ cmdEntry CmdCfg.gen s o = stepS (stepS s .reload) (.op .refresh) := by
  unfold cmdEntry
  split
  · right; rfl
  · left; rfl

/-- A command is its entry state followed by the operation, or (service not eligible) just its entry state. -/
theorem stepS_cmd (s : Sys) (o : Op) :
    stepS s (.cmd o) = stepS (cmdEntry CmdCfg.gen s o) (.op o) ∨ stepS s (.cmd o) = cmdEntry CmdCfg.gen s o := by
  show (execSC CmdCfg.gen s (.cmd o)).1 = _ ∨ (execSC CmdCfg.gen s (.cmd o)).1 = _
  simp only [execSC]
  split
  · left; rfl
  · right; rfl

/-- The operation inside a step satisfies `Q`. -/
def SOp.All (Q : Op → Prop) : SOp → Prop
  | .op o => Q o
  | .reload => True
  | .cmd o => Q o

/-- Induction principle for predicates on `Sys`: closed under `reload` and under single operations (satisfying `Q`, which
the partial refresh does) means closed under commands. -/
theorem stepS_closed {P : Sys → Prop} {Q : Op → Prop} (hreload : ∀ s, P s → P (stepS s .reload))
    (hop : ∀ s o, Q o → P s → P (stepS s (.op o))) (hQ : Q .refresh) (s : Sys) (sop : SOp) (hq : sop.All Q)
    (h : P s) : P (stepS s sop) := by
  cases sop with
  | reload => exact hreload s h
  | op o => exact hop s o hq h
  | cmd o =>
    have he : P (cmdEntry CmdCfg.gen s o) := by
      rcases cmdEntry_cases s o with h1 | h1 <;> rw [h1]
      · exact hreload s h
      · exact hop _ _ hQ (hreload s h)
    rcases stepS_cmd s o with h1 | h1 <;> rw [h1]
    · exact hop _ _ hq he
    · exact he

theorem runS_closed {P : Sys → Prop} {Q : Op → Prop} (hreload : ∀ s, P s → P (stepS s .reload))
    (hop : ∀ s o, Q o → P s → P (stepS s (.op o))) (hQ : Q .refresh) (ops : List SOp) (hq : ∀ op ∈ ops, op.All Q)
    (s : Sys) (h : P s) : P (runS s ops) := by
  induction ops generalizing s with
  | nil => exact h
  | cons op r ih =>
    exact ih (fun o ho => hq o (List.mem_cons_of_mem _ ho)) _
      (stepS_closed hreload hop hQ s op (hq op (List.mem_cons_self ..)) h)


/-! ## What `add_node` does to a registry it does not hold (the registry file), and to the processes -/

theorem osInstall_procs (os : OS) (n : Nat) (port : Option Nat) (rpc : Nat) : (osInstall os n port rpc).procs = os.procs := rfl

theorem addOne_procs (num : Nat) (np mp rp : Option Nat) (metrics : Bool) (ver : Nat) (a : AddAcc) :
    (addOne num np mp rp metrics ver a).w.os.procs = a.w.os.procs := by
  rcases addOne_cases num np mp rp metrics ver a with ⟨_, hm⟩ | ⟨_, os1, rpc, hm, hos⟩ | ⟨new, os1, _, _, _, _, hm, hos⟩
  · exact hm.1
  · rw [hos, osInstall_procs]; exact hm.1
  · rw [hos, osInstall_procs]; exact hm.1

theorem addLoop_procs (k num : Nat) (np mp rp : Option Nat) (metrics : Bool) (ver : Nat) (a : AddAcc) :
    (addLoop k num np mp rp metrics ver a).w.os.procs = a.w.os.procs := by
  induction k generalizing num np mp rp a with
  | zero => rfl
  | succ k ih =>
    unfold addLoop
    dsimp only
    split
    · exact addOne_procs ..
    · rw [ih]; exact addOne_procs ..

theorem addNode_procs (w : World) (fx : Fx) (file : List Svc) (count : Nat) (np mp rp : Option (Nat × Nat))
    (metrics : Bool) (ver : Nat) : (addNode w fx file count np mp rp metrics ver).1.os.procs = w.os.procs := by
  unfold addNode
  dsimp only
  split
  · rfl
  · split
    · rfl
    · split
      · rfl
      · have := addLoop_procs count (startNumber w.reg) (np.map (·.1)) (mp.map (·.1)) (rp.map (·.1)) metrics ver
          ⟨w, fx, [], [], false, file⟩
        split
        · exact this
        · split <;> exact this

/-- A registry `X` all of whose numbers are below `num` (the registry file, whose numbers are recorded numbers) keeps
its invariants through one iteration of the install loop for service `num`. -/
theorem addOne_side (num : Nat) (np mp rp : Option Nat) (metrics : Bool) (ver : Nat) (a : AddAcc) (X : List Svc)
    (hf : Fresh X num) (hi : Inv ⟨X, a.w.os⟩) : Inv ⟨X, (addOne num np mp rp metrics ver a).w.os⟩ := by
  rcases addOne_cases num np mp rp metrics ver a with ⟨_, hm⟩ | ⟨_, os1, rpc, hm, hos⟩ | ⟨new, os1, _, _, _, _, hm, hos⟩
  · exact inv_minor hm hi
  · rw [hos]
    exact (inv_frame_fresh hf ((frame_of_minor num hm).trans (osInstall_spec os1 num np rpc).1) hi).1
  · rw [hos]
    exact (inv_frame_fresh hf ((frame_of_minor num hm).trans (osInstall_spec os1 num np new.rpcPort).1) hi).1

theorem addLoop_side (k num : Nat) (np mp rp : Option Nat) (metrics : Bool) (ver : Nat) (a : AddAcc) (X : List Svc)
    (hf : Fresh X num) (hi : Inv ⟨X, a.w.os⟩) : Inv ⟨X, (addLoop k num np mp rp metrics ver a).w.os⟩ := by
  induction k generalizing num np mp rp a with
  | zero => exact hi
  | succ k ih =>
    have h1 := addOne_side num np mp rp metrics ver a X hf hi
    unfold addLoop
    dsimp only
    split
    · exact h1
    · exact ih (num + 1) _ _ _ _ (fun s hs => Nat.lt_succ_of_lt (hf s hs)) h1

theorem addNode_side (w : World) (fx : Fx) (file : List Svc) (count : Nat) (np mp rp : Option (Nat × Nat))
    (metrics : Bool) (ver : Nat) (X : List Svc) (hf : Fresh X (startNumber w.reg)) (hi : Inv ⟨X, w.os⟩) :
    Inv ⟨X, (addNode w fx file count np mp rp metrics ver).1.os⟩ := by
  unfold addNode
  dsimp only
  split
  · exact hi
  · split
    · exact hi
    · split
      · exact hi
      · have := addLoop_side count (startNumber w.reg) (np.map (·.1)) (mp.map (·.1)) (rp.map (·.1)) metrics ver
          ⟨w, fx, [], [], false, file⟩ X hf hi
        split
        · exact this
        · split <;> exact this

/-! ## Operations whose caller does not save remove no process -/

/-- Every process is still there. -/
def ProcsKept (os os' : OS) : Prop := ∀ p ∈ os.procs, p ∈ os'.procs

theorem ProcsKept.refl (os : OS) : ProcsKept os os := fun _ h => h
theorem ProcsKept.of_eq {os os' : OS} (h : os'.procs = os.procs) : ProcsKept os os' := fun p hp => by rw [h]; exact hp

theorem onSvc_procsKept (w : World) (i : Nat) (faults : List Fault) (f : Svc → OS → Fx → Svc × OS × Fx × Res)
    (hT : ∀ s os fx, ProcsKept os (f s os fx).2.1) : ProcsKept w.os (onSvc w i faults f).1.os := by
  unfold onSvc
  split
  · exact ProcsKept.refl _
  · rename_i s _
    have := hT s w.os ⟨faults, 0⟩
    split
    rename_i s' os' fx' r heq
    rw [heq] at this
    exact this

theorem svcStart_procsKept (s : Svc) (os : OS) (fx : Fx) (ct : Bool) : ProcsKept os (svcStart s os fx ct).2.1 := by
  rcases svcStart_cases s os fx ct with ⟨_, h2, _⟩ | ⟨_, _, h3⟩ | ⟨_, hs, _⟩
  · rw [h2]; exact ProcsKept.refl _
  · rcases h3 with h3 | h3
    · rw [h3]; exact ProcsKept.refl _
    · exact (osStart_spec h3).2.2.2.2.2.1
  · exact (osStart_spec hs).2.2.2.2.2.1

theorem svcRemove_procsKept (s : Svc) (os : OS) (fx : Fx) (keep : Bool) : ProcsKept os (svcRemove s os fx keep).2.1 := by
  rcases svcRemove_cases s os fx keep with ⟨_, _, h2⟩ | ⟨_, _, _, _, h2⟩ | ⟨_, _, _, hp, _⟩
  · rcases h2 with h2 | h2
    · rw [h2]; exact ProcsKept.refl _
    · exact ProcsKept.of_eq (osUninstall_spec h2).2.1
  · rw [h2]; exact ProcsKept.refl _
  · exact ProcsKept.of_eq hp

/-- **Whatever removes a process is saved by its caller**: an operation (no outside event, no `add`) after which the
caller does not save has removed no process. `stop`, `upgrade` and the daemon's restart are the operations that kill:
their callers save in both arms (`gen_stop_saves`, `gen_upgrade_saves`, `gen_daemon_saves`: regenerated from
cmd/node.rs and bin/daemon/main.rs). -/
theorem exec_unsaved_procsKept (w : World) (op : Op) (hk : op.isKill = false)
    (hna : ∀ c np mp rp m v f, op ≠ .add c np mp rp m v f)
    (hns : callerSaves w op (exec w op).2.1 = false) : ProcsKept w.os (exec w op).1.os ∧ InstSub w.os (exec w op).1.os := by
  have hsame : ∀ i, (w.reg[i]?).isSome = false → ∀ f : Svc → OS → Fx → Svc × OS × Fx × Res, ∀ faults,
      (onSvc w i faults f).1 = w := by
    intro i hi f faults
    unfold onSvc
    cases h : w.reg[i]? with
    | none => rfl
    | some t => rw [h] at hi; cases hi
  cases op with
  | add c np mp rp m v f => exact absurd rfl (hna c np mp rp m v f)
  | start i ct faults =>
    exact ⟨onSvc_procsKept w i faults _ (fun s os fx => svcStart_procsKept s os fx ct),
      exec_instSub w _ (fun _ _ _ _ _ _ _ h => by cases h) (fun _ _ _ h => by cases h)⟩
  | stop i faults =>
    have hg := gen_stop_saves
    have hi : (w.reg[i]?).isSome = false := by
      simpa [callerSaves, callerSavesC, savesAfter, hg.1, hg.2] using hns
    have := hsame i hi svcStop faults
    simp only [exec, this]
    exact ⟨ProcsKept.refl _, InstSub.refl _⟩
  | remove i keep faults =>
    exact ⟨onSvc_procsKept w i faults _ (fun s os fx => svcRemove_procsKept s os fx keep),
      exec_instSub w _ (fun _ _ _ _ _ _ _ h => by cases h) (fun _ _ _ h => by cases h)⟩
  | upgrade i force start ver ct faults =>
    have hg := gen_upgrade_saves
    have hi : (w.reg[i]?).isSome = false := by
      simpa [callerSaves, callerSavesC, hg.1, hg.2] using hns
    have := hsame i hi (fun s os fx => svcUpgrade s os fx force start ver ct) faults
    simp only [exec, this]
    exact ⟨ProcsKept.refl _, InstSub.refl _⟩
  | refresh => exact ⟨ProcsKept.refl _, InstSub.refl _⟩
  | refreshFull fail faults =>
    simp only [exec]; split <;> exact ⟨ProcsKept.refl _, InstSub.refl _⟩
  | drestart i retain faults =>
    have hg := gen_daemon_saves
    have hi : (w.reg[i]?).isSome = false := by
      simpa [callerSaves, callerSavesC, savesAfter, hg.1, hg.2] using hns
    have hnone : w.reg[i]? = none := by
      cases h : w.reg[i]? with
      | none => rfl
      | some t => rw [h] at hi; cases hi
    simp only [exec, hnone]
    exact ⟨ProcsKept.refl _, InstSub.refl _⟩
  | restartOutside i => simp [Op.isKill] at hk
  | kill i => simp [Op.isKill] at hk
  | flaky i on =>
    simp only [exec]; split <;> exact ⟨ProcsKept.refl _, InstSub.refl _⟩
  | saveload => exact ⟨ProcsKept.refl _, InstSub.refl _⟩


/-! ## A whole command, unfolded -/

theorem execS_cmd (s : Sys) (o : Op) :
    execS s (.cmd o) =
      if eligible (cmdEntry CmdCfg.gen s o).w o then execS (cmdEntry CmdCfg.gen s o) (.op o)
      else (cmdEntry CmdCfg.gen s o, .err "err:no-such-service", 0) := by
  simp only [execS, execSC]

theorem execS_nonadd (s : Sys) (o : Op) (hna : ∀ c np mp rp m v f, o ≠ .add c np mp rp m v f) :
    execS s (.op o) =
      (⟨(exec s.w o).1, if callerSaves s.w o (exec s.w o).2.1 then (exec s.w o).1.reg else s.file⟩,
        (exec s.w o).2.1, (exec s.w o).2.2) := by
  cases o <;> first | (exfalso; exact hna _ _ _ _ _ _ _ rfl) | rfl

/-- A command that did not fail went through its operation. -/
theorem execS_cmd_ok {s : Sys} {o : Op} (hok : (execS s (.cmd o)).2.1.failed = false) :
    execS s (.cmd o) = execS (cmdEntry CmdCfg.gen s o) (.op o) := by
  rw [execS_cmd] at hok ⊢
  split
  · rfl
  · rename_i h; simp [h, Res.err] at hok

/-- The commands of `antctl` that the model plays as `cmd`. -/
def Op.isCommand : Op → Bool
  | .add .. => true
  | .start .. => true
  | .stop .. => true
  | .remove .. => true
  | .upgrade .. => true
  | .refreshFull .. => true
  | _ => false

theorem onSvc_none_failed {w : World} {i : Nat} (faults : List Fault) (f : Svc → OS → Fx → Svc × OS × Fx × Res)
    (h : w.reg[i]? = none) : (onSvc w i faults f).2.1.failed = true := by
  simp [onSvc, h, Res.err]

/-- **A command that succeeded has saved what it holds** (`<cmd>SavesOnOk`, regenerated from the `Ok` arms / the code
after the `?` in cmd/node.rs). -/
theorem execOp_ok_saved (s : Sys) (o : Op) (hc : o.isCommand = true) (hok : (execS s (.op o)).2.1.failed = false) :
    (execS s (.op o)).1.file = (execS s (.op o)).1.w.reg := by
  have g1 := gen_ok_saves
  have g2 := gen_stop_saves
  have g3 := gen_upgrade_saves
  have hsome : ∀ i faults (f : Svc → OS → Fx → Svc × OS × Fx × Res), (onSvc s.w i faults f).2.1.failed = false →
      (s.w.reg[i]?).isSome = true := by
    intro i faults f h
    cases hg : s.w.reg[i]? with
    | some t => rfl
    | none => rw [onSvc_none_failed faults f hg] at h; cases h
  cases o with
  | add c np mp rp m v f =>
    have hok' : (addNode s.w ⟨f, 0⟩ s.file c np mp rp m v).2.2.1.failed = false := hok
    show (if savesAfter CmdCfg.gen.addSavesOnOk CmdCfg.gen.addSavesOnErr (addNode s.w ⟨f, 0⟩ s.file c np mp rp m v).2.2.1
      then (addNode s.w ⟨f, 0⟩ s.file c np mp rp m v).1.reg else (addNode s.w ⟨f, 0⟩ s.file c np mp rp m v).2.2.2) = _
    simp only [savesAfter, hok', g1.1]
    rfl
  | start i ct faults =>
    rw [execS_nonadd s _ (fun _ _ _ _ _ _ _ h => by cases h)] at hok ⊢
    have := hsome i faults _ hok
    simp only [exec] at hok ⊢
    simp [callerSaves, callerSavesC, savesAfter, this, hok, g1.2.1]
  | stop i faults =>
    rw [execS_nonadd s _ (fun _ _ _ _ _ _ _ h => by cases h)] at hok ⊢
    have := hsome i faults _ hok
    simp only [exec] at hok ⊢
    simp [callerSaves, callerSavesC, savesAfter, this, hok, g2.1]
  | remove i keep faults =>
    rw [execS_nonadd s _ (fun _ _ _ _ _ _ _ h => by cases h)] at hok ⊢
    have := hsome i faults _ hok
    simp only [exec] at hok ⊢
    simp [callerSaves, callerSavesC, savesAfter, this, hok, g1.2.2.1]
  | upgrade i force start ver ct faults =>
    rw [execS_nonadd s _ (fun _ _ _ _ _ _ _ h => by cases h)] at hok ⊢
    have := hsome i faults _ hok
    simp only [exec] at hok ⊢
    simp [callerSaves, callerSavesC, this, g3.1, g3.2]
  | refreshFull fail faults =>
    rw [execS_nonadd s _ (fun _ _ _ _ _ _ _ h => by cases h)] at hok ⊢
    simp only at hok ⊢
    simp [callerSaves, callerSavesC, savesAfter, hok, g1.2.2.2]
  | refresh => simp [Op.isCommand] at hc
  | drestart _ _ _ => simp [Op.isCommand] at hc
  | restartOutside _ => simp [Op.isCommand] at hc
  | kill _ => simp [Op.isCommand] at hc
  | flaky _ _ => simp [Op.isCommand] at hc
  | saveload => simp [Op.isCommand] at hc

end SafeNet.Lifecycle
