import SafeNet.Proofs.Lifecycle
/-!
# C19: the command layer (`Sys`, `SOp`) — step lemmas

`stepS` unfolded per kind of step; a command (`SOp.cmd`) is `reload`, possibly the partial refresh, possibly the
operation; which processes an operation whose caller does not save can have removed (none).
-/
namespace SafeNet.Lifecycle

/-! ## Translator ties: the save / refresh sites the proofs rely on (regenerated from cmd/node.rs, bin/daemon/main.rs) -/

theorem gen_stop_saves : CmdCfg.gen.stopSavesOnOk = true ∧ CmdCfg.gen.stopSavesOnErr = true := ⟨rfl, rfl⟩
theorem gen_upgrade_saves : CmdCfg.gen.upgradeSavesOnOk = true ∧ CmdCfg.gen.upgradeSavesOnErr = true := ⟨rfl, rfl⟩
theorem gen_daemon_saves : CmdCfg.gen.daemonRestartSavesOnOk = true ∧ CmdCfg.gen.daemonRestartSavesOnErr = true :=
  ⟨rfl, rfl⟩
theorem gen_ok_saves : CmdCfg.gen.addSavesOnOk = true ∧ CmdCfg.gen.startSavesOnOk = true ∧
    CmdCfg.gen.removeSavesOnOk = true ∧ CmdCfg.gen.statusSavesOnOk = true := ⟨rfl, rfl, rfl, rfl⟩
theorem gen_refresh_first : CmdCfg.gen.stopRefreshFirst = true ∧ CmdCfg.gen.removeRefreshFirst = true ∧
    CmdCfg.gen.startRefreshFirst = true ∧ CmdCfg.gen.upgradeRefreshFirst = true := ⟨rfl, rfl, rfl, rfl⟩

/-! ## `stepS` unfolded -/

theorem stepS_reload (s : Sys) : stepS s .reload = ⟨⟨s.file, s.w.os⟩, s.file⟩ := rfl

theorem stepS_nonadd (s : Sys) (o : Op) (hna : ∀ c np mp rp m v f, o ≠ .add c np mp rp m v f) :
    stepS s (.op o) =
      ⟨(exec s.w o).1, if callerSaves s.w o (exec s.w o).2.1 then (exec s.w o).1.reg else s.file⟩ := by
  cases o <;> first | (exfalso; exact hna _ _ _ _ _ _ _ rfl) | rfl

theorem stepS_add (s : Sys) (c : Nat) (np mp rp : Option (Nat × Nat)) (m : Bool) (v : Nat) (f : List Fault) :
    stepS s (.op (.add c np mp rp m v f)) =
      ⟨(addNode s.w ⟨f, 0⟩ s.file c np mp rp m v).1,
        if savesAfter CmdCfg.gen.addSavesOnOk CmdCfg.gen.addSavesOnErr (addNode s.w ⟨f, 0⟩ s.file c np mp rp m v).2.2.1
        then (addNode s.w ⟨f, 0⟩ s.file c np mp rp m v).1.reg else (addNode s.w ⟨f, 0⟩ s.file c np mp rp m v).2.2.2⟩ := rfl

theorem callerSaves_refresh (w : World) (r : Res) : callerSaves w .refresh r = false := rfl

theorem stepS_refresh (s : Sys) : stepS s (.op .refresh) = ⟨⟨s.w.reg.map (svcRefresh s.w.os), s.w.os⟩, s.file⟩ := rfl

/-- The state a command works on is the reloaded state, partially refreshed if the command does that. -/
theorem cmdEntry_cases (s : Sys) (o : Op) :
    cmdEntry CmdCfg.gen s o = stepS s .reload ∨ cmdEntry CmdCfg.gen s o = stepS (stepS s .reload) (.op .refresh) := by
  unfold cmdEntry
  split
  · right; rfl
  · left; rfl

/-- A command is its entry state followed by the operation, or (service not eligible) just its entry state. -/
theorem stepS_cmd (s : Sys) (o : Op) :
    stepS s (.cmd o) = stepS (cmdEntry CmdCfg.gen s o) (.op o) ∨ stepS s (.cmd o) = cmdEntry CmdCfg.gen s o := by
  show (execSC CmdCfg.gen s (.cmd o)).1 = _ ∨ (execSC CmdCfg.gen s (.cmd o)).1 = _
  simp only [execSC]
  split
  · left; rfl
  · right; rfl

/-- The operation inside a step satisfies `Q`. -/
def SOp.All (Q : Op → Prop) : SOp → Prop
  | .op o => Q o
  | .reload => True
  | .cmd o => Q o

/-- Induction principle for predicates on `Sys`: closed under `reload` and under single operations (satisfying `Q`, which
the partial refresh does) means closed under commands. -/
theorem stepS_closed {P : Sys → Prop} {Q : Op → Prop} (hreload : ∀ s, P s → P (stepS s .reload))
    (hop : ∀ s o, Q o → P s → P (stepS s (.op o))) (hQ : Q .refresh) (s : Sys) (sop : SOp) (hq : sop.All Q)
    (h : P s) : P (stepS s sop) := by
  cases sop with
  | reload => exact hreload s h
  | op o => exact hop s o hq h
  | cmd o =>
    have he : P (cmdEntry CmdCfg.gen s o) := by
      rcases cmdEntry_cases s o with h1 | h1 <;> rw [h1]
      · exact hreload s h
      · exact hop _ _ hQ (hreload s h)
    rcases stepS_cmd s o with h1 | h1 <;> rw [h1]
    · exact hop _ _ hq he
    · exact he

theorem runS_closed {P : Sys → Prop} {Q : Op → Prop} (hreload : ∀ s, P s → P (stepS s .reload))
    (hop : ∀ s o, Q o → P s → P (stepS s (.op o))) (hQ : Q .refresh) (ops : List SOp) (hq : ∀ op ∈ ops, op.All Q)
    (s : Sys) (h : P s) : P (runS s ops) := by
  induction ops generalizing s with
  | nil => exact h
  | cons op r ih =>
    exact ih (fun o ho => hq o (List.mem_cons_of_mem _ ho)) _
      (stepS_closed hreload hop hQ s op (hq op (List.mem_cons_self ..)) h)

end SafeNet.Lifecycle
