import SafeNet.Model.Fetcher
/-! Helper lemmas for the replication-fetcher model (C08): case analyses of `next_keys_to_fetch` and `add_keys`,
the queue invariant and its preservation by every operation. -/
namespace SafeNet.Fetcher
open SafeNet.Gen.Fetcher

variable (dist : Nat → Nat)

def pOgf (s : State) : List Entry := s.ogf.filter (fun e => !expired s.now e)
def failedOf (s : State) : List Nat := (s.ogf.filter (expired s.now)).map (·.holder)
def pTbf (s : State) : List Entry := s.tbf.filter (fun e => !(failedOf s).contains e.holder)
def sched (s : State) (choice : List Entry) : List Entry :=
  choice.map (fun c => { c with deadline := s.now + fetchTimeout })

/-- generated: the pruning call precedes the empty-queue early return of `next_keys_to_fetch` -/
theorem prune_first : pruneBeforeEmptyQueueReturn = true := rfl

theorem nextKeys_core (s : State) (choice : List Entry) :
    nextKeys dist s choice = nextKeysCore dist s choice := by
  simp [nextKeys, prune_first]

theorem nextKeys_eq (s : State) (choice : List Entry) :
    nextKeys dist s choice =
      if maxParallelFetch ≤ (pOgf s).length then
        ({ s with ogf := pOgf s, tbf := pTbf s }, { failed := failedOf s, illegal := !choice.isEmpty })
      else if legal dist (pTbf s) (pOgf s) choice then
        ({ s with ogf := pOgf s ++ sched s choice,
                  tbf := (pTbf s).filter (fun e => !hasKTH choice e.key e.ty e.holder) },
         { ret := sched s choice, failed := failedOf s })
      else ({ s with ogf := pOgf s, tbf := pTbf s }, { failed := failedOf s, illegal := true }) := by
  rw [nextKeys_core]; rfl

/-- the three outcomes of `next_keys_to_fetch` -/
theorem nextKeys_cases (s : State) (choice : List Entry) :
    (maxParallelFetch ≤ (pOgf s).length ∧
      nextKeys dist s choice =
        ({ s with ogf := pOgf s, tbf := pTbf s }, { failed := failedOf s, illegal := !choice.isEmpty })) ∨
    ((pOgf s).length < maxParallelFetch ∧ legal dist (pTbf s) (pOgf s) choice = false ∧
      nextKeys dist s choice =
        ({ s with ogf := pOgf s, tbf := pTbf s }, { failed := failedOf s, illegal := true })) ∨
    ((pOgf s).length < maxParallelFetch ∧ legal dist (pTbf s) (pOgf s) choice = true ∧
      nextKeys dist s choice =
        ({ s with ogf := pOgf s ++ sched s choice,
                  tbf := (pTbf s).filter (fun e => !hasKTH choice e.key e.ty e.holder) },
         { ret := sched s choice, failed := failedOf s })) := by
  rw [nextKeys_eq]
  by_cases h1 : maxParallelFetch ≤ (pOgf s).length
  · left; exact ⟨h1, by rw [if_pos h1]⟩
  · right
    have h1' : (pOgf s).length < maxParallelFetch := Nat.lt_of_not_le h1
    by_cases h2 : legal dist (pTbf s) (pOgf s) choice = true
    · right; exact ⟨h1', h2, by rw [if_neg h1, if_pos h2]⟩
    · left
      have h2' : legal dist (pTbf s) (pOgf s) choice = false := by simpa using h2
      exact ⟨h1', h2', by rw [if_neg h1, if_neg h2]⟩

/-! ### comparison operators as generated from the source -/
theorem expired_iff (now : Nat) (e : Entry) : expired now e = true ↔ e.deadline ≤ now := by
  simp [expired, fetchExpired]; omega
theorem alive_iff (now : Nat) (e : Entry) : alive now e = true ↔ now < e.deadline := by
  simp [alive, pendingAlive]; omega
theorem rangeOk_iff (a b : Nat) : rangeOk a b = true ↔ a ≤ b := by simp [rangeOk]
theorem beyond_iff (a b : Nat) : beyondFarthest a b = true ↔ b < a := by simp [beyondFarthest]
theorem keep_iff (a b : Nat) : farthestKeep a b = true ↔ a ≤ b := by simp [farthestKeep]
theorem unchanged_iff (a b : Nat) : farthestUnchanged a b = true ↔ b ≤ a := by simp [farthestUnchanged]
theorem fetchTimeout_pos : 0 < fetchTimeout := by decide

/-! ### membership tests -/
theorem hasKT_true_iff (l : List Entry) (k t : Nat) :
    hasKT l k t = true ↔ ∃ e ∈ l, e.key = k ∧ e.ty = t := by
  simp [hasKT, sameKT, List.any_eq_true]
theorem hasKT_false_iff (l : List Entry) (k t : Nat) :
    hasKT l k t = false ↔ ∀ e ∈ l, ¬(e.key = k ∧ e.ty = t) := by
  rw [← Bool.not_eq_true, hasKT_true_iff]; simp
theorem hasKTH_true_iff (l : List Entry) (k t h : Nat) :
    hasKTH l k t h = true ↔ ∃ e ∈ l, e.key = k ∧ e.ty = t ∧ e.holder = h := by
  simp [hasKTH, sameKTH, List.any_eq_true, and_assoc]
theorem hasKT_append (a b : List Entry) (k t : Nat) :
    hasKT (a ++ b) k t = (hasKT a k t || hasKT b k t) := by simp [hasKT]
theorem hasKT_sched (s : State) (c : List Entry) (k t : Nat) :
    hasKT (sched s c) k t = hasKT c k t := by
  simp only [hasKT, sched, List.any_map]; rfl
theorem sched_map_kt (s : State) (c : List Entry) : (sched s c).map kt = c.map kt := by
  simp [sched, kt, Function.comp_def]
theorem mem_sched {s : State} {c : List Entry} {e : Entry} (h : e ∈ sched s c) :
    ∃ x ∈ c, e.key = x.key ∧ e.ty = x.ty ∧ e.holder = x.holder ∧ e.deadline = s.now + fetchTimeout := by
  simp only [sched, List.mem_map] at h
  obtain ⟨x, hx, rfl⟩ := h
  exact ⟨x, hx, rfl, rfl, rfl, rfl⟩

theorem legal_spec {tbf ogf choice : List Entry} (h : legal dist tbf ogf choice = true) :
    ogf.length + choice.length ≤ maxParallelFetch ∧
    (∀ c ∈ choice, hasKTH tbf c.key c.ty c.holder = true) ∧
    (∀ c ∈ choice, hasKT ogf c.key c.ty = false) ∧
    (choice.map kt).Nodup ∧
    sortedBy dist choice = true ∧
    (∀ e ∈ tbf, hasKT ogf e.key e.ty = true ∨ hasKT choice e.key e.ty = true ∨
      (maxParallelFetch ≤ ogf.length + choice.length ∧ ∀ c ∈ choice, dist c.key ≤ dist e.key)) := by
  simp only [legal, Bool.and_eq_true, decide_eq_true_eq, List.all_eq_true, Bool.or_eq_true,
    Bool.not_eq_true'] at h
  obtain ⟨⟨⟨⟨⟨h1, h2⟩, h3⟩, h4⟩, h5⟩, h6⟩ := h
  refine ⟨h1, h2, h3, h4, h5, ?_⟩
  intro e he
  rcases h6 e he with (h | h) | h
  · exact Or.inl h
  · exact Or.inr (Or.inl h)
  · exact Or.inr (Or.inr h)

theorem pOgf_sub (s : State) : (pOgf s).Sublist s.ogf := List.filter_sublist
theorem pTbf_sub (s : State) : (pTbf s).Sublist s.tbf := List.filter_sublist

/-- queue well-formedness (`HashMap` key uniqueness) and the fullness bound -/
structure Inv (s : State) : Prop where
  ogfNodup : (s.ogf.map kt).Nodup
  tbfNodup : (s.tbf.map kth).Nodup
  full : ∀ f, s.farthest = some f → ∀ e, e ∈ s.tbf ∨ e ∈ s.ogf → dist e.key ≤ f

theorem nodup_map_sub {α β} {f : α → β} {a b : List α} (h : a.Sublist b) (hb : (b.map f).Nodup) :
    (a.map f).Nodup := (h.map f).nodup hb

theorem nextKeys_inv {s : State} (hi : Inv dist s) (choice : List Entry) :
    Inv dist (nextKeys dist s choice).1 := by
  rcases nextKeys_cases dist s choice with ⟨_, h⟩ | ⟨_, _, h⟩ | ⟨_, hl, h⟩
  · rw [h]
    exact ⟨nodup_map_sub (pOgf_sub s) hi.ogfNodup, nodup_map_sub (pTbf_sub s) hi.tbfNodup,
      fun f hf e he => hi.full f hf e (he.imp (fun x => (pTbf_sub s).subset x) (fun x => (pOgf_sub s).subset x))⟩
  · rw [h]
    exact ⟨nodup_map_sub (pOgf_sub s) hi.ogfNodup, nodup_map_sub (pTbf_sub s) hi.tbfNodup,
      fun f hf e he => hi.full f hf e (he.imp (fun x => (pTbf_sub s).subset x) (fun x => (pOgf_sub s).subset x))⟩
  · rw [h]
    obtain ⟨_, hin, hfresh, hnd, _, _⟩ := legal_spec dist hl
    refine ⟨?_, ?_, ?_⟩
    · show ((pOgf s ++ sched s choice).map kt).Nodup
      rw [List.map_append, sched_map_kt, List.nodup_append]
      refine ⟨nodup_map_sub (pOgf_sub s) hi.ogfNodup, hnd, ?_⟩
      intro a ha b hb hab
      subst hab
      obtain ⟨o, ho, rfl⟩ := List.mem_map.1 ha
      obtain ⟨c, hc, hco⟩ := List.mem_map.1 hb
      have := (hasKT_false_iff _ _ _).1 (hfresh c hc) o ho
      simp only [kt, Prod.mk.injEq] at hco
      exact this ⟨hco.1.symm, hco.2.symm⟩
    · exact nodup_map_sub (List.filter_sublist.trans (pTbf_sub s)) hi.tbfNodup
    · intro f hf e he
      rcases he with he | he
      · exact hi.full f hf e (Or.inl ((List.filter_sublist.trans (pTbf_sub s)).subset he))
      · rcases List.mem_append.1 he with he | he
        · exact hi.full f hf e (Or.inr ((pOgf_sub s).subset he))
        · obtain ⟨c, hc, hk, _, _, _⟩ := mem_sched he
          obtain ⟨x, hx, hxk, _, _⟩ := (hasKTH_true_iff _ _ _ _).1 (hin c hc)
          rw [hk, ← hxk]
          exact hi.full f hf x (Or.inl ((pTbf_sub s).subset hx))

/-! ### `add_keys` before its final `next_keys_to_fetch` -/
theorem fp_checks : fastPathChecksOngoing = true := rfl
theorem skip_same : skipHeldSameTypeOnly = true := rfl

def newOf (s : State) (locals : List (Nat × Nat)) (h : Nat) (incoming : List (Nat × Nat)) :=
  incoming.filter (admits dist s locals h)
def tbf1 (s : State) (locals : List (Nat × Nat)) := s.tbf.filter (fun e => !heldSame locals e)
def ogf1 (s : State) (locals : List (Nat × Nat)) := s.ogf.filter (fun e => !heldSame locals e)
def tbf2 (s : State) (locals : List (Nat × Nat)) := (tbf1 s locals).filter (alive s.now)
def new3 (s : State) (new : List (Nat × Nat)) := match s.range with
  | some r => new.filter (fun (p : Nat × Nat) => rangeOk (dist p.1) r)
  | none => new
def fastEntry (s : State) (h : Nat) (p : Nat × Nat) : Entry := ⟨p.1, p.2, h, s.now + fetchTimeout⟩

theorem fp_single : fastPathNeedsSingleAdvert = true := rfl

/-- **the fast-path condition, in one place**: the single-key fast path is taken exactly when the ADVERTISEMENT has one key
and that key is new -/
theorem fastKey_some_iff (incoming new : List (Nat × Nat)) (p : Nat × Nat) :
    fastKey incoming new = some p ↔ new = [p] ∧ incoming.length = 1 := by
  unfold fastKey fastKeyWith
  simp only [fp_single, Bool.true_and]
  constructor
  · intro h
    split at h
    · rename_i q
      split at h
      · cases h
      · rename_i hl
        simp only [bne_iff_ne, ne_eq, Decidable.not_not] at hl
        injection h with h; subst h
        exact ⟨rfl, hl⟩
    · cases h
  · rintro ⟨rfl, hl⟩
    simp [hl]

theorem fastKey_none_iff (incoming new : List (Nat × Nat)) :
    fastKey incoming new = none ↔ (new.length ≠ 1 ∨ incoming.length ≠ 1) := by
  constructor
  · intro h
    by_cases h1 : new.length = 1
    · right
      intro h2
      match new, h1 with
      | [p], _ =>
        have := (fastKey_some_iff incoming [p] p).2 ⟨rfl, h2⟩
        rw [h] at this; cases this
    · exact Or.inl h1
  · intro h
    cases hk : fastKey incoming new with
    | none => rfl
    | some p =>
      obtain ⟨rfl, hl⟩ := (fastKey_some_iff incoming new p).1 hk
      rcases h with h | h
      · exact absurd rfl h
      · exact absurd hl h

theorem addCore_cases' (s : State) (h : Nat) (incoming locals : List (Nat × Nat)) :
    (∃ p : Nat × Nat, fastKey incoming (newOf dist s locals h incoming) = some p ∧ hasKT (ogf1 s locals) p.1 p.2 = true ∧
      addCore dist s h incoming locals = ({ s with tbf := tbf2 s locals, ogf := ogf1 s locals }, [])) ∨
    (∃ p : Nat × Nat, fastKey incoming (newOf dist s locals h incoming) = some p ∧ hasKT (ogf1 s locals) p.1 p.2 = false ∧
      addCore dist s h incoming locals =
        ({ s with tbf := tbf2 s locals, ogf := ogf1 s locals ++ [fastEntry s h p] }, [fastEntry s h p])) ∨
    (fastKey incoming (newOf dist s locals h incoming) = none ∧
      addCore dist s h incoming locals =
        ({ s with tbf := insertPending s.now h (tbf2 s locals) (new3 dist s (newOf dist s locals h incoming)),
                  ogf := ogf1 s locals }, [])) := by
  unfold addCore addCoreWith
  simp only []
  show (∃ p, fastKey incoming (newOf dist s locals h incoming) = some p ∧ _) ∨ _
  cases hk : fastKey incoming (newOf dist s locals h incoming) with
  | some p =>
    have hk' : fastKeyWith fastPathNeedsSingleAdvert incoming (List.filter (admits dist s locals h) incoming) = some p := hk
    by_cases hkt : hasKT (ogf1 s locals) p.1 p.2 = true
    · left
      refine ⟨p, rfl, hkt, ?_⟩
      simp only [ogf1] at hkt
      simp [hk', hkt, fp_checks, tbf2, tbf1, ogf1]
    · right; left
      have hkt' : hasKT (ogf1 s locals) p.1 p.2 = false := by simpa using hkt
      refine ⟨p, rfl, hkt', ?_⟩
      simp only [ogf1] at hkt'
      simp [hk', hkt', tbf2, tbf1, ogf1, fastEntry]
  | none =>
    have hk' : fastKeyWith fastPathNeedsSingleAdvert incoming (List.filter (admits dist s locals h) incoming) = none := hk
    right; right
    refine ⟨rfl, ?_⟩
    simp only [hk', tbf2, tbf1, ogf1, new3, newOf]
    rfl

/-- the three ways through the first part of `add_keys`. The fast path (first two cases) is taken only by a single-key
advertisement whose key is new (`addCore_fast_single`); every other list — in particular a multi-key list with exactly one
new key — goes through the range filter and the queue (third case). -/
theorem addCore_cases (s : State) (h : Nat) (incoming locals : List (Nat × Nat)) :
    (∃ p : Nat × Nat, newOf dist s locals h incoming = [p] ∧ hasKT (ogf1 s locals) p.1 p.2 = true ∧
      addCore dist s h incoming locals = ({ s with tbf := tbf2 s locals, ogf := ogf1 s locals }, [])) ∨
    (∃ p : Nat × Nat, newOf dist s locals h incoming = [p] ∧ hasKT (ogf1 s locals) p.1 p.2 = false ∧
      addCore dist s h incoming locals =
        ({ s with tbf := tbf2 s locals, ogf := ogf1 s locals ++ [fastEntry s h p] }, [fastEntry s h p])) ∨
    (((newOf dist s locals h incoming).length ≠ 1 ∨ incoming.length ≠ 1) ∧
      addCore dist s h incoming locals =
        ({ s with tbf := insertPending s.now h (tbf2 s locals) (new3 dist s (newOf dist s locals h incoming)),
                  ogf := ogf1 s locals }, [])) := by
  rcases addCore_cases' dist s h incoming locals with ⟨p, hp, hk, hc⟩ | ⟨p, hp, hk, hc⟩ | ⟨hn, hc⟩
  · exact Or.inl ⟨p, ((fastKey_some_iff _ _ _).1 hp).1, hk, hc⟩
  · exact Or.inr (Or.inl ⟨p, ((fastKey_some_iff _ _ _).1 hp).1, hk, hc⟩)
  · exact Or.inr (Or.inr ⟨(fastKey_none_iff _ _).1 hn, hc⟩)

/-- whatever the fast path returns comes from a single-key advertisement -/
theorem addCore_fast_single {s : State} {h : Nat} {incoming locals : List (Nat × Nat)}
    (hne : (addCore dist s h incoming locals).2 ≠ []) : incoming.length = 1 := by
  rcases addCore_cases' dist s h incoming locals with ⟨p, hp, hk, hc⟩ | ⟨p, hp, hk, hc⟩ | ⟨hn, hc⟩
  · rw [hc] at hne; exact absurd rfl hne
  · exact ((fastKey_some_iff _ _ _).1 hp).2
  · rw [hc] at hne; exact absurd rfl hne

theorem addKeys_shape (s : State) (h : Nat) (incoming locals : List (Nat × Nat)) (choice : List Entry) :
    ∃ X ill, addKeys dist s h incoming locals choice =
      ((nextKeys dist (addCore dist s h incoming locals).1 X).1,
       { ret := (addCore dist s h incoming locals).2 ++ (nextKeys dist (addCore dist s h incoming locals).1 X).2.ret,
         failed := (nextKeys dist (addCore dist s h incoming locals).1 X).2.failed,
         illegal := ill }) := by
  unfold addKeys addKeysFrom
  generalize addCore dist s h incoming locals = r
  obtain ⟨s1, fast⟩ := r
  cases fast with
  | nil => exact ⟨choice, (nextKeys dist s1 choice).2.illegal, rfl⟩
  | cons f fs =>
    cases choice with
    | nil => exact ⟨[], true, rfl⟩
    | cons c rest =>
      simp only []
      split
      · exact ⟨rest, (nextKeys dist s1 rest).2.illegal, rfl⟩
      · exact ⟨[], true, rfl⟩

theorem insertPending_cons (now h : Nat) (tbf : List Entry) (p : Nat × Nat) (ps : List (Nat × Nat)) :
    insertPending now h tbf (p :: ps) =
      insertPending now h
        (if hasKTH tbf p.1 p.2 h then tbf else tbf ++ [⟨p.1, p.2, h, now + pendingTimeout⟩]) ps := rfl

theorem mem_insertPending {now h : Nat} {new : List (Nat × Nat)} {tbf : List Entry} {e : Entry}
    (he : e ∈ insertPending now h tbf new) :
    e ∈ tbf ∨ ∃ p ∈ new, e = ⟨p.1, p.2, h, now + pendingTimeout⟩ := by
  induction new generalizing tbf with
  | nil => exact Or.inl he
  | cons p ps ih =>
    rw [insertPending_cons] at he
    have := ih he
    rcases this with h1 | ⟨q, hq, rfl⟩
    · split at h1
      · exact Or.inl h1
      · rcases List.mem_append.1 h1 with h2 | h2
        · exact Or.inl h2
        · exact Or.inr ⟨p, List.mem_cons_self, by simpa using h2⟩
    · exact Or.inr ⟨q, List.mem_cons_of_mem _ hq, rfl⟩

theorem insertPending_nodup {now h : Nat} {new : List (Nat × Nat)} {tbf : List Entry}
    (hn : (tbf.map kth).Nodup) : ((insertPending now h tbf new).map kth).Nodup := by
  induction new generalizing tbf with
  | nil => exact hn
  | cons p ps ih =>
    rw [insertPending_cons]
    apply ih
    split
    · exact hn
    · rename_i hh
      rw [List.map_append, List.nodup_append]
      refine ⟨hn, by simp, ?_⟩
      intro a ha b hb hab
      subst hab
      obtain ⟨x, hx, rfl⟩ := List.mem_map.1 ha
      simp only [List.map_cons, List.map_nil, List.mem_singleton, kth, Prod.mk.injEq] at hb
      exact hh ((hasKTH_true_iff _ _ _ _).2 ⟨x, hx, hb.1, hb.2.1, hb.2.2⟩)

theorem admits_spec {s : State} {locals : List (Nat × Nat)} {h : Nat} {p : Nat × Nat}
    (ha : admits dist s locals h p = true) :
    locals.lookup p.1 ≠ some p.2 ∧ hasKTH s.tbf p.1 p.2 h = false ∧
      (∀ f, s.farthest = some f → dist p.1 ≤ f) := by
  simp only [admits, skipHeld, skip_same, if_true, Bool.and_eq_true, Bool.not_eq_true',
    beq_eq_false_iff_ne, ne_eq] at ha
  refine ⟨ha.1.1, ha.1.2, ?_⟩
  intro f hf
  have h3 := ha.2
  rw [hf] at h3
  simp only [Bool.not_eq_true'] at h3
  have : ¬ (f < dist p.1) := by
    intro hlt
    have := (beyond_iff (dist p.1) f).2 hlt
    rw [h3] at this; cases this
  omega

theorem addCore_fields (s : State) (h : Nat) (incoming locals : List (Nat × Nat)) :
    (addCore dist s h incoming locals).1.range = s.range ∧
    (addCore dist s h incoming locals).1.farthest = s.farthest ∧
    (addCore dist s h incoming locals).1.now = s.now ∧
    (addCore dist s h incoming locals).1.ogf = ogf1 s locals ++ (addCore dist s h incoming locals).2 := by
  rcases addCore_cases dist s h incoming locals with ⟨p, _, _, he⟩ | ⟨p, _, _, he⟩ | ⟨_, he⟩ <;>
    rw [he] <;> simp

theorem addCore_fast {s : State} {h : Nat} {incoming locals : List (Nat × Nat)} {e : Entry}
    (he : e ∈ (addCore dist s h incoming locals).2) :
    ∃ p : Nat × Nat, newOf dist s locals h incoming = [p] ∧ hasKT (ogf1 s locals) p.1 p.2 = false ∧
      e = fastEntry s h p ∧ (addCore dist s h incoming locals).2 = [e] := by
  rcases addCore_cases dist s h incoming locals with ⟨p, _, _, hc⟩ | ⟨p, hp, hk, hc⟩ | ⟨_, hc⟩
  · rw [hc] at he; cases he
  · rw [hc] at he ⊢
    simp only [List.mem_singleton] at he
    exact ⟨p, hp, hk, he, by rw [he]⟩
  · rw [hc] at he; cases he

theorem addCore_tbf_origin {s : State} {h : Nat} {incoming locals : List (Nat × Nat)} {e : Entry}
    (he : e ∈ (addCore dist s h incoming locals).1.tbf) :
    (e ∈ s.tbf ∧ heldSame locals e = false) ∨
    (((newOf dist s locals h incoming).length ≠ 1 ∨ incoming.length ≠ 1) ∧ ∃ p ∈ newOf dist s locals h incoming,
      (∀ r, s.range = some r → dist p.1 ≤ r) ∧ e = ⟨p.1, p.2, h, s.now + pendingTimeout⟩) := by
  have old : ∀ {x}, x ∈ tbf2 s locals → x ∈ s.tbf ∧ heldSame locals x = false := by
    intro x hx
    simp only [tbf2, tbf1, List.mem_filter, Bool.not_eq_true'] at hx
    exact ⟨hx.1.1, hx.1.2⟩
  rcases addCore_cases dist s h incoming locals with ⟨p, _, _, hc⟩ | ⟨p, _, _, hc⟩ | ⟨hlen, hc⟩
  · rw [hc] at he; exact Or.inl (old he)
  · rw [hc] at he; exact Or.inl (old he)
  · rw [hc] at he
    rcases mem_insertPending he with h1 | ⟨p, hp, rfl⟩
    · exact Or.inl (old h1)
    · refine Or.inr ⟨hlen, p, ?_, ?_, rfl⟩
      · unfold new3 at hp
        split at hp
        · exact (List.mem_filter.1 hp).1
        · exact hp
      · intro r hr
        unfold new3 at hp
        rw [hr] at hp
        exact (rangeOk_iff _ _).1 (List.mem_filter.1 hp).2

theorem addCore_inv {s : State} (hi : Inv dist s) (h : Nat) (incoming locals : List (Nat × Nat)) :
    Inv dist (addCore dist s h incoming locals).1 := by
  obtain ⟨_, hfar, _, hog⟩ := addCore_fields dist s h incoming locals
  refine ⟨?_, ?_, ?_⟩
  · rw [hog, List.map_append, List.nodup_append]
    refine ⟨nodup_map_sub List.filter_sublist hi.ogfNodup, ?_, ?_⟩
    · rcases addCore_cases dist s h incoming locals with ⟨p, _, _, hc⟩ | ⟨p, _, _, hc⟩ | ⟨_, hc⟩ <;>
        rw [hc] <;> simp
    · intro a ha b hb hab
      subst hab
      obtain ⟨o, ho, rfl⟩ := List.mem_map.1 ha
      obtain ⟨e, he, hek⟩ := List.mem_map.1 hb
      obtain ⟨p, _, hk, rfl, _⟩ := addCore_fast dist he
      have := (hasKT_false_iff _ _ _).1 hk o ho
      simp only [kt, fastEntry, Prod.mk.injEq] at hek
      exact this ⟨hek.1.symm, hek.2.symm⟩
  · rcases addCore_cases dist s h incoming locals with ⟨p, _, _, hc⟩ | ⟨p, _, _, hc⟩ | ⟨_, hc⟩
    · rw [hc]; exact nodup_map_sub (List.filter_sublist.trans List.filter_sublist) hi.tbfNodup
    · rw [hc]; exact nodup_map_sub (List.filter_sublist.trans List.filter_sublist) hi.tbfNodup
    · rw [hc]
      exact insertPending_nodup (nodup_map_sub (List.filter_sublist.trans List.filter_sublist) hi.tbfNodup)
  · intro f hf e he
    rw [hfar] at hf
    rcases he with he | he
    · rcases addCore_tbf_origin dist he with ⟨h1, _⟩ | ⟨_, p, hp, _, rfl⟩
      · exact hi.full f hf e (Or.inl h1)
      · exact (admits_spec dist (List.mem_filter.1 hp).2).2.2 f hf
    · rw [hog] at he
      rcases List.mem_append.1 he with he | he
      · exact hi.full f hf e (Or.inr (List.mem_filter.1 he).1)
      · obtain ⟨p, hp, _, rfl, _⟩ := addCore_fast dist he
        have hmem : p ∈ newOf dist s locals h incoming := by rw [hp]; exact List.mem_singleton.2 rfl
        exact (admits_spec dist (List.mem_filter.1 hmem).2).2.2 f hf

theorem inv_of_sub {s s' : State} (hi : Inv dist s) (ht : s'.tbf.Sublist s.tbf) (ho : s'.ogf.Sublist s.ogf)
    (hf : s'.farthest = s.farthest) : Inv dist s' :=
  ⟨nodup_map_sub ho hi.ogfNodup, nodup_map_sub ht hi.tbfNodup,
   fun f hff e he => hi.full f (hf ▸ hff) e (he.imp (fun x => ht.subset x) (fun x => ho.subset x))⟩

theorem setFull_inv {s : State} (hi : Inv dist s) (d : Nat) : Inv dist (setFull dist s d) := by
  have key : Inv dist { s with tbf := s.tbf.filter (fun e => farthestKeep (dist e.key) d),
                               ogf := s.ogf.filter (fun e => farthestKeep (dist e.key) d),
                               farthest := some d } := by
    refine ⟨nodup_map_sub List.filter_sublist hi.ogfNodup, nodup_map_sub List.filter_sublist hi.tbfNodup, ?_⟩
    intro f hf e he
    simp only [Option.some.injEq] at hf
    subst hf
    rcases he with he | he <;> exact (keep_iff _ _).1 (List.mem_filter.1 he).2
  unfold setFull
  split
  · split
    · exact hi
    · exact key
  · exact key

theorem step_inv {s : State} (hi : Inv dist s) (op : Op) : Inv dist (step dist s op).1 := by
  cases op with
  | add h inc loc c =>
    obtain ⟨X, ill, hx⟩ := addKeys_shape dist s h inc loc c
    show Inv dist (addKeys dist s h inc loc c).1
    rw [hx]
    exact nextKeys_inv dist (addCore_inv dist hi h inc loc) X
  | put k t c =>
    have h2 : Inv dist { s with tbf := s.tbf.filter (fun e => !sameKT k t e),
                                ogf := s.ogf.filter (fun e => !(e.key == k)) } :=
      inv_of_sub dist hi List.filter_sublist List.filter_sublist rfl
    exact nextKeys_inv dist h2 c
  | early k t c =>
    have h2 : Inv dist { s with tbf := s.tbf.filter (fun e => !sameKT k t e),
                                ogf := s.ogf.filter (fun e => !sameKT k t e) } :=
      inv_of_sub dist hi List.filter_sublist List.filter_sublist rfl
    exact nextKeys_inv dist h2 c
  | next c => exact nextKeys_inv dist hi c
  | setRange r => exact ⟨hi.ogfNodup, hi.tbfNodup, hi.full⟩
  | full k =>
    cases k with
    | none => exact hi
    | some k => exact setFull_inv dist hi (dist k)
  | age d => exact ⟨hi.ogfNodup, hi.tbfNodup, hi.full⟩

theorem run_inv {s : State} (hi : Inv dist s) (ops : List Op) : Inv dist (run dist s ops) := by
  induction ops generalizing s with
  | nil => exact hi
  | cons op ops ih => exact ih (step_inv dist hi op)

theorem init_inv : Inv dist State.init :=
  ⟨List.nodup_nil, List.nodup_nil, fun _ hf => by cases hf⟩

/-! ### facts about one `next_keys_to_fetch` call -/
theorem nextKeys_ogf_eq (s : State) (c : List Entry) :
    (nextKeys dist s c).1.ogf = pOgf s ++ (nextKeys dist s c).2.ret := by
  rcases nextKeys_cases dist s c with ⟨_, h⟩ | ⟨_, _, h⟩ | ⟨_, _, h⟩ <;> rw [h] <;> simp

theorem nextKeys_fields (s : State) (c : List Entry) :
    (nextKeys dist s c).1.range = s.range ∧ (nextKeys dist s c).1.farthest = s.farthest ∧
    (nextKeys dist s c).1.now = s.now ∧ (nextKeys dist s c).2.failed = failedOf s := by
  rcases nextKeys_cases dist s c with ⟨_, h⟩ | ⟨_, _, h⟩ | ⟨_, _, h⟩ <;> rw [h] <;> simp

theorem nextKeys_tbf_sub (s : State) (c : List Entry) :
    (nextKeys dist s c).1.tbf.Sublist (pTbf s) := by
  rcases nextKeys_cases dist s c with ⟨_, h⟩ | ⟨_, _, h⟩ | ⟨_, _, h⟩ <;> rw [h]
  · exact List.Sublist.refl _
  · exact List.Sublist.refl _
  · exact List.filter_sublist

theorem nextKeys_ret_origin {s : State} {c : List Entry} {e : Entry}
    (he : e ∈ (nextKeys dist s c).2.ret) :
    (∃ x ∈ pTbf s, x.key = e.key ∧ x.ty = e.ty ∧ x.holder = e.holder) ∧
    e.deadline = s.now + fetchTimeout ∧ hasKT (pOgf s) e.key e.ty = false := by
  rcases nextKeys_cases dist s c with ⟨_, h⟩ | ⟨_, _, h⟩ | ⟨_, hl, h⟩
  · rw [h] at he; cases he
  · rw [h] at he; cases he
  · rw [h] at he
    obtain ⟨_, hin, hfresh, _, _, _⟩ := legal_spec dist hl
    obtain ⟨x, hx, hk, ht, hh, hd⟩ := mem_sched he
    obtain ⟨y, hy, hyk, hyt, hyh⟩ := (hasKTH_true_iff _ _ _ _).1 (hin x hx)
    refine ⟨⟨y, hy, by rw [hyk, hk], by rw [hyt, ht], by rw [hyh, hh]⟩, hd, ?_⟩
    rw [hk, ht]; exact hfresh x hx

theorem nextKeys_cap (s : State) (c : List Entry) :
    ((nextKeys dist s c).2.ret ≠ [] → (nextKeys dist s c).1.ogf.length ≤ maxParallelFetch) ∧
    ((nextKeys dist s c).1.ogf.length ≤ s.ogf.length ∨ (nextKeys dist s c).1.ogf.length ≤ maxParallelFetch) := by
  have hsub : (pOgf s).length ≤ s.ogf.length := (pOgf_sub s).length_le
  rcases nextKeys_cases dist s c with ⟨_, h⟩ | ⟨_, _, h⟩ | ⟨_, hl, h⟩
  · rw [h]; exact ⟨fun hne => absurd rfl hne, Or.inl hsub⟩
  · rw [h]; exact ⟨fun hne => absurd rfl hne, Or.inl hsub⟩
  · rw [h]
    obtain ⟨hcap, _⟩ := legal_spec dist hl
    have : (pOgf s ++ sched s c).length ≤ maxParallelFetch := by
      simp only [List.length_append, sched, List.length_map]; exact hcap
    exact ⟨fun _ => this, Or.inr this⟩

theorem sortedBy_pairwise : ∀ {l : List Entry}, sortedBy dist l = true →
    l.Pairwise (fun a b => dist a.key ≤ dist b.key)
  | [], _ => List.Pairwise.nil
  | [_], _ => List.pairwise_singleton _ _
  | a :: b :: rest, h => by
    simp only [sortedBy, Bool.and_eq_true, decide_eq_true_eq] at h
    have ih := sortedBy_pairwise h.2
    refine List.Pairwise.cons ?_ ih
    intro x hx
    rcases List.mem_cons.1 hx with rfl | hx
    · exact h.1
    · exact Nat.le_trans h.1 ((List.pairwise_cons.1 ih).1 x hx)

theorem nextKeys_closest {s : State} {c : List Entry} (hok : (nextKeys dist s c).2.illegal = false) :
    (nextKeys dist s c).2.ret.Pairwise (fun a b => dist a.key ≤ dist b.key) ∧
    ∀ e ∈ (nextKeys dist s c).1.tbf, hasKT (nextKeys dist s c).1.ogf e.key e.ty = false →
      maxParallelFetch ≤ (nextKeys dist s c).1.ogf.length ∧
      ∀ r ∈ (nextKeys dist s c).2.ret, dist r.key ≤ dist e.key := by
  rcases nextKeys_cases dist s c with ⟨hfull, h⟩ | ⟨_, _, h⟩ | ⟨_, hl, h⟩
  · rw [h]
    exact ⟨List.Pairwise.nil, fun e _ _ => ⟨hfull, fun r hr => by cases hr⟩⟩
  · rw [h] at hok; cases hok
  · rw [h]
    obtain ⟨_, _, _, _, hs, hmax⟩ := legal_spec dist hl
    refine ⟨?_, ?_⟩
    · show (sched s c).Pairwise _
      simp only [sched, List.pairwise_map]
      exact sortedBy_pairwise dist hs
    · intro e he hno
      have he' : e ∈ pTbf s := (List.mem_filter.1 he).1
      have hno' : hasKT (pOgf s) e.key e.ty = false ∧ hasKT c e.key e.ty = false := by
        have : hasKT (pOgf s ++ sched s c) e.key e.ty = false := hno
        rw [hasKT_append, hasKT_sched] at this
        simpa using this
      rcases hmax e he' with h1 | h1 | ⟨h1, h2⟩
      · rw [hno'.1] at h1; cases h1
      · rw [hno'.2] at h1; cases h1
      · refine ⟨?_, ?_⟩
        · show maxParallelFetch ≤ (pOgf s ++ sched s c).length
          simp only [List.length_append, sched, List.length_map]; exact h1
        · intro r hr
          obtain ⟨x, hx, hk, _⟩ := mem_sched hr
          rw [hk]; exact h2 x hx

theorem pTbf_no_failed {s : State} {e : Entry} (he : e ∈ pTbf s) : e.holder ∉ failedOf s := by
  simp only [pTbf, List.mem_filter, Bool.not_eq_true', List.contains_eq_mem, decide_eq_false_iff_not] at he
  exact he.2

theorem mem_failedOf {s : State} {o : Entry} (ho : o ∈ s.ogf) (hd : o.deadline ≤ s.now) :
    o.holder ∈ failedOf s := by
  simp only [failedOf, List.mem_map, List.mem_filter]
  exact ⟨o, ⟨ho, (expired_iff _ _).2 hd⟩, rfl⟩

theorem mem_pOgf {s : State} {o : Entry} : o ∈ pOgf s ↔ o ∈ s.ogf ∧ s.now < o.deadline := by
  simp only [pOgf, List.mem_filter, Bool.not_eq_true']
  constructor
  · rintro ⟨h1, h2⟩
    refine ⟨h1, ?_⟩
    have : ¬ o.deadline ≤ s.now := fun h => by
      rw [(expired_iff _ _).2 h] at h2; cases h2
    omega
  · rintro ⟨h1, h2⟩
    refine ⟨h1, ?_⟩
    cases hx : expired s.now o with
    | false => rfl
    | true => have := (expired_iff _ _).1 hx; omega

theorem nextKeys_ret_nodup (s : State) (c : List Entry) : ((nextKeys dist s c).2.ret.map kt).Nodup := by
  rcases nextKeys_cases dist s c with ⟨_, h⟩ | ⟨_, _, h⟩ | ⟨_, hl, h⟩
  · rw [h]; exact List.nodup_nil
  · rw [h]; exact List.nodup_nil
  · rw [h]
    obtain ⟨_, _, _, hnd, _, _⟩ := legal_spec dist hl
    show ((sched s c).map kt).Nodup
    rw [sched_map_kt]; exact hnd

theorem nextKeys_keeps_or_schedules {s : State} {c : List Entry} {e : Entry} (he : e ∈ pTbf s) :
    e ∈ (nextKeys dist s c).1.tbf ∨ hasKT (nextKeys dist s c).2.ret e.key e.ty = true := by
  rcases nextKeys_cases dist s c with ⟨_, h⟩ | ⟨_, _, h⟩ | ⟨_, _, h⟩
  · rw [h]; exact Or.inl he
  · rw [h]; exact Or.inl he
  · rw [h]
    cases hc : hasKTH c e.key e.ty e.holder with
    | false =>
      left
      show e ∈ (pTbf s).filter _
      exact List.mem_filter.2 ⟨he, by simp [hc]⟩
    | true =>
      right
      obtain ⟨x, hx, hk, ht, _⟩ := (hasKTH_true_iff _ _ _ _).1 hc
      show hasKT (sched s c) e.key e.ty = true
      rw [hasKT_sched]
      exact (hasKT_true_iff _ _ _).2 ⟨x, hx, hk, ht⟩

theorem insertPending_mono {now h : Nat} {new : List (Nat × Nat)} {tbf : List Entry} {e : Entry}
    (he : e ∈ tbf) : e ∈ insertPending now h tbf new := by
  induction new generalizing tbf with
  | nil => exact he
  | cons p ps ih =>
    rw [insertPending_cons]
    apply ih
    split
    · exact he
    · exact List.mem_append_left _ he

theorem insertPending_has {now h : Nat} {new : List (Nat × Nat)} {tbf : List Entry} {p : Nat × Nat}
    (hp : p ∈ new) : hasKTH (insertPending now h tbf new) p.1 p.2 h = true := by
  induction new generalizing tbf with
  | nil => cases hp
  | cons q qs ih =>
    rw [insertPending_cons]
    rcases List.mem_cons.1 hp with rfl | hp
    · rw [hasKTH_true_iff]
      by_cases hh : hasKTH tbf p.1 p.2 h = true
      · obtain ⟨e, he, hk⟩ := (hasKTH_true_iff _ _ _ _).1 hh
        rw [if_pos hh]
        exact ⟨e, insertPending_mono he, hk⟩
      · rw [if_neg hh]
        exact ⟨⟨p.1, p.2, h, now + pendingTimeout⟩,
          insertPending_mono (List.mem_append_right _ (List.mem_singleton.2 rfl)), rfl, rfl, rfl⟩
    · exact ih hp
/-! ### liveness: a queued version stays queued until it is scheduled, under explicit fairness -/

theorem addKeys_shape_legal (s : State) (h : Nat) (incoming locals : List (Nat × Nat)) (choice : List Entry) :
    ∃ X ill, addKeys dist s h incoming locals choice =
      ((nextKeys dist (addCore dist s h incoming locals).1 X).1,
       { ret := (addCore dist s h incoming locals).2 ++ (nextKeys dist (addCore dist s h incoming locals).1 X).2.ret,
         failed := (nextKeys dist (addCore dist s h incoming locals).1 X).2.failed,
         illegal := ill }) ∧
      (ill = false → (nextKeys dist (addCore dist s h incoming locals).1 X).2.illegal = false) := by
  unfold addKeys addKeysFrom
  generalize addCore dist s h incoming locals = r
  obtain ⟨s1, fast⟩ := r
  cases fast with
  | nil => exact ⟨choice, (nextKeys dist s1 choice).2.illegal, rfl, id⟩
  | cons f fs =>
    cases choice with
    | nil => exact ⟨[], true, rfl, fun h => by cases h⟩
    | cons c rest =>
      simp only []
      split
      · exact ⟨rest, (nextKeys dist s1 rest).2.illegal, rfl, id⟩
      · exact ⟨[], true, rfl, fun h => by cases h⟩

/-- the operations that end in `next_keys_to_fetch` -/
def Op.schedules : Op → Bool
  | .add .. | .put .. | .early .. | .next .. => true
  | _ => false

/-- Fairness of one operation towards the version `(k, t)` queued for holder `h`: the choice witness is legal, the
holder is not reported as timed out, and the operation does not take the queued entry away by anything but
scheduling it (it is not reported held, not notified as put / completed, not past its pending deadline when the
queue is swept, not beyond a newly set farthest distance). -/
def Keeps (k t h : Nat) (s : State) (op : Op) : Prop :=
  (step dist s op).2.illegal = false ∧ h ∉ (step dist s op).2.failed ∧
  (match op with
   | .add _ _ locals _ => locals.lookup k ≠ some t ∧
       ∀ x ∈ s.tbf, x.key = k → x.ty = t → x.holder = h → s.now < x.deadline
   | .put k' t' _ => ¬(k = k' ∧ t = t')
   | .early k' t' _ => ¬(k = k' ∧ t = t')
   | .full (some k') => dist k ≤ dist k'
   | _ => True)

theorem nextKeys_keepsV {s : State} {c : List Entry} {k t h : Nat}
    (hq : hasKTH s.tbf k t h = true) (hresp : h ∉ (nextKeys dist s c).2.failed) :
    hasKTH (nextKeys dist s c).1.tbf k t h = true ∨ hasKT (nextKeys dist s c).2.ret k t = true := by
  obtain ⟨e, he, hk, ht, hh⟩ := (hasKTH_true_iff _ _ _ _).1 hq
  have hf := (nextKeys_fields dist s c).2.2.2
  have hep : e ∈ pTbf s := by
    simp only [pTbf, List.mem_filter, Bool.not_eq_true', List.contains_eq_mem, decide_eq_false_iff_not]
    refine ⟨he, ?_⟩
    rw [hh]; rw [hf] at hresp; exact hresp
  rcases nextKeys_keeps_or_schedules dist (c := c) hep with h1 | h1
  · exact Or.inl ((hasKTH_true_iff _ _ _ _).2 ⟨e, h1, hk, ht, hh⟩)
  · rw [hk, ht] at h1; exact Or.inr h1

theorem addCore_keeps {s : State} {h : Nat} {incoming locals : List (Nat × Nat)} {e : Entry}
    (he : e ∈ s.tbf) (hheld : locals.lookup e.key ≠ some e.ty) (halive : s.now < e.deadline) :
    e ∈ (addCore dist s h incoming locals).1.tbf := by
  have h2 : e ∈ tbf2 s locals := by
    simp only [tbf2, tbf1, List.mem_filter, Bool.not_eq_true', heldSame, beq_eq_false_iff_ne, ne_eq]
    exact ⟨⟨he, hheld⟩, (alive_iff _ _).2 halive⟩
  rcases addCore_cases dist s h incoming locals with ⟨p, _, _, hc⟩ | ⟨p, _, _, hc⟩ | ⟨_, hc⟩
  · rw [hc]; exact h2
  · rw [hc]; exact h2
  · rw [hc]; exact insertPending_mono h2

theorem hasKTH_filter {l : List Entry} {k t h : Nat} {p : Entry → Bool}
    (hq : hasKTH l k t h = true) (hp : ∀ e ∈ l, e.key = k → e.ty = t → e.holder = h → p e = true) :
    hasKTH (l.filter p) k t h = true := by
  obtain ⟨e, he, hk, ht, hh⟩ := (hasKTH_true_iff _ _ _ _).1 hq
  exact (hasKTH_true_iff _ _ _ _).2 ⟨e, List.mem_filter.2 ⟨he, hp e he hk ht hh⟩, hk, ht, hh⟩

/-- a fair operation keeps the version queued for its holder, or schedules it -/
theorem keeps_step {s : State} {op : Op} {k t h : Nat}
    (hq : hasKTH s.tbf k t h = true) (hk : Keeps dist k t h s op) :
    hasKTH (step dist s op).1.tbf k t h = true ∨ hasKT (step dist s op).2.ret k t = true := by
  obtain ⟨_, hresp, hop⟩ := hk
  cases op with
  | add h' inc loc c =>
    obtain ⟨X, ill, hx⟩ := addKeys_shape dist s h' inc loc c
    change h ∉ (addKeys dist s h' inc loc c).2.failed at hresp
    show hasKTH (addKeys dist s h' inc loc c).1.tbf k t h = true ∨
      hasKT (addKeys dist s h' inc loc c).2.ret k t = true
    rw [hx] at hresp ⊢
    obtain ⟨e, he, hek, het, heh⟩ := (hasKTH_true_iff _ _ _ _).1 hq
    have h1 : e ∈ (addCore dist s h' inc loc).1.tbf :=
      addCore_keeps dist he (by rw [hek, het]; exact hop.1) (hop.2 e he hek het heh)
    have hq1 : hasKTH (addCore dist s h' inc loc).1.tbf k t h = true :=
      (hasKTH_true_iff _ _ _ _).2 ⟨e, h1, hek, het, heh⟩
    rcases nextKeys_keepsV dist (c := X) hq1 hresp with h2 | h2
    · exact Or.inl h2
    · right
      show hasKT (_ ++ _) k t = true
      rw [hasKT_append, h2, Bool.or_true]
  | put k' t' c =>
    apply nextKeys_keepsV dist _ hresp
    apply hasKTH_filter hq
    intro e _ hek het _
    simp only [sameKT, Bool.not_eq_true', Bool.and_eq_false_imp, beq_iff_eq, beq_eq_false_iff_ne]
    intro h1 h2; exact hop ⟨by rw [← hek, h1], by rw [← het, h2]⟩
  | early k' t' c =>
    apply nextKeys_keepsV dist _ hresp
    apply hasKTH_filter hq
    intro e _ hek het _
    simp only [sameKT, Bool.not_eq_true', Bool.and_eq_false_imp, beq_iff_eq, beq_eq_false_iff_ne]
    intro h1 h2; exact hop ⟨by rw [← hek, h1], by rw [← het, h2]⟩
  | next c => exact nextKeys_keepsV dist hq hresp
  | setRange r => exact Or.inl hq
  | age d => exact Or.inl hq
  | full k' =>
    cases k' with
    | none => exact Or.inl hq
    | some k' =>
      left
      show hasKTH (setFull dist s (dist k')).tbf k t h = true
      have hkeep : hasKTH (s.tbf.filter (fun e => farthestKeep (dist e.key) (dist k'))) k t h = true := by
        apply hasKTH_filter hq
        intro e _ hek _ _
        rw [hek]; exact (keep_iff _ _).2 hop
      unfold setFull
      split
      · split
        · exact hq
        · exact hkeep
      · exact hkeep

/-- fairness along a trace, required only until the version has been scheduled -/
def FairTrace (k t h : Nat) : State → List Op → Prop
  | _, [] => True
  | s, op :: ops => Keeps dist k t h s op ∧
      (hasKT (step dist s op).2.ret k t = true ∨ FairTrace k t h (step dist s op).1 ops)

theorem run_cons (s : State) (op : Op) (ops : List Op) :
    run dist s (op :: ops) = run dist (step dist s op).1 ops := rfl

theorem run_append (s : State) (a b : List Op) : run dist s (a ++ b) = run dist (run dist s a) b := by
  simp [run, List.foldl_append]

theorem outs_append (s : State) (a b : List Op) :
    outs dist s (a ++ b) = outs dist s a ++ outs dist (run dist s a) b := by
  induction a generalizing s with
  | nil => rfl
  | cons op ops ih => simp only [List.cons_append, outs, run_cons, ih]

/-- along a fair trace the version is still queued for its holder at the end, or some call returned it -/
theorem fair_trace {s : State} {ops : List Op} {k t h : Nat}
    (hq : hasKTH s.tbf k t h = true) (hf : FairTrace dist k t h s ops) :
    hasKTH (run dist s ops).tbf k t h = true ∨ ∃ o ∈ outs dist s ops, hasKT o.ret k t = true := by
  induction ops generalizing s with
  | nil => exact Or.inl hq
  | cons op ops ih =>
    obtain ⟨hk, hrest⟩ := hf
    rcases keeps_step dist hq hk with h1 | h1
    · rcases hrest with h2 | h2
      · exact Or.inr ⟨_, List.mem_cons_self, h2⟩
      · rcases ih h1 h2 with h3 | ⟨o, ho, h3⟩
        · exact Or.inl h3
        · exact Or.inr ⟨o, List.mem_cons_of_mem _ ho, h3⟩
    · exact Or.inr ⟨_, List.mem_cons_self, h1⟩

/-- after a scheduling operation with a legal choice, an entry whose version is not in flight is queued only
because the limit is reached -/
theorem step_closest {s : State} {op : Op} (hs : op.schedules = true)
    (hok : (step dist s op).2.illegal = false) :
    ∀ e ∈ (step dist s op).1.tbf, hasKT (step dist s op).1.ogf e.key e.ty = false →
      maxParallelFetch ≤ (step dist s op).1.ogf.length := by
  cases op with
  | add h inc loc c =>
    obtain ⟨X, ill, hx, hill⟩ := addKeys_shape_legal dist s h inc loc c
    change (addKeys dist s h inc loc c).2.illegal = false at hok
    show ∀ e ∈ (addKeys dist s h inc loc c).1.tbf, hasKT (addKeys dist s h inc loc c).1.ogf e.key e.ty = false →
      maxParallelFetch ≤ (addKeys dist s h inc loc c).1.ogf.length
    rw [hx] at hok ⊢
    intro e he hno
    exact ((nextKeys_closest dist (hill hok)).2 e he hno).1
  | put k t c => intro e he hno; exact ((nextKeys_closest dist hok).2 e he hno).1
  | early k t c => intro e he hno; exact ((nextKeys_closest dist hok).2 e he hno).1
  | next c => intro e he hno; exact ((nextKeys_closest dist hok).2 e he hno).1
  | setRange r => cases hs
  | age d => cases hs
  | full k => cases hs

theorem maxParallelFetch_pos : 0 < maxParallelFetch := by decide

/-- A fair trace that ends, after a scheduling call with a legal choice, with nothing in flight (every scheduled
fetch has been acknowledged) has scheduled the version. -/
theorem progress_trace {s : State} {pre : List Op} {op : Op} {k t h : Nat}
    (hq : hasKTH s.tbf k t h = true) (hf : FairTrace dist k t h s (pre ++ [op]))
    (hs : op.schedules = true) (hok : (step dist (run dist s pre) op).2.illegal = false)
    (hacked : (run dist s (pre ++ [op])).ogf = []) :
    ∃ o ∈ outs dist s (pre ++ [op]), hasKT o.ret k t = true := by
  rcases fair_trace dist hq hf with h1 | h1
  · exfalso
    obtain ⟨e, he, _, _, _⟩ := (hasKTH_true_iff _ _ _ _).1 h1
    rw [run_append] at he hacked
    have := step_closest dist hs hok e he (by
      show hasKT (run dist (run dist s pre) [op]).ogf e.key e.ty = false
      rw [hacked]; rfl)
    have h0 : (step dist (run dist s pre) op).1.ogf = [] := hacked
    rw [h0] at this
    exact absurd this (by decide)
  · exact h1
end SafeNet.Fetcher
