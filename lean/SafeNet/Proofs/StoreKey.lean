import SafeNet.Proofs.Store
/-!
The per-key in-flight invariant behind `settled_readback` (C01).

`Want` is the ghost "last store-changing event" per key: `some (v, rt, i)` after an accepted
`put_verified k v rt` whose write task got id `i`, `none` after a removal (explicit, eviction, clean-up)
or when the key was never stored.  `KeyInv s w` relates the state to it: for a key with
`w k = some (v, rt, i)` the write `i` is still pending, or has run and its notification `i` is pending
(file = `v`, no delete pending), or everything is done (file = `v`, listed with `rt`); for a key with
`w k = none` nothing is in flight, it is not listed, not cached, and a file left over has a pending delete.
It is preserved by every step that removes no key while a write / notification of that key is in flight.
-/
namespace SafeNet.Store

abbrev Want := Nat → Option (Nat × RType × Nat)

def wSet (w : Want) (k : Nat) (x : Option (Nat × RType × Nat)) : Want := fun k' => if k' = k then x else w k'

@[simp] theorem wSet_self (w : Want) (k : Nat) (x) : wSet w k x k = x := by simp [wSet]
theorem wSet_ne (w : Want) {k k' : Nat} (x) (h : k' ≠ k) : wSet w k x k' = w k' := by simp [wSet, h]

def hasWrite (s : St) (k : Nat) : Prop := ∃ i v rt, (i, Task.write k v rt) ∈ s.tasks
def hasNote (s : St) (k : Nat) : Prop := ∃ i rt, (i, (⟨k, rt⟩ : Note)) ∈ s.notes
def hasDelete (s : St) (k : Nat) : Prop := ∃ j, (j, Task.delete k) ∈ s.tasks
/-- a write or a notification of `k` is in flight -/
def inFlightKey (s : St) (k : Nat) : Prop := hasWrite s k ∨ hasNote s k

def Stage (s : St) (k v : Nat) (rt : RType) (i : Nat) : Prop :=
  (i, Task.write k v rt) ∈ s.tasks
  ∨ ((i, (⟨k, rt⟩ : Note)) ∈ s.notes ∧ ¬ hasWrite s k ∧ lookup k s.disk = some (.full v) ∧ ¬ hasDelete s k)
  ∨ (¬ hasWrite s k ∧ ¬ hasNote s k ∧ lookup k s.disk = some (.full v) ∧ lookup k s.index = some rt ∧ ¬ hasDelete s k)

structure KeyInv (s : St) (w : Want) : Prop where
  tsorted : (s.tasks.map (·.1)).Pairwise (· < ·)
  tlt : ∀ e ∈ s.tasks, e.1 < s.nextId
  nlt : ∀ e ∈ s.notes, e.1 < s.nextId
  nnodup : (s.notes.map (·.1)).Nodup
  disj : ∀ e ∈ s.tasks, ∀ n ∈ s.notes, e.1 ≠ n.1
  nsorted : s.notes.Pairwise (fun a b => a.2.k = b.2.k → a.1 < b.1)
  nbefore : ∀ j k rt, (j, (⟨k, rt⟩ : Note)) ∈ s.notes → ∀ i v rt', (i, Task.write k v rt') ∈ s.tasks → j < i
  delBefore : ∀ j k, (j, Task.delete k) ∈ s.tasks → ∀ i v rt, (i, Task.write k v rt) ∈ s.tasks → j < i
  absent : ∀ k, w k = none →
    ¬ inFlightKey s k ∧ lookup k s.index = none ∧ (∀ e ∈ s.cache, e.1 ≠ k) ∧ (lookup k s.disk ≠ none → hasDelete s k)
  present : ∀ k v rt i, w k = some (v, rt, i) →
    (∀ e ∈ s.cache, e.1 = k → e.2.1 = v) ∧
    (∀ j v' rt', (j, Task.write k v' rt') ∈ s.tasks → j ≤ i) ∧
    (∀ j rt', (j, (⟨k, rt'⟩ : Note)) ∈ s.notes → j ≤ i) ∧
    Stage s k v rt i

theorem not_of_iff {a b : Prop} (h : a ↔ b) (hb : ¬ b) : ¬ a := fun ha => hb (h.mp ha)

/-! ## list facts -/

theorem pairwise_lt_unique {α : Type} {l : List (Nat × α)} (h : (l.map (·.1)).Pairwise (· < ·)) {i : Nat} {a b : α}
    (ha : (i, a) ∈ l) (hb : (i, b) ∈ l) : a = b := by
  induction l with
  | nil => cases ha
  | cons x xs ih =>
    simp only [List.map_cons, List.pairwise_cons] at h
    rcases List.mem_cons.mp ha with ha | ha <;> rcases List.mem_cons.mp hb with hb | hb
    · rw [← ha] at hb; exact (Prod.mk.inj hb).2.symm ▸ rfl
    · have := h.1 i (List.mem_map.mpr ⟨_, hb, rfl⟩)
      rw [← ha] at this; simp at this
    · have := h.1 i (List.mem_map.mpr ⟨_, ha, rfl⟩)
      rw [← hb] at this; simp at this
    · exact ih h.2 ha hb

theorem nodup_unique {α : Type} {l : List (Nat × α)} (h : (l.map (·.1)).Nodup) {i : Nat} {a b : α}
    (ha : (i, a) ∈ l) (hb : (i, b) ∈ l) : a = b := by
  induction l with
  | nil => cases ha
  | cons x xs ih =>
    simp only [List.map_cons, List.nodup_cons] at h
    rcases List.mem_cons.mp ha with ha | ha <;> rcases List.mem_cons.mp hb with hb | hb
    · rw [← ha] at hb; exact (Prod.mk.inj hb).2.symm ▸ rfl
    · exfalso; apply h.1; rw [← ha]; exact List.mem_map.mpr ⟨_, hb, rfl⟩
    · exfalso; apply h.1; rw [← hb]; exact List.mem_map.mpr ⟨_, ha, rfl⟩
    · exact ih h.2 ha hb

/-- a legal task is the oldest (smallest id) pending task of its key -/
theorem firstTaskOf_min {k id : Nat} {l : List (Nat × Task)} (hs : (l.map (·.1)).Pairwise (· < ·))
    (h : firstTaskOf k l = some id) : ∀ j t, (j, t) ∈ l → taskKey t = some k → id ≤ j := by
  induction l with
  | nil => simp [firstTaskOf] at h
  | cons x xs ih =>
    obtain ⟨i0, t0⟩ := x
    simp only [List.map_cons, List.pairwise_cons] at hs
    simp only [firstTaskOf] at h
    intro j t hm hk
    split at h
    · cases h
      rcases List.mem_cons.mp hm with hm | hm
      · cases hm; exact Nat.le_refl _
      · exact Nat.le_of_lt (hs.1 j (List.mem_map.mpr ⟨_, hm, rfl⟩))
    · rename_i hne
      rcases List.mem_cons.mp hm with hm | hm
      · cases hm; exact absurd hk hne
      · exact ih hs.2 h j t hm hk

/-- a legal notification is the oldest pending notification of its key -/
theorem firstNoteOf_min {k id : Nat} {l : List (Nat × Note)}
    (hs : l.Pairwise (fun a b => a.2.k = b.2.k → a.1 < b.1))
    (h : firstNoteOf k l = some id) : ∀ j n, (j, n) ∈ l → n.k = k → id ≤ j := by
  induction l with
  | nil => simp [firstNoteOf] at h
  | cons x xs ih =>
    obtain ⟨i0, n0⟩ := x
    simp only [List.pairwise_cons] at hs
    simp only [firstNoteOf] at h
    intro j n hm hk
    split at h
    · rename_i heq
      cases h
      rcases List.mem_cons.mp hm with hm | hm
      · cases hm; exact Nat.le_refl _
      · exact Nat.le_of_lt (hs.1 _ hm (by simp only; rw [heq, hk]))
    · rename_i hne
      rcases List.mem_cons.mp hm with hm | hm
      · cases hm; exact absurd hk hne
      · exact ih hs.2 h j n hm hk

theorem pairwise_erase {α : Type} {R : Nat × α → Nat × α → Prop} {l : List (Nat × α)} (h : l.Pairwise R) (id : Nat) :
    (erase id l).Pairwise R := h.sublist List.filter_sublist

theorem pairwise_map_erase {α : Type} {l : List (Nat × α)} (h : (l.map (·.1)).Pairwise (· < ·)) (id : Nat) :
    ((erase id l).map (·.1)).Pairwise (· < ·) := h.sublist ((List.filter_sublist).map _)

theorem nodup_map_erase {α : Type} {l : List (Nat × α)} (h : (l.map (·.1)).Nodup) (id : Nat) :
    ((erase id l).map (·.1)).Nodup := h.sublist ((List.filter_sublist).map _)

theorem pairwise_lt_append_fresh {l : List (Nat × Task)} {n : Nat} (t : Task) (h : (l.map (·.1)).Pairwise (· < ·))
    (hl : ∀ e ∈ l, e.1 < n) : ((l ++ [(n, t)]).map (·.1)).Pairwise (· < ·) := by
  rw [List.map_append, List.pairwise_append]
  refine ⟨h, by simp, ?_⟩
  intro a ha b hb
  simp only [List.map_cons, List.map_nil, List.mem_singleton] at hb
  obtain ⟨e, he, rfl⟩ := List.mem_map.mp ha
  rw [hb]; exact hl e he

/-! ## the primitive transitions -/

variable {s : St} {w : Want}

theorem inFlightKey_removeKey (dist : Nat → Nat) (s : St) (f k : Nat) :
    inFlightKey (removeKey dist s f) k ↔ inFlightKey s k := by
  simp [inFlightKey, hasWrite, hasNote, removeKey]

/-- `RecordStore::remove` of a key with nothing in flight -/
theorem KeyInv.removeKey (dist : Nat → Nat) (h : KeyInv s w) (f : Nat) (hnf : ¬ inFlightKey s f) :
    KeyInv (removeKey dist s f) (wSet w f none) := by
  have hnw : ∀ i v rt, (i, Task.write f v rt) ∉ s.tasks := fun i v rt hm => hnf (.inl ⟨i, v, rt, hm⟩)
  have hmem : ∀ e, e ∈ (SafeNet.Store.removeKey dist s f).tasks ↔ e ∈ s.tasks ∨ e = (s.nextId, Task.delete f) := by
    intro e; simp [SafeNet.Store.removeKey]
  have hw : ∀ k, hasWrite (SafeNet.Store.removeKey dist s f) k ↔ hasWrite s k := by
    intro k; simp [hasWrite, SafeNet.Store.removeKey]
  have hn : ∀ k, hasNote (SafeNet.Store.removeKey dist s f) k ↔ hasNote s k := by
    intro k; simp [hasNote, SafeNet.Store.removeKey]
  have hd : ∀ k, k ≠ f → (hasDelete (SafeNet.Store.removeKey dist s f) k ↔ hasDelete s k) := by
    intro k hk
    simp only [hasDelete, hmem, Prod.mk.injEq, Task.delete.injEq]
    constructor
    · rintro ⟨j, hj | ⟨_, hj⟩⟩
      · exact ⟨j, hj⟩
      · exact absurd hj hk
    · rintro ⟨j, hj⟩; exact ⟨j, .inl hj⟩
  refine ⟨?_, ?_, ?_, h.nnodup, ?_, h.nsorted, ?_, ?_, ?_, ?_⟩
  · exact pairwise_lt_append_fresh _ h.tsorted h.tlt
  · intro e he
    rcases (hmem e).mp he with he | rfl
    · exact Nat.lt_succ_of_lt (h.tlt e he)
    · exact Nat.lt_succ_self _
  · intro e he; exact Nat.lt_succ_of_lt (h.nlt e he)
  · intro e he n hnn
    rcases (hmem e).mp he with he | rfl
    · exact h.disj e he n hnn
    · exact Nat.ne_of_gt (h.nlt n hnn)
  · intro j k rt hj i v rt' hi
    rcases (hmem _).mp hi with hi | hi
    · exact h.nbefore j k rt hj i v rt' hi
    · cases hi
  · intro j k hj i v rt hi
    rcases (hmem _).mp hi with hi | hi
    · rcases (hmem _).mp hj with hj | hj
      · exact h.delBefore j k hj i v rt hi
      · cases hj; exact absurd hi (hnw i v rt)
    · cases hi
  · intro k hk
    by_cases hkf : k = f
    · subst hkf
      refine ⟨not_of_iff (inFlightKey_removeKey dist s k k) hnf, lookup_erase_self _ _, ?_, ?_⟩
      · intro e he; exact (mem_erase.mp he).2
      · intro _; exact ⟨s.nextId, (hmem _).mpr (.inr rfl)⟩
    · rw [wSet_ne _ _ hkf] at hk
      obtain ⟨h1, h2, h3, h4⟩ := h.absent k hk
      refine ⟨not_of_iff (inFlightKey_removeKey dist s f k) h1, ?_, ?_, ?_⟩
      · show lookup k (erase f s.index) = none
        rw [lookup_erase_ne hkf]; exact h2
      · intro e he; exact h3 e (mem_erase.mp he).1
      · intro hdk; exact (hd k hkf).mpr (h4 hdk)
  · intro k v rt i hk
    by_cases hkf : k = f
    · subst hkf; simp at hk
    · rw [wSet_ne _ _ hkf] at hk
      obtain ⟨h1, h2, h3, h4⟩ := h.present k v rt i hk
      refine ⟨?_, ?_, h3, ?_⟩
      · intro e he; exact h1 e (mem_erase.mp he).1
      · intro j v' rt' hj
        rcases (hmem _).mp hj with hj | hj
        · exact h2 j v' rt' hj
        · cases hj
      · rcases h4 with h4 | ⟨a, b, c, d⟩ | ⟨a, b, c, d, e⟩
        · exact .inl ((hmem _).mpr (.inl h4))
        · exact .inr (.inl ⟨a, not_of_iff (hw k) b, c, not_of_iff (hd k hkf) d⟩)
        · refine .inr (.inr ⟨not_of_iff (hw k) a, not_of_iff (hn k) b, c, ?_, not_of_iff (hd k hkf) e⟩)
          show lookup k (erase f s.index) = some rt
          rw [lookup_erase_ne hkf]; exact d

/-- an accepted put: new cache content (entries of `k` carry `v`, others were there before), one write appended -/
theorem KeyInv.accept (h : KeyInv s w) (k v : Nat) (rt : RType) (c : List (Nat × Nat × Nat)) (clk : Nat)
    (hc : ∀ e ∈ c, (e.1 = k ∧ e.2.1 = v) ∨ (e ∈ s.cache ∧ e.1 ≠ k)) :
    KeyInv { s with cache := c, clock := clk, tasks := s.tasks ++ [(s.nextId, .write k v rt)], nextId := s.nextId + 1 }
      (wSet w k (some (v, rt, s.nextId))) := by
  have hmem : ∀ e, e ∈ s.tasks ++ [(s.nextId, Task.write k v rt)] ↔ e ∈ s.tasks ∨ e = (s.nextId, Task.write k v rt) := by
    intro e; simp
  refine ⟨?_, ?_, ?_, h.nnodup, ?_, h.nsorted, ?_, ?_, ?_, ?_⟩
  · exact pairwise_lt_append_fresh _ h.tsorted h.tlt
  · intro e he
    rcases (hmem e).mp he with he | rfl
    · exact Nat.lt_succ_of_lt (h.tlt e he)
    · exact Nat.lt_succ_self _
  · intro e he; exact Nat.lt_succ_of_lt (h.nlt e he)
  · intro e he n hnn
    rcases (hmem e).mp he with he | rfl
    · exact h.disj e he n hnn
    · exact Nat.ne_of_gt (h.nlt n hnn)
  · intro j k' rt' hj i v' rt'' hi
    rcases (hmem _).mp hi with hi | hi
    · exact h.nbefore j k' rt' hj i v' rt'' hi
    · cases hi; exact h.nlt _ hj
  · intro j k' hj i v' rt' hi
    rcases (hmem _).mp hj with hj | hj
    · rcases (hmem _).mp hi with hi | hi
      · exact h.delBefore j k' hj i v' rt' hi
      · cases hi; exact h.tlt _ hj
    · cases hj
  · intro k' hk'
    by_cases hkk : k' = k
    · subst hkk; simp at hk'
    · rw [wSet_ne _ _ hkk] at hk'
      obtain ⟨h1, h2, h3, h4⟩ := h.absent k' hk'
      refine ⟨?_, h2, ?_, ?_⟩
      · rintro (⟨i, v', rt', hm⟩ | ⟨i, rt', hm⟩)
        · rcases (hmem _).mp hm with hm | hm
          · exact h1 (.inl ⟨i, v', rt', hm⟩)
          · cases hm; exact hkk rfl
        · exact h1 (.inr ⟨i, rt', hm⟩)
      · intro e he
        rcases hc e he with ⟨he1, _⟩ | ⟨he1, _⟩
        · rw [he1]; exact fun e' => hkk e'.symm
        · exact h3 e he1
      · intro hd
        obtain ⟨j, hj⟩ := h4 hd
        exact ⟨j, (hmem _).mpr (.inl hj)⟩
  · intro k' v' rt' i hk'
    by_cases hkk : k' = k
    · subst hkk
      simp only [wSet_self, Option.some.injEq, Prod.mk.injEq] at hk'
      obtain ⟨rfl, rfl, rfl⟩ := hk'
      refine ⟨?_, ?_, ?_, .inl ((hmem _).mpr (.inr rfl))⟩
      · intro e he hek
        rcases hc e he with ⟨_, he2⟩ | ⟨_, he2⟩
        · exact he2
        · exact absurd hek he2
      · intro j v'' rt'' hj
        rcases (hmem _).mp hj with hj | hj
        · exact Nat.le_of_lt (h.tlt _ hj)
        · cases hj; exact Nat.le_refl _
      · intro j rt'' hj; exact Nat.le_of_lt (h.nlt _ hj)
    · rw [wSet_ne _ _ hkk] at hk'
      obtain ⟨h1, h2, h3, h4⟩ := h.present k' v' rt' i hk'
      have hw' : ¬ hasWrite s k' → ¬ hasWrite { s with cache := c, clock := clk, tasks := s.tasks ++ [(s.nextId, .write k v rt)], nextId := s.nextId + 1 } k' := by
        intro hnw ⟨j, v'', rt'', hm⟩
        rcases (hmem _).mp hm with hm | hm
        · exact hnw ⟨j, v'', rt'', hm⟩
        · cases hm; exact hkk rfl
      have hd' : ¬ hasDelete s k' → ¬ hasDelete { s with cache := c, clock := clk, tasks := s.tasks ++ [(s.nextId, .write k v rt)], nextId := s.nextId + 1 } k' := by
        intro hnd ⟨j, hm⟩
        rcases (hmem _).mp hm with hm | hm
        · exact hnd ⟨j, hm⟩
        · cases hm
      refine ⟨?_, ?_, h3, ?_⟩
      · intro e he hek
        rcases hc e he with ⟨he1, _⟩ | ⟨he1, _⟩
        · rw [he1] at hek; exact absurd hek.symm hkk
        · exact h1 e he1 hek
      · intro j v'' rt'' hj
        rcases (hmem _).mp hj with hj | hj
        · exact h2 j v'' rt'' hj
        · cases hj; exact absurd rfl hkk
      · rcases h4 with h4 | ⟨a, b, c', d⟩ | ⟨a, b, c', d, e⟩
        · exact .inl ((hmem _).mpr (.inl h4))
        · exact .inr (.inl ⟨a, hw' b, c', hd' d⟩)
        · exact .inr (.inr ⟨hw' a, b, c', d, hd' e⟩)

/-- only the cache changes, and every new entry repeats the value of an old entry of the same key -/
theorem KeyInv.cacheOnly (h : KeyInv s w) (c : List (Nat × Nat × Nat)) (clk : Nat)
    (hc : ∀ e ∈ c, ∃ e' ∈ s.cache, e'.1 = e.1 ∧ e'.2.1 = e.2.1) :
    KeyInv { s with cache := c, clock := clk } w := by
  refine ⟨h.tsorted, h.tlt, h.nlt, h.nnodup, h.disj, h.nsorted, h.nbefore, h.delBefore, ?_, ?_⟩
  · intro k hk
    obtain ⟨h1, h2, h3, h4⟩ := h.absent k hk
    refine ⟨h1, h2, ?_, h4⟩
    intro e he
    obtain ⟨e', he', hk', _⟩ := hc e he
    rw [← hk']; exact h3 e' he'
  · intro k v rt i hk
    obtain ⟨h1, h2, h3, h4⟩ := h.present k v rt i hk
    refine ⟨?_, h2, h3, h4⟩
    intro e he hek
    obtain ⟨e', he', hk', hv'⟩ := hc e he
    rw [← hv']; exact h1 e' he' (hk'.trans hek)

end SafeNet.Store
