import SafeNet.Model.ParsersR6
/-! Helper lemmas for the C17 audit round 6 models (`SafeNet.Model.ParsersR6`). -/
namespace SafeNet.Parsers
open SafeNet.Panic SafeNet.Gen.Parsers

/-- with at least three hashes and an index in range, none of the three index expressions of
`get_pad_key_and_iv` nor the subtractions of `get_n_1_n_2` can fail -/
theorem sePadKeyIv_ok {total i : Nat} (h3 : 3 ≤ total) (hi : i < total) : sePadKeyIv total i = .ok () := by
  unfold sePadKeyIv seN1N2
  match i, hi with
  | 0, _ =>
    have h1 : (1 ≤ total) = True := by simp; omega
    have h2 : (2 ≤ total) = True := by simp; omega
    simp only [usub, h1, h2, ↓reduceIte]
    have : (0 < total && total - 1 < total && total - 2 < total) = true := by simp; omega
    simp [this]
  | 1, _ =>
    have h1 : (1 ≤ total) = True := by simp; omega
    simp only [usub, h1, ↓reduceIte]
    have : (1 < total && 0 < total && total - 1 < total) = true := by simp; omega
    simp [this]
  | n + 2, hn =>
    have : (n + 2 < total && n + 1 < total && n < total) = true := by simp; omega
    simp [this]

theorem seDecryptSitesGo_ok {total : Nat} (h3 : 3 ≤ total) :
    ∀ l : List Nat, (∀ i ∈ l, i < total) → seDecryptSitesGo total l = .ok () := by
  intro l
  induction l with
  | nil => intro _; rfl
  | cons i rest ih =>
    intro h
    simp only [seDecryptSitesGo, sePadKeyIv_ok h3 (h i (by simp))]
    exact ih fun j hj => h j (by simp [hj])

/-- the loop of `add_node` hands out `n, n+1, …, target` and its last `+= 1` stays in range when `target + 1` does -/
theorem numberLoop_ok (w : Nat) :
    ∀ (fuel n target : Nat), target + 1 < 2 ^ w → target + 1 - n ≤ fuel →
      numberLoop w fuel n target = .ok (List.range' n (target + 1 - n)) := by
  intro fuel
  induction fuel with
  | zero =>
    intro n target _ hf
    have : target + 1 - n = 0 := by omega
    simp [numberLoop, this]
  | succ fuel ih =>
    intro n target ht hf
    unfold numberLoop
    by_cases hn : n ≤ target
    · have hadd : uadd w n 1 = .ok (n + 1) := by
        have : n + 1 < 2 ^ w := by omega
        simp [uadd, this]
      have hrec := ih (n + 1) target ht (by omega)
      have hlen : target + 1 - n = (target + 1 - (n + 1)) + 1 := by omega
      simp only [hn, ↓reduceIte, hadd, hrec]
      rw [hlen, List.range'_succ]
    · have : target + 1 - n = 0 := by omega
      simp [hn, this]

theorem findIdx?_lt {α : Type} (p : α → Bool) : ∀ (l : List α) (i : Nat), l.findIdx? p = some i → i < l.length := by
  intro l
  induction l with
  | nil => intro i h; simp at h
  | cons x xs ih =>
    intro i h
    rw [List.findIdx?_cons] at h
    split at h
    · cases h; simp
    · cases hx : xs.findIdx? p with
      | none => simp [hx] at h
      | some j =>
        simp [hx] at h
        have := ih j hx
        simp only [List.length_cons]
        omega

/-- every index `get_services_for_ops` returns is a position in the list it searched -/
theorem servicesForOps_lt {α : Type} (nodes : List α) (skip : Bool) :
    ∀ (preds : List (α → Bool)) (idxs : List Nat), servicesForOps nodes skip preds = some idxs →
      upgradeIndexSites nodes.length idxs = .ok () := by
  intro preds
  induction preds with
  | nil => intro idxs h; cases h; rfl
  | cons p rest ih =>
    intro idxs h
    unfold servicesForOps at h
    cases hr : servicesForOps nodes skip rest with
    | none => simp [hr] at h
    | some is =>
      cases hp : nodes.findIdx? p with
      | some i =>
        simp [hr, hp] at h
        cases h
        simp [upgradeIndexSites, findIdx?_lt p nodes i hp, ih is hr]
      | none =>
        simp [hr, hp] at h
        obtain ⟨_, rfl⟩ := h
        exact ih _ hr

end SafeNet.Parsers
