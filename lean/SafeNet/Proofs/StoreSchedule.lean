import SafeNet.Proofs.StoreHistory
/-!
Below capacity the last store-changing events depend only on the sequence of store operations
(`put`, `remove`, `setRange`, `cleanup`, `payment`), not on when tasks complete or notifications are handled:
the cache, the logical clock, the task-id counter and the ghost `Want` evolve as a function of that sequence.
-/
namespace SafeNet.Store

/-- completions and deliveries are the schedule; everything else is a store operation -/
def isStoreOp : Op → Bool
  | .run _ => false
  | .deliver _ => false
  | _ => true

def storeOps (ops : List Op) : List Op := ops.filter isStoreOp

structure Front where
  cache : List (Nat × Nat × Nat)
  clock : Nat
  nextId : Nat
  want : Want

def frontOf (s : St) (w : Want) : Front := ⟨s.cache, s.clock, s.nextId, w⟩

def frontStep (cfg : Cfg) (f : Front) : Op → Front
  | .put k v rt =>
    let c := pushBack cfg.cacheSize (erase k f.cache) f.clock k v
    if (lookup k f.cache).map (·.1) = some v then { f with cache := c, clock := f.clock + 1 }
    else ⟨c, f.clock + 1, f.nextId + 1, wSet f.want k (some (v, rt, f.nextId))⟩
  | .remove k => ⟨erase k f.cache, f.clock, f.nextId + 1, wSet f.want k none⟩
  | .payment => { f with nextId := f.nextId + 1 }
  | _ => f

/-- **BelowCapacity**: every put finds fewer than `max_records` listed, every clean-up finds fewer records than
its threshold or no range set (so neither evicts), and the node does not stop. -/
def BelowCapacity (cfg : Cfg) (dist : Nat → Nat) : St → List Op → Prop
  | _, [] => True
  | s, op :: ops =>
    (match op with
      | .put _ _ _ => s.index.length < cfg.maxRecords
      | .cleanup => s.index.length < cfg.cleanupMin ∨ s.range = none
      | .crash _ => False
      | _ => True) ∧ BelowCapacity cfg dist (step cfg dist s op).1 ops

theorem front_step (cfg : Cfg) (dist : Nat → Nat) (s : St) (w : Want) (op : Op)
    (hb : match op with
      | .put _ _ _ => s.index.length < cfg.maxRecords
      | .cleanup => s.index.length < cfg.cleanupMin ∨ s.range = none
      | .crash _ => False
      | _ => True) :
    frontOf (step cfg dist s op).1 (wantStep cfg dist s w op) =
      if isStoreOp op then frontStep cfg (frontOf s w) op else frontOf s w := by
  cases op with
  | put k v rt =>
    simp only at hb
    simp only [isStoreOp, ↓reduceIte, frontStep, frontOf, wantStep, spawns, step]
    by_cases hit : (lookup k s.cache).map (·.1) = some v
    · have hr : putVerified cfg dist s k v rt =
          ({ s with cache := pushBack cfg.cacheSize (erase k s.cache) s.clock k v, clock := s.clock + 1 }, .dedup) := by
        simp only [putVerified, hit, ↓reduceIte]
      rw [hr]
      simp [newTasks, hit]
    · have hr : putVerified cfg dist s k v rt =
          ({ s with cache := pushBack cfg.cacheSize (erase k s.cache) s.clock k v, clock := s.clock + 1,
                    tasks := s.tasks ++ [(s.nextId, .write k v rt)], nextId := s.nextId + 1 }, .ok) := by
        simp only [putVerified, hit, ↓reduceIte, prune, hb]
      rw [hr]
      rw [newTasks_append s _ [(s.nextId, Task.write k v rt)] rfl]
      simp [applyTask, hit]
  | remove k =>
    have hnt : newTasks s (step cfg dist s (.remove k)).1 = [(s.nextId, Task.delete k)] := by
      apply newTasks_append; simp [step, removeKey]
    simp only [isStoreOp, ↓reduceIte, frontStep, frontOf, wantStep, spawns, hnt]
    simp [step, removeKey, applyTask]
  | run id =>
    simp only [isStoreOp, Bool.false_eq_true, ↓reduceIte, frontOf, wantStep, spawns, step, runTask]
    split
    · rfl
    · split
      · split <;> rfl
      · rfl
  | deliver id =>
    simp only [isStoreOp, Bool.false_eq_true, ↓reduceIte, frontOf, wantStep, spawns, step, deliver]
    split
    · rfl
    · split <;> rfl
  | setRange r => simp [isStoreOp, frontStep, frontOf, wantStep, spawns, step]
  | cleanup =>
    simp only at hb
    have hc : cleanup cfg dist s = s := by
      unfold cleanup
      rcases hb with hb | hb
      · simp [hb]
      · split
        · rfl
        · simp [hb]
    simp only [isStoreOp, ↓reduceIte, frontStep, frontOf, wantStep, spawns, step, hc]
    simp [newTasks]
  | payment =>
    have hnt : newTasks s (step cfg dist s .payment).1 = [] := by
      simp [newTasks, step, payment_eq, paymentSync]
    simp only [isStoreOp, ↓reduceIte, frontStep, frontOf, wantStep, spawns, hnt]
    simp [step, payment_eq, paymentSync]
  | crash t => exact absurd hb (by simp)

theorem front_run (cfg : Cfg) (dist : Nat → Nat) (ops : List Op) (s : St) (w : Want)
    (hb : BelowCapacity cfg dist s ops) :
    frontOf (runFrom cfg dist s ops) (wantFrom cfg dist s w ops) =
      (storeOps ops).foldl (frontStep cfg) (frontOf s w) := by
  induction ops generalizing s w with
  | nil => rfl
  | cons op ops ih =>
    obtain ⟨h1, h2⟩ := hb
    simp only [runFrom, wantFrom]
    rw [ih _ _ h2, front_step cfg dist s w op h1]
    simp only [storeOps, List.filter_cons]
    cases isStoreOp op <;> simp

/-- below capacity, histories with the same store operations have the same last events -/
theorem lastEvent_schedule_independent (cfg : Cfg) (dist : Nat → Nat) (ops1 ops2 : List Op)
    (hsame : storeOps ops1 = storeOps ops2)
    (hb1 : BelowCapacity cfg dist (init cfg dist) ops1) (hb2 : BelowCapacity cfg dist (init cfg dist) ops2) :
    lastEvent cfg dist ops1 = lastEvent cfg dist ops2 := by
  have h1 := front_run cfg dist ops1 (init cfg dist) (fun _ => none) hb1
  have h2 := front_run cfg dist ops2 (init cfg dist) (fun _ => none) hb2
  rw [hsame] at h1
  have := h1.trans h2.symm
  simp only [frontOf, Front.mk.injEq] at this
  exact this.2.2.2

end SafeNet.Store
