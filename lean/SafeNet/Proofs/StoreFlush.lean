import SafeNet.Proofs.StoreHistory
/-!
The persisted payment counter: when the metrics-flush tasks complete in the order they were spawned
(`FlushFifo`), the file holds the current count as soon as no flush is pending — in every reachable state.
-/
namespace SafeNet.Store

/-- pending flush tasks as (id, count to persist), in spawn order -/
def flushVals (ts : List (Nat × Task)) : List (Nat × Nat) :=
  ts.filterMap (fun t => match t.2 with | .flush n => some (t.1, n) | _ => none)

theorem mem_flushVals {ts : List (Nat × Task)} {i n : Nat} : (i, n) ∈ flushVals ts ↔ (i, Task.flush n) ∈ ts := by
  simp only [flushVals, List.mem_filterMap]
  constructor
  · rintro ⟨⟨j, t⟩, hm, h⟩
    cases t <;> simp at h
    obtain ⟨rfl, rfl⟩ := h; exact hm
  · intro hm; exact ⟨_, hm, rfl⟩

theorem flushVals_append (a b : List (Nat × Task)) : flushVals (a ++ b) = flushVals a ++ flushVals b := by
  simp [flushVals, List.filterMap_append]

theorem flushVals_erase (id : Nat) (ts : List (Nat × Task)) :
    flushVals (erase id ts) = (flushVals ts).filter (fun e => e.1 != id) := by
  induction ts with
  | nil => rfl
  | cons x xs ih =>
    obtain ⟨j, t⟩ := x
    simp only [erase, List.filter_cons] at ih ⊢
    by_cases hj : j = id
    · subst hj
      simp only [bne_self_eq_false, Bool.false_eq_true, ↓reduceIte]
      rw [ih]
      cases t <;> simp [flushVals, List.filterMap_cons]
    · have : (j != id) = true := by simp [hj]
      simp only [this, ↓reduceIte]
      cases t <;> simp [flushVals, List.filterMap_cons, hj] <;> simpa [flushVals] using ih

theorem flushVals_ids_sublist (ts : List (Nat × Task)) : ((flushVals ts).map (·.1)).Sublist (ts.map (·.1)) := by
  induction ts with
  | nil => simp [flushVals]
  | cons y ys ih =>
    obtain ⟨a, b⟩ := y
    cases b with
    | write k v rt => simpa [flushVals, List.filterMap_cons] using ih.cons a
    | delete k => simpa [flushVals, List.filterMap_cons] using ih.cons a
    | flush n => simpa [flushVals, List.filterMap_cons] using ih.cons_cons a

structure FlushInv (s : St) : Prop where
  ids : (s.tasks.map (·.1)).Pairwise (· < ·)
  lt : ∀ e ∈ s.tasks, e.1 < s.nextId
  last : match (flushVals s.tasks).getLast? with
    | some (_, n) => n = s.payments
    | none => s.hist = some s.payments

/-- a step that appends tasks which are not flushes and leaves payments and the file alone -/
theorem FlushInv.appendOther {s s' : St} (h : FlushInv s) (l : List (Nat × Task))
    (ht : s'.tasks = s.tasks ++ l) (hl : flushVals l = [])
    (hids : (s'.tasks.map (·.1)).Pairwise (· < ·)) (hlt : ∀ e ∈ s'.tasks, e.1 < s'.nextId)
    (hp : s'.payments = s.payments) (hh : s'.hist = s.hist) : FlushInv s' := by
  refine ⟨hids, hlt, ?_⟩
  rw [ht, flushVals_append, hl, List.append_nil, hp, hh]
  exact h.last

theorem ids_append_delTasks {ts : List (Nat × Task)} {n : Nat} (h : (ts.map (·.1)).Pairwise (· < ·))
    (hl : ∀ e ∈ ts, e.1 < n) (ks : List Nat) :
    ((ts ++ delTasks n ks).map (·.1)).Pairwise (· < ·) ∧ ∀ e ∈ ts ++ delTasks n ks, e.1 < n + ks.length := by
  induction ks generalizing ts n with
  | nil => exact ⟨by simpa [delTasks] using h, by simpa [delTasks] using hl⟩
  | cons k ks ih =>
    have h1 := pairwise_lt_append_fresh (.delete k) h hl
    have h2 : ∀ e ∈ ts ++ [(n, Task.delete k)], e.1 < n + 1 := by
      intro e he
      rcases List.mem_append.mp he with he | he
      · exact Nat.lt_succ_of_lt (hl e he)
      · simp only [List.mem_singleton] at he; subst he; exact Nat.lt_succ_self _
    have := ih h1 h2
    simp only [delTasks, List.length_cons]
    have e : ts ++ (n, Task.delete k) :: delTasks (n + 1) ks = (ts ++ [(n, Task.delete k)]) ++ delTasks (n + 1) ks := by simp
    rw [e]
    refine ⟨this.1, fun x hx => ?_⟩
    have := this.2 x hx
    omega

theorem flushVals_delTasks (n : Nat) (ks : List Nat) : flushVals (delTasks n ks) = [] := by
  induction ks generalizing n with
  | nil => rfl
  | cons k ks ih => simp [delTasks, flushVals, List.filterMap_cons] ; simpa [flushVals] using ih (n + 1)

theorem foldl_removeKey_nextId (dist : Nat → Nat) (ks : List Nat) (s : St) :
    (ks.foldl (removeKey dist) s).nextId = s.nextId + ks.length ∧ (ks.foldl (removeKey dist) s).payments = s.payments ∧
      (ks.foldl (removeKey dist) s).hist = s.hist := by
  induction ks generalizing s with
  | nil => simp
  | cons k ks ih =>
    rw [List.foldl_cons]
    obtain ⟨a, b, c⟩ := ih (removeKey dist s k)
    refine ⟨?_, b, c⟩
    rw [a]; simp [removeKey]; omega

theorem FlushInv.removeKeys (dist : Nat → Nat) {s : St} (h : FlushInv s) (ks : List Nat) :
    FlushInv (ks.foldl (removeKey dist) s) := by
  obtain ⟨a, b, c⟩ := foldl_removeKey_nextId dist ks s
  have hi := ids_append_delTasks h.ids h.lt ks
  apply h.appendOther (delTasks s.nextId ks) (foldl_removeKey_tasks dist ks s) (flushVals_delTasks _ _)
  · rw [foldl_removeKey_tasks]; exact hi.1
  · rw [foldl_removeKey_tasks, a]; exact hi.2
  · exact b
  · exact c

/-- the flush task that runs is the oldest pending flush -/
def FlushFifoStep (s : St) (op : Op) : Prop :=
  ∀ id n, op = .run id → lookup id s.tasks = some (.flush n) → (flushVals s.tasks).head? = some (id, n)

theorem FlushInv.step (cfg : Cfg) (dist : Nat → Nat) {s : St} (h : FlushInv s) (op : Op)
    (hf : FlushFifoStep s op) : FlushInv (SafeNet.Store.step cfg dist s op).1 := by
  cases op with
  | put k v rt =>
    simp only [SafeNet.Store.step]
    rcases putVerified_shape cfg dist s k v rt with ⟨_, hr⟩ | hr | hr | ⟨f, hr⟩
    · rw [hr]; exact ⟨h.ids, h.lt, h.last⟩
    · rw [hr]; exact ⟨h.ids, h.lt, h.last⟩
    · rw [hr]
      have hi := ids_append_delTasks h.ids h.lt []
      apply h.appendOther [(s.nextId, .write k v rt)] rfl rfl
      · exact pairwise_lt_append_fresh _ h.ids h.lt
      · intro e he
        rcases List.mem_append.mp he with he | he
        · exact Nat.lt_succ_of_lt (h.lt e he)
        · simp only [List.mem_singleton] at he; subst he; exact Nat.lt_succ_self _
      · rfl
      · rfl
    · rw [hr]
      have h1 : FlushInv (removeKey dist s f) := h.removeKeys dist [f]
      apply h1.appendOther [((removeKey dist s f).nextId, .write k v rt)] rfl rfl
      · exact pairwise_lt_append_fresh _ h1.ids h1.lt
      · intro e he
        rcases List.mem_append.mp he with he | he
        · exact Nat.lt_succ_of_lt (h1.lt e he)
        · simp only [List.mem_singleton] at he; subst he; exact Nat.lt_succ_self _
      · rfl
      · rfl
  | remove k => exact h.removeKeys dist [k]
  | run id =>
    simp only [SafeNet.Store.step, runTask]
    split
    · exact h
    · rename_i t ht
      split
      · have hin := lookup_some_mem ht
        have hids := pairwise_map_erase h.ids id
        have hlt : ∀ e ∈ erase id s.tasks, e.1 < s.nextId := fun e he => h.lt e (mem_erase.mp he).1
        -- flushes other than the task that ran keep their place
        have hother : (∀ n', t ≠ .flush n') → flushVals (erase id s.tasks) = flushVals s.tasks := by
          intro hne
          rw [flushVals_erase, List.filter_eq_self]
          intro e he
          obtain ⟨j, m⟩ := e
          simp only [bne_iff_ne, ne_eq]
          intro (e' : j = id)
          subst e'
          exact hne m (pairwise_lt_unique h.ids hin (mem_flushVals.mp he))
        cases t with
        | write k v rt =>
          refine ⟨hids, hlt, ?_⟩
          show match (flushVals (erase id s.tasks)).getLast? with | some (_, n) => n = s.payments | none => s.hist = some s.payments
          rw [hother (fun n' => by intro e; cases e)]; exact h.last
        | delete k =>
          refine ⟨hids, hlt, ?_⟩
          show match (flushVals (erase id s.tasks)).getLast? with | some (_, n) => n = s.payments | none => s.hist = some s.payments
          rw [hother (fun n' => by intro e; cases e)]; exact h.last
        | flush n =>
          refine ⟨hids, hlt, ?_⟩
          show match (flushVals (erase id s.tasks)).getLast? with | some (_, m) => m = s.payments | none => some n = some s.payments
          have hhead := hf id n rfl ht
          have hlast := h.last
          cases hfv : flushVals s.tasks with
          | nil => rw [hfv] at hhead; cases hhead
          | cons x rest =>
            rw [hfv] at hhead hlast
            simp only [List.head?_cons, Option.some.injEq] at hhead
            subst hhead
            -- the other pending flushes have different ids
            have hrest : (flushVals (erase id s.tasks)) = rest := by
              rw [flushVals_erase, hfv]
              simp only [List.filter_cons, bne_self_eq_false, Bool.false_eq_true, ↓reduceIte]
              rw [List.filter_eq_self]
              intro e he
              obtain ⟨j, m⟩ := e
              simp only [bne_iff_ne, ne_eq]
              intro (e' : j = id)
              subst e'
              have h1 : (j, Task.flush m) ∈ s.tasks := mem_flushVals.mp (by rw [hfv]; exact List.mem_cons_of_mem _ he)
              have := pairwise_lt_unique h.ids hin h1
              cases this
              -- the same entry twice in `flushVals`: impossible, ids strictly increase along the task list
              have hsub : ((flushVals s.tasks).map (·.1)).Pairwise (· < ·) := h.ids.sublist (flushVals_ids_sublist _)
              rw [hfv] at hsub
              simp only [List.map_cons, List.pairwise_cons] at hsub
              have := hsub.1 j (List.mem_map.mpr ⟨_, he, rfl⟩)
              simp at this
            rw [hrest]
            cases rest with
            | nil => simpa using hlast
            | cons y ys =>
              rw [List.getLast?_cons_cons] at hlast
              have hz : (y :: ys).getLast? = some ((y :: ys).getLast (List.cons_ne_nil _ _)) :=
                List.getLast?_eq_some_getLast (List.cons_ne_nil _ _)
              rw [hz] at hlast ⊢
              exact hlast
      · exact h
  | deliver id =>
    simp only [SafeNet.Store.step, deliver]
    split
    · exact h
    · split
      · exact ⟨h.ids, h.lt, h.last⟩
      · exact h
  | setRange r => exact ⟨h.ids, h.lt, h.last⟩
  | cleanup =>
    simp only [SafeNet.Store.step, cleanup]
    split
    · exact h
    · split
      · exact h
      · exact h.removeKeys dist _
  | payment =>
    refine ⟨pairwise_lt_append_fresh _ h.ids h.lt, ?_, ?_⟩
    · intro e he
      rcases List.mem_append.mp he with he | he
      · exact Nat.lt_succ_of_lt (h.lt e he)
      · simp only [List.mem_singleton] at he; subst he; exact Nat.lt_succ_self _
    · show match (flushVals (s.tasks ++ [(s.nextId, .flush (s.payments + 1))])).getLast? with
        | some (_, n) => n = s.payments + 1 | none => s.hist = some (s.payments + 1)
      rw [flushVals_append]
      simp [flushVals]
  | crash torn =>
    simp only [SafeNet.Store.step]
    split
    · refine ⟨by simp [restart], ?_, ?_⟩
      · intro e he
        simp only [restart, List.mem_singleton] at he
        subst he
        simp [restart]
      · simp [restart, flushVals]
    · exact h

def FlushFifo (cfg : Cfg) (dist : Nat → Nat) : St → List Op → Prop
  | _, [] => True
  | s, op :: ops => FlushFifoStep s op ∧ FlushFifo cfg dist (step cfg dist s op).1 ops

/-- executable check of `FlushFifo` (for examples) -/
def flushFifoB (cfg : Cfg) (dist : Nat → Nat) : St → List Op → Bool
  | _, [] => true
  | s, op :: ops =>
    (match op with
      | .run id =>
        match lookup id s.tasks with
        | some (.flush n) => (flushVals s.tasks).head? == some (id, n)
        | _ => true
      | _ => true) && flushFifoB cfg dist (step cfg dist s op).1 ops

theorem flushFifoB_sound (cfg : Cfg) (dist : Nat → Nat) (ops : List Op) (s : St) (h : flushFifoB cfg dist s ops = true) :
    FlushFifo cfg dist s ops := by
  induction ops generalizing s with
  | nil => trivial
  | cons op ops ih =>
    simp only [flushFifoB, Bool.and_eq_true] at h
    refine ⟨?_, ih _ h.2⟩
    intro id n hop hl
    subst hop
    have h1 := h.1
    simp only [hl, beq_iff_eq] at h1
    exact h1

theorem FlushInv.runFrom (cfg : Cfg) (dist : Nat → Nat) (ops : List Op) {s : St} (h : FlushInv s)
    (hf : FlushFifo cfg dist s ops) : FlushInv (SafeNet.Store.runFrom cfg dist s ops) := by
  induction ops generalizing s with
  | nil => exact h
  | cons op ops ih => exact ih (h.step cfg dist op hf.1) hf.2

theorem FlushInv.init (cfg : Cfg) (dist : Nat → Nat) : FlushInv (SafeNet.Store.init cfg dist) := by
  refine ⟨by simp [SafeNet.Store.init, restart], ?_, ?_⟩
  · intro e he
    simp only [SafeNet.Store.init, restart, List.mem_singleton] at he
    subst he
    simp [SafeNet.Store.init, restart]
  · simp [SafeNet.Store.init, restart, flushVals]

end SafeNet.Store
