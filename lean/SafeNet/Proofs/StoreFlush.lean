import SafeNet.Proofs.StoreHistory
/-!
The persisted payment counter. `flush_historic_quoting_metrics` writes the metrics file in place (regenerated flag
`flushSynchronous`; `payment_eq`, `restart_hist`), so in every reachable state no flush is pending and the file holds
the current count — whatever the completion order of the other tasks.
-/
namespace SafeNet.Store

theorem foldl_removeKey_nextId (dist : Nat → Nat) (ks : List Nat) (s : St) :
    (ks.foldl (removeKey dist) s).nextId = s.nextId + ks.length ∧ (ks.foldl (removeKey dist) s).payments = s.payments ∧
      (ks.foldl (removeKey dist) s).hist = s.hist := by
  induction ks generalizing s with
  | nil => simp
  | cons k ks ih =>
    rw [List.foldl_cons]
    obtain ⟨a, b, c⟩ := ih (removeKey dist s k)
    refine ⟨?_, b, c⟩
    rw [a]; simp [removeKey]; omega

theorem delTasks_delete {n : Nat} {ks : List Nat} {e : Nat × Task} (h : e ∈ delTasks n ks) : ∃ k, e.2 = .delete k := by
  induction ks generalizing n with
  | nil => simp [delTasks] at h
  | cons x xs ih =>
    simp only [delTasks, List.mem_cons] at h
    rcases h with rfl | h
    · exact ⟨x, rfl⟩
    · exact ih h

/-- no metrics flush is pending and the metrics file holds the current payment count -/
structure FlushInv (s : St) : Prop where
  nonePending : ∀ i n, (i, Task.flush n) ∉ s.tasks
  file : s.hist = some s.payments

/-- a step after which every pending task was pending before or is no flush, and that leaves the count and the file alone -/
theorem FlushInv.of_tasks {s s' : St} (h : FlushInv s)
    (ht : ∀ e ∈ s'.tasks, e ∈ s.tasks ∨ ∀ n, e.2 ≠ .flush n)
    (hp : s'.payments = s.payments) (hh : s'.hist = s.hist) : FlushInv s' := by
  refine ⟨?_, by rw [hh, hp]; exact h.file⟩
  intro i n hm
  rcases ht _ hm with hm' | hm'
  · exact h.nonePending i n hm'
  · exact hm' n rfl

theorem FlushInv.removeKeys (dist : Nat → Nat) {s : St} (h : FlushInv s) (ks : List Nat) :
    FlushInv (ks.foldl (removeKey dist) s) := by
  obtain ⟨_, b, c⟩ := foldl_removeKey_nextId dist ks s
  apply h.of_tasks _ b c
  intro e he
  rw [foldl_removeKey_tasks] at he
  rcases List.mem_append.mp he with he | he
  · exact .inl he
  · obtain ⟨k, hk⟩ := delTasks_delete he
    exact .inr (fun n => by rw [hk]; intro e'; cases e')

theorem FlushInv.step (cfg : Cfg) (dist : Nat → Nat) {s : St} (h : FlushInv s) (op : Op) :
    FlushInv (SafeNet.Store.step cfg dist s op).1 := by
  cases op with
  | put k v rt =>
    simp only [SafeNet.Store.step]
    rcases putVerified_shape cfg dist s k v rt with ⟨_, hr⟩ | hr | hr | ⟨f, hr⟩
    · rw [hr]; exact ⟨h.nonePending, h.file⟩
    · rw [hr]; exact ⟨h.nonePending, h.file⟩
    · rw [hr]
      refine FlushInv.of_tasks h ?_ (by rfl) (by rfl)
      intro e he
      rcases List.mem_append.mp he with he | he
      · exact .inl he
      · simp only [List.mem_singleton] at he; subst he
        exact .inr (fun n => by intro e'; cases e')
    · rw [hr]
      have h1 : FlushInv (removeKey dist s f) := h.removeKeys dist [f]
      refine FlushInv.of_tasks h1 ?_ (by rfl) (by rfl)
      intro e he
      rcases List.mem_append.mp he with he | he
      · exact .inl he
      · simp only [List.mem_singleton] at he; subst he
        exact .inr (fun n => by intro e'; cases e')
  | remove k => exact h.removeKeys dist [k]
  | run id =>
    simp only [SafeNet.Store.step, runTask]
    split
    · exact h
    · rename_i t ht
      split
      · have hsub : ∀ e ∈ erase id s.tasks, e ∈ s.tasks ∨ ∀ n, e.2 ≠ Task.flush n := fun e he => .inl (mem_erase.mp he).1
        cases t with
        | write k v rt => exact h.of_tasks hsub rfl rfl
        | delete k => exact h.of_tasks hsub rfl rfl
        | flush n => exact absurd (lookup_some_mem ht) (h.nonePending id n)
      · exact h
  | deliver id =>
    simp only [SafeNet.Store.step, deliver]
    split
    · exact h
    · split
      · exact ⟨h.nonePending, h.file⟩
      · exact h
  | setRange r => exact ⟨h.nonePending, h.file⟩
  | cleanup =>
    simp only [SafeNet.Store.step, cleanup]
    split
    · exact h
    · split
      · exact h
      · exact h.removeKeys dist _
  | payment =>
    simp only [SafeNet.Store.step, payment_eq]
    exact ⟨h.nonePending, rfl⟩
  | crash torn =>
    simp only [SafeNet.Store.step]
    split
    · refine ⟨?_, ?_⟩
      · intro i n hm
        rw [restart_tasks] at hm
        cases hm
      · rw [restart_hist]; rfl
    · exact h

theorem FlushInv.runFrom (cfg : Cfg) (dist : Nat → Nat) (ops : List Op) {s : St} (h : FlushInv s) :
    FlushInv (SafeNet.Store.runFrom cfg dist s ops) := by
  induction ops generalizing s with
  | nil => exact h
  | cons op ops ih => exact ih (h.step cfg dist op)

theorem FlushInv.init (cfg : Cfg) (dist : Nat → Nat) : FlushInv (SafeNet.Store.init cfg dist) := by
  refine ⟨?_, ?_⟩
  · intro i n hm
    simp only [SafeNet.Store.init] at hm
    rw [restart_tasks] at hm
    cases hm
  · simp only [SafeNet.Store.init]
    rw [restart_hist]; rfl

/-- after every history: no flush pending, the metrics file holds the payment count -/
theorem FlushInv.run (cfg : Cfg) (dist : Nat → Nat) (ops : List Op) : FlushInv (SafeNet.Store.run cfg dist ops) :=
  FlushInv.runFrom cfg dist ops (FlushInv.init cfg dist)

end SafeNet.Store
