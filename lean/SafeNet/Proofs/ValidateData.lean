import SafeNet.Proofs.Validate
/-! Lifting the table facts to data: what a `W` command in `validate`'s trace implies. -/
namespace SafeNet.Validate
open SafeNet.Gen.Validate

theorem imp_of_bool {a b : Bool} (h : (!a || b) = true) (ha : a = true) : b = true := by
  cases a <;> simp_all

theorem and3 {a b c : Bool} (ha : a = true) (hb : b = true) (hc : c = true) : (a && b && c) = true := by
  simp [ha, hb, hc]

theorem and2 {a b : Bool} (ha : a = true) (hb : b = true) : (a && b) = true := by
  simp [ha, hb]

theorem validate_trace (d : Delivery) (s : Store) :
    (validate d s).2 = (tr d.client d.kind (obsOfAns d (seqAns d s))).map (inst d (seqAns d s)) := rfl

theorem validate_res (d : Delivery) (s : Store) :
    (validate d s).1 = rs d.client d.kind (obsOfAns d (seqAns d s)) := rfl

theorem hasW_of_mem {l : List Tk} {t : Tk} (h : t ∈ l) (ht : isW t = true) : hasW l = true := by
  simp only [hasW, List.any_eq_true]; exact ⟨t, h, ht⟩

/-- a `W` in an instantiated trace comes from `Wd` or `Wm`, is for the validation's key, and carries `written` -/
theorem W_mem_inv {d : Delivery} {a : Ans} {l : List Tk} {k : Nat} {c : Content}
    (h : Tok.W k c ∈ l.map (inst d a)) :
    k = rwKey d ∧ hasW l = true ∧
      ((Tk.Wd ∈ l ∧ c = written d a false) ∨ (Tk.Wm ∈ l ∧ c = written d a true)) := by
  rw [List.mem_map] at h
  obtain ⟨tk, htk, he⟩ := h
  cases tk <;> simp [inst] at he
  · obtain ⟨rfl, rfl⟩ := he
    exact ⟨rfl, hasW_of_mem htk rfl, Or.inl ⟨htk, rfl⟩⟩
  · obtain ⟨rfl, rfl⟩ := he
    exact ⟨rfl, hasW_of_mem htk rfl, Or.inr ⟨htk, rfl⟩⟩

theorem no_W_of_not_hasW {d : Delivery} {a : Ans} {l : List Tk} (h : hasW l = false) :
    ∀ k c, Tok.W k c ∉ l.map (inst d a) := by
  intro k c hm
  have := (W_mem_inv hm).2.1
  simp [h] at this

theorem obs_pay (d : Delivery) (a : Ans) :
    (obsOfAns d a).pay = (match d.pay with | some p => payCheck payCheckOrder (vecOf p) | none => .notForUs) := by
  obtain ⟨client, kind, rk, content, pay⟩ := d
  cases content <;> rfl

theorem obs_parse (d : Delivery) (a : Ans) : (obsOfAns d a).parse = parseOk d := by
  obtain ⟨client, kind, rk, content, pay⟩ := d
  cases content <;> rfl

theorem obs_h1 (d : Delivery) (a : Ans) : (obsOfAns d a).h1 = a.hs.getD 0 false := by
  obtain ⟨client, kind, rk, content, pay⟩ := d
  cases content <;> rfl

theorem obs_lSome (d : Delivery) (a : Ans) : (obsOfAns d a).lSome = (a.g.getD none).isSome := by
  obtain ⟨client, kind, rk, content, pay⟩ := d
  cases content <;> rfl

theorem obs_km (d : Delivery) (a : Ans) :
    (obsOfAns d a).km = (match route d.client d.kind with
              | .txRepl => true
              | _ => decide (derivedKey d.content = some d.rk)) := by
  obtain ⟨client, kind, rk, content, pay⟩ := d
  cases content <;> rfl

theorem obs_h2_seq (d : Delivery) (s : Store) :
    (obsOfAns d (seqAns d s)).h2 = (s.get (rwKey d)).isSome := by
  obtain ⟨client, kind, rk, content, pay⟩ := d
  cases content <;> simp [obsOfAns, seqAns]

theorem obs_h1_seq (d : Delivery) (s : Store) :
    (obsOfAns d (seqAns d s)).h1 = (s.get (rwKey d)).isSome := by
  rw [obs_h1]; simp [seqAns]

theorem obs_lSome_seq (d : Delivery) (s : Store) :
    (obsOfAns d (seqAns d s)).lSome = (s.get (rwKey d)).isSome := by
  rw [obs_lSome]; simp [seqAns]

theorem fresh_seq {d : Delivery} {s : Store} (h : s.get (rwKey d) = none) :
    freshObs (obsOfAns d (seqAns d s)) = true := by
  simp [freshObs, obs_h1_seq, obs_h2_seq, obs_lSome_seq, h]

theorem held_seq {d : Delivery} {s : Store} {c : Content} (h : s.get (rwKey d) = some c) :
    heldObs (obsOfAns d (seqAns d s)) = true := by
  simp [heldObs, obs_h1_seq, obs_h2_seq, obs_lSome_seq, h]

/-- only the replicated-transaction route lacks a single derived key -/
theorem route_txRepl {client : Bool} {k : Kind} (h : route client k = .txRepl) : client = false ∧ k = .tx := by
  cases client <;> cases k <;> simp [route, clientRoute, replRoute] at h ⊢

theorem route_repl_tx : route false .tx = .txRepl := by decide

/-- unless it is a replicated transaction vector, `km` says the record key is the derived key, which is then the key read and written -/
theorem km_true_key {d : Delivery} {a : Ans} (hkm : (obsOfAns d a).km = true)
    (hnot : ¬ (d.client = false ∧ d.kind = .tx)) :
    derivedKey d.content = some d.rk ∧ rwKey d = d.rk := by
  rw [obs_km] at hkm
  have hr : route d.client d.kind ≠ .txRepl := fun h => hnot (route_txRepl h)
  have hd : derivedKey d.content = some d.rk := by
    revert hkm
    generalize route d.client d.kind = b at hr
    cases b <;> simp_all
  refine ⟨hd, ?_⟩
  unfold rwKey
  revert hr
  generalize route d.client d.kind = b
  intro hr
  cases b <;> simp_all

end SafeNet.Validate
