/-!
SHA-256 (FIPS 180-4) as an executable, import-free definition over byte lists (`List Nat`, each < 256; larger
entries are reduced mod 256 as a `UInt8` would be).  Used by the distance model so that "XOR of the SHA-256
digests" is a statement about a *defined* function, not about digests supplied by the harness; the definition is tied
to the `sha2` crate (what libp2p's `KBucketKey::new` calls) by the correspondence run: every `distance`/`digest` op
line is a test vector.
-/
namespace SafeNet.Sha256

def K : Array UInt32 := #[
  0x428a2f98, 0x71374491, 0xb5c0fbcf, 0xe9b5dba5, 0x3956c25b, 0x59f111f1, 0x923f82a4, 0xab1c5ed5,
  0xd807aa98, 0x12835b01, 0x243185be, 0x550c7dc3, 0x72be5d74, 0x80deb1fe, 0x9bdc06a7, 0xc19bf174,
  0xe49b69c1, 0xefbe4786, 0x0fc19dc6, 0x240ca1cc, 0x2de92c6f, 0x4a7484aa, 0x5cb0a9dc, 0x76f988da,
  0x983e5152, 0xa831c66d, 0xb00327c8, 0xbf597fc7, 0xc6e00bf3, 0xd5a79147, 0x06ca6351, 0x14292967,
  0x27b70a85, 0x2e1b2138, 0x4d2c6dfc, 0x53380d13, 0x650a7354, 0x766a0abb, 0x81c2c92e, 0x92722c85,
  0xa2bfe8a1, 0xa81a664b, 0xc24b8b70, 0xc76c51a3, 0xd192e819, 0xd6990624, 0xf40e3585, 0x106aa070,
  0x19a4c116, 0x1e376c08, 0x2748774c, 0x34b0bcb5, 0x391c0cb3, 0x4ed8aa4a, 0x5b9cca4f, 0x682e6ff3,
  0x748f82ee, 0x78a5636f, 0x84c87814, 0x8cc70208, 0x90befffa, 0xa4506ceb, 0xbef9a3f7, 0xc67178f2]

def rotr (x : UInt32) (n : UInt32) : UInt32 := (x >>> n) ||| (x <<< (32 - n))

def ch (x y z : UInt32) : UInt32 := (x &&& y) ^^^ ((~~~x) &&& z)
def maj (x y z : UInt32) : UInt32 := (x &&& y) ^^^ (x &&& z) ^^^ (y &&& z)
def bsig0 (x : UInt32) : UInt32 := rotr x 2 ^^^ rotr x 13 ^^^ rotr x 22
def bsig1 (x : UInt32) : UInt32 := rotr x 6 ^^^ rotr x 11 ^^^ rotr x 25
def ssig0 (x : UInt32) : UInt32 := rotr x 7 ^^^ rotr x 18 ^^^ (x >>> 3)
def ssig1 (x : UInt32) : UInt32 := rotr x 17 ^^^ rotr x 19 ^^^ (x >>> 10)

/-- the eight working variables / the hash state -/
structure St where
  a : UInt32
  b : UInt32
  c : UInt32
  d : UInt32
  e : UInt32
  f : UInt32
  g : UInt32
  h : UInt32

def init : St :=
  ⟨0x6a09e667, 0xbb67ae85, 0x3c6ef372, 0xa54ff53a, 0x510e527f, 0x9b05688c, 0x1f83d9ab, 0x5be0cd19⟩

/-- padding: `0x80`, zeros up to 56 mod 64, the bit length as 8 big-endian bytes -/
def pad (msg : List Nat) : List Nat :=
  let l := msg.length
  let z := (55 + 64 - l % 64) % 64
  let bits := l * 8
  msg.map (· % 256) ++ [0x80] ++ List.replicate z 0 ++
    (List.range 8).map (fun i => (bits >>> (8 * (7 - i))) % 256)

def word (b0 b1 b2 b3 : Nat) : UInt32 :=
  UInt32.ofNat (b0 * 16777216 + b1 * 65536 + b2 * 256 + b3)

/-- the first 16 schedule words of a 64-byte block -/
def blockWords : List Nat → List UInt32
  | b0 :: b1 :: b2 :: b3 :: rest => word b0 b1 b2 b3 :: blockWords rest
  | _ => []

/-- extend the schedule to 64 words -/
def schedule (w16 : List UInt32) : Array UInt32 := Id.run do
  let mut w : Array UInt32 := w16.toArray
  for t in [16:64] do
    w := w.push (ssig1 w[t - 2]! + w[t - 7]! + ssig0 w[t - 15]! + w[t - 16]!)
  return w

def round (s : St) (k w : UInt32) : St :=
  let t1 := s.h + bsig1 s.e + ch s.e s.f s.g + k + w
  let t2 := bsig0 s.a + maj s.a s.b s.c
  ⟨t1 + t2, s.a, s.b, s.c, s.d + t1, s.e, s.f, s.g⟩

def compress (h : St) (block : List Nat) : St :=
  let w := schedule (blockWords block)
  let s := (List.range 64).foldl (fun s t => round s K[t]! w[t]!) h
  ⟨h.a + s.a, h.b + s.b, h.c + s.c, h.d + s.d, h.e + s.e, h.f + s.f, h.g + s.g, h.h + s.h⟩

def blocks : Nat → List Nat → St → St
  | 0, _, h => h
  | n + 1, bs, h => blocks n (bs.drop 64) (compress h (bs.take 64))

def hashSt (msg : List Nat) : St :=
  let p := pad msg
  blocks (p.length / 64) p init

/-- the digest as a 256-bit big-endian number (what `U256::from(digest)` is in libp2p-kad) -/
def hashNat (msg : List Nat) : Nat :=
  let s := hashSt msg
  ((((((s.a.toNat * 4294967296 + s.b.toNat) * 4294967296 + s.c.toNat) * 4294967296 + s.d.toNat) * 4294967296
    + s.e.toNat) * 4294967296 + s.f.toNat) * 4294967296 + s.g.toNat) * 4294967296 + s.h.toNat

def wordBytes (w : UInt32) : List Nat :=
  [w.toNat / 16777216, w.toNat / 65536 % 256, w.toNat / 256 % 256, w.toNat % 256]

/-- the digest as 32 bytes -/
def hashBytes (msg : List Nat) : List Nat :=
  let s := hashSt msg
  wordBytes s.a ++ wordBytes s.b ++ wordBytes s.c ++ wordBytes s.d ++
  wordBytes s.e ++ wordBytes s.f ++ wordBytes s.g ++ wordBytes s.h

/-- every digest is a 256-bit number -/
theorem hashNat_lt (msg : List Nat) : hashNat msg < 2 ^ 256 := by
  unfold hashNat
  have ha := (hashSt msg).a.toNat_lt
  have hb := (hashSt msg).b.toNat_lt
  have hc := (hashSt msg).c.toNat_lt
  have hd := (hashSt msg).d.toNat_lt
  have he := (hashSt msg).e.toNat_lt
  have hf := (hashSt msg).f.toNat_lt
  have hg := (hashSt msg).g.toNat_lt
  have hh := (hashSt msg).h.toNat_lt
  simp only [] at *
  omega

-- FIPS 180-4 test vectors (evaluated by the compiler at build time; the run-time tie is the correspondence)
#guard hashNat [] = 0xe3b0c44298fc1c149afbf4c8996fb92427ae41e4649b934ca495991b7852b855
#guard hashNat [0x61, 0x62, 0x63] = 0xba7816bf8f01cfea414140de5dae2223b00361a396177a9cb410ff61f20015ad
#guard hashNat ("abcdbcdecdefdefgefghfghighijhijkijkljklmklmnlmnomnopnopq".toList.map Char.toNat)
  = 0x248d6a61d20638b8e5c026930c3e6039a33ce45964ff2167f6ecedd419db06c1

end SafeNet.Sha256
