/-
Hex decoding/encoding over byte lists as the `hex` crate (0.4.3) does it: `encode` prints lower case,
`decode` accepts both cases, rejects odd lengths and any non-hex byte.  Strings are lists of byte
values.  Import-free (core only): usable from the compiled driver.
-/
namespace SafeNet.Hex

def hexVal (c : Nat) : Option Nat :=
  if 48 ≤ c ∧ c ≤ 57 then some (c - 48)
  else if 97 ≤ c ∧ c ≤ 102 then some (c - 87)
  else if 65 ≤ c ∧ c ≤ 70 then some (c - 55)
  else none

def decode : List Nat → Option (List Nat)
  | [] => some []
  | [_] => none
  | a :: b :: rest =>
    match hexVal a, hexVal b, decode rest with
    | some x, some y, some r => some ((x * 16 + y) :: r)
    | _, _, _ => none

def hexDigit (n : Nat) : Nat := if n < 10 then 48 + n else 87 + n

def encode : List Nat → List Nat
  | [] => []
  | b :: bs => hexDigit (b / 16) :: hexDigit (b % 16) :: encode bs

theorem hexVal_hexDigit (n : Nat) (h : n < 16) : hexVal (hexDigit n) = some n := by
  unfold hexDigit hexVal
  by_cases h10 : n < 10
  · simp only [h10, ↓reduceIte]
    have : 48 ≤ 48 + n ∧ 48 + n ≤ 57 := by omega
    simp only [this, and_self, ↓reduceIte]
    congr 1; omega
  · simp only [h10, ↓reduceIte]
    have h1 : ¬ (48 ≤ 87 + n ∧ 87 + n ≤ 57) := by omega
    have h2 : 97 ≤ 87 + n ∧ 87 + n ≤ 102 := by omega
    simp only [h1, h2, and_self, ↓reduceIte]
    congr 1; omega

theorem hexVal_lt {c v : Nat} (h : hexVal c = some v) : v < 16 := by
  unfold hexVal at h
  split at h
  · cases h; omega
  · split at h
    · cases h; omega
    · split at h
      · cases h; omega
      · cases h

/-- **Round trip**: decoding the encoding of a byte string gives the byte string back. -/
theorem decode_encode (bs : List Nat) (h : ∀ b ∈ bs, b < 256) : decode (encode bs) = some bs := by
  induction bs with
  | nil => rfl
  | cons b bs ih =>
    have hb : b < 256 := h b (by simp)
    have ih' := ih (fun x hx => h x (by simp [hx]))
    simp only [encode, decode]
    rw [hexVal_hexDigit (b / 16) (by omega), hexVal_hexDigit (b % 16) (by omega), ih']
    simp only
    congr 2
    omega

theorem encode_length (bs : List Nat) : (encode bs).length = 2 * bs.length := by
  induction bs with
  | nil => rfl
  | cons b bs ih => simp only [encode, List.length_cons, ih]; omega

/-- A decodable string has exactly two characters per byte. -/
theorem decode_length : ∀ (s bs : List Nat), decode s = some bs → s.length = 2 * bs.length
  | [], bs, h => by simp [decode] at h; subst h; rfl
  | [_], bs, h => by simp [decode] at h
  | a :: b :: rest, bs, h => by
    simp only [decode] at h
    split at h
    · rename_i x y r hx hy hr
      cases h
      have := decode_length rest r hr
      simp only [List.length_cons]; omega
    · cases h

/-- Decoded values are bytes. -/
theorem decode_bytes : ∀ (s bs : List Nat), decode s = some bs → ∀ b ∈ bs, b < 256
  | [], bs, h => by simp [decode] at h; subst h; simp
  | [_], bs, h => by simp [decode] at h
  | a :: b :: rest, bs, h => by
    simp only [decode] at h
    split at h
    · rename_i x y r hx hy hr
      cases h
      intro v hv
      simp only [List.mem_cons] at hv
      rcases hv with rfl | hv
      · have := hexVal_lt hx; have := hexVal_lt hy; omega
      · exact decode_bytes rest r hr v hv
    · cases h

end SafeNet.Hex
