/-
CBOR (RFC 8949) as `cbor4ii` 0.3.3's serde layer writes it — the format of libp2p `request_response::cbor`,
through which `ant_protocol::messages::{Request, Response}` travel.  Read off `cbor4ii/src/core/enc.rs`
(`TypeNum<u8|u16|u32|u64>`: the argument always takes the shortest of the five widths), `serde/ser.rs` and
`core/dec.rs`:

* items written: unsigned (major 0), negative (major 1), byte string (2), text string (3), array (4), map (5), always
  with a definite length, and the three simple values `false` (0xf4), `true` (0xf5), `null` (0xf6);
  never tags, floats, `undefined`, indefinite lengths (serde's derive always knows the length);
* the decoder here accepts the argument in EVERY width (as `cbor4ii::core::dec::TypeNum::decode_u64` does) and
  normalises; indefinite lengths (info 31), reserved infos 28–30, tags, floats and `undefined` are errors.  The real
  decoder accepts more (indefinite lengths, `undefined` for `None`, and it does not look at the major bits of a length
  header); those inputs are never what an encoder writes, and the correspondence run only requires
  "model accepts ⇒ implementation accepts the same value" on them.

Bytes are `Nat`s `< 256`.  Import-free: usable from the compiled drivers.
-/
namespace SafeNet.Cbor

/-- A CBOR data item of the subset. `nint m` is the negative integer `-(m+1)`. -/
inductive Val where
  | uint (n : Nat)
  | nint (m : Nat)
  | bytes (s : List Nat)
  | text (s : List Nat)
  | arr (xs : List Val)
  | map (ps : List (Val × Val))
  | bool (b : Bool)
  | null
  deriving Repr, Inhabited

/-! ## Big-endian fixed-width integers -/

/-- `k` big-endian bytes of `n` (truncating). -/
def toBE : Nat → Nat → List Nat
  | 0, _ => []
  | k+1, n => (n / 256 ^ k) % 256 :: toBE k n

/-- Value of a big-endian byte string. -/
def fromBE (bs : List Nat) : Nat := bs.foldl (fun a b => a * 256 + b) 0

def isBytes (bs : List Nat) : Bool := bs.all (· < 256)

/-- Read a `k`-byte big-endian number. -/
def readBE (k : Nat) (bs : List Nat) : Option (Nat × List Nat) :=
  if bs.length < k then none else some (fromBE (bs.take k), bs.drop k)

/-! ## Heads: initial byte (major type, additional information) plus the argument bytes -/

/-- additional information (low five bits of the initial byte) the encoder chooses for argument `n`:
`TypeNum<u64>::encode` falls through `u32`, `u16`, `u8` to the shortest form -/
def argInfo (n : Nat) : Nat :=
  if n < 24 then n else if n < 256 then 24 else if n < 65536 then 25 else if n < 4294967296 then 26 else 27

/-- the bytes that follow the initial byte -/
def argBytes (n : Nat) : List Nat :=
  if n < 24 then [] else if n < 256 then [n] else if n < 65536 then toBE 2 n
  else if n < 4294967296 then toBE 4 n else toBE 8 n

/-- initial byte `major << 5 | info`, then the argument -/
def encodeArg (major n : Nat) : List Nat := (major * 32 + argInfo n) :: argBytes n

/-- read the argument announced by additional information `ai`; every width is accepted -/
def readArg (ai : Nat) (bs : List Nat) : Option (Nat × List Nat) :=
  if ai < 24 then some (ai, bs)
  else if ai = 24 then readBE 1 bs
  else if ai = 25 then readBE 2 bs
  else if ai = 26 then readBE 4 bs
  else if ai = 27 then readBE 8 bs
  else none

inductive Head where
  | uint (n : Nat)
  | nint (m : Nat)
  | bytes (len : Nat)
  | text (len : Nat)
  | arr (len : Nat)
  | map (len : Nat)
  | bool (b : Bool)
  | null
  deriving Repr, DecidableEq

def encodeHead : Head → List Nat
  | .uint n => encodeArg 0 n
  | .nint m => encodeArg 1 m
  | .bytes n => encodeArg 2 n
  | .text n => encodeArg 3 n
  | .arr n => encodeArg 4 n
  | .map n => encodeArg 5 n
  | .bool false => [0xf4]
  | .bool true => [0xf5]
  | .null => [0xf6]

/-- the head denoted by a major type `0…5` and its argument -/
def headOf (major n : Nat) : Head :=
  match major with
  | 0 => .uint n
  | 1 => .nint n
  | 2 => .bytes n
  | 3 => .text n
  | 4 => .arr n
  | _ => .map n

/-- Decode one head.  Major types 0–5 (initial byte `< 0xc0`) with any argument width; of major 7 only `false`, `true`,
`null`; tags (major 6), `undefined`, floats, `break`, other simple values, reserved infos and indefinite lengths are errors. -/
def decodeHead : List Nat → Option (Head × List Nat)
  | [] => none
  | b :: bs =>
    if b = 0xf4 then some (.bool false, bs)
    else if b = 0xf5 then some (.bool true, bs)
    else if b = 0xf6 then some (.null, bs)
    else if b < 192 then (readArg (b % 32) bs).map fun (n, r) => (headOf (b / 32) n, r)
    else none

/-! ## Encoder -/

mutual
def encode : Val → List Nat
  | .uint n => encodeHead (.uint n)
  | .nint m => encodeHead (.nint m)
  | .bytes s => encodeHead (.bytes s.length) ++ s
  | .text s => encodeHead (.text s.length) ++ s
  | .arr xs => encodeHead (.arr xs.length) ++ encodeList xs
  | .map ps => encodeHead (.map ps.length) ++ encodePairs ps
  | .bool b => encodeHead (.bool b)
  | .null => encodeHead .null
def encodeList : List Val → List Nat
  | [] => []
  | x :: xs => encode x ++ encodeList xs
def encodePairs : List (Val × Val) → List Nat
  | [] => []
  | (k, v) :: ps => encode k ++ (encode v ++ encodePairs ps)
end

/-! ## Decoder -/

def takeN (n : Nat) (bs : List Nat) : Option (List Nat × List Nat) :=
  if bs.length < n then none else some (bs.take n, bs.drop n)

/-- `n` consecutive items with the element decoder `dec`. -/
def decodeSeq (dec : List Nat → Option (Val × List Nat)) : Nat → List Nat → Option (List Val × List Nat)
  | 0, bs => some ([], bs)
  | n+1, bs =>
    match dec bs with
    | none => none
    | some (v, r) =>
      match decodeSeq dec n r with
      | none => none
      | some (vs, r') => some (v :: vs, r')

/-- `n` consecutive key/value pairs. -/
def decodePairs (dec : List Nat → Option (Val × List Nat)) : Nat → List Nat → Option (List (Val × Val) × List Nat)
  | 0, bs => some ([], bs)
  | n+1, bs =>
    match dec bs with
    | none => none
    | some (k, r) =>
      match dec r with
      | none => none
      | some (v, r') =>
        match decodePairs dec n r' with
        | none => none
        | some (ps, r'') => some ((k, v) :: ps, r'')

/-- Decode one item with nesting budget `fuel` (each level of nesting costs one). -/
def decodeF : Nat → List Nat → Option (Val × List Nat)
  | 0, _ => none
  | fuel+1, bs =>
    match decodeHead bs with
    | none => none
    | some (.uint n, r) => some (.uint n, r)
    | some (.nint m, r) => some (.nint m, r)
    | some (.bytes n, r) => (takeN n r).map fun (s, r') => (.bytes s, r')
    | some (.text n, r) => (takeN n r).map fun (s, r') => (.text s, r')
    | some (.arr n, r) => (decodeSeq (decodeF fuel) n r).map fun (xs, r') => (.arr xs, r')
    | some (.map n, r) => (decodePairs (decodeF fuel) n r).map fun (ps, r') => (.map ps, r')
    | some (.bool b, r) => some (.bool b, r)
    | some (.null, r) => some (.null, r)

/-- Decode one item from the front of `bs`; the rest is returned (the codec's reader,
`cbor4ii::serde::from_slice`, likewise takes one value and does not look at what follows).  Every item occupies at
least one byte, so `bs.length` levels of nesting always suffice. -/
def decode (bs : List Nat) : Option (Val × List Nat) := decodeF bs.length bs

/-! ## Well-formedness: what the 64-bit argument can carry -/

mutual
def wf : Val → Bool
  | .uint n => n < 18446744073709551616
  | .nint m => m < 18446744073709551616
  | .bytes s => s.length < 18446744073709551616 && isBytes s
  | .text s => s.length < 18446744073709551616 && isBytes s
  | .arr xs => xs.length < 18446744073709551616 && wfList xs
  | .map ps => ps.length < 18446744073709551616 && wfPairs ps
  | .bool _ => true
  | .null => true
def wfList : List Val → Bool
  | [] => true
  | x :: xs => wf x && wfList xs
def wfPairs : List (Val × Val) → Bool
  | [] => true
  | (k, v) :: ps => wf k && (wf v && wfPairs ps)
end

/-- Well-formed items: integers and lengths fit the 64-bit argument, bytes are bytes. -/
def WellFormed (v : Val) : Prop := wf v = true

instance (v : Val) : Decidable (WellFormed v) := inferInstanceAs (Decidable (wf v = true))

end SafeNet.Cbor
