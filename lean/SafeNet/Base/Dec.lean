/-
Decimal digit strings over `Nat` digit values (most significant first).
Import-free: usable from the compiled driver.
-/
namespace SafeNet.Dec

/-- Digits of `n`, least significant first; `[]` for 0. -/
def digitsLE : Nat → List Nat
  | 0 => []
  | n+1 => ((n+1) % 10) :: digitsLE ((n+1) / 10)
decreasing_by omega

/-- Decimal digits of `n`, most significant first, `[0]` for zero (what `{}` prints). -/
def toDigits (n : Nat) : List Nat :=
  if n = 0 then [0] else (digitsLE n).reverse

/-- Value of a most-significant-first digit list (no digit check). -/
def ofDigits (ds : List Nat) : Nat := ds.foldl (fun a d => a * 10 + d) 0

/-- Left-pad with zeros to width `w` (what `{:0w}` does). -/
def padLeft (w : Nat) (ds : List Nat) : List Nat :=
  List.replicate (w - ds.length) 0 ++ ds

/-- Drop trailing zeros (what `trim_end_matches('0')` does on digit values). -/
def trimTrailingZeros (ds : List Nat) : List Nat :=
  (ds.reverse.dropWhile (· == 0)).reverse

def allDigits (ds : List Nat) : Bool := ds.all (· < 10)

end SafeNet.Dec
