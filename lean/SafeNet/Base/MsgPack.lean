/-
MessagePack as `rmp` 0.8 / `rmp_serde` 1.3 emit it (no floats, no ext): values, the shortest-form
encoder and a fuel-bounded decoder that accepts every width of every family and normalises.
Bytes are `Nat`s `< 256`.  Import-free: usable from the compiled drivers.
-/
namespace SafeNet.MsgPack

/-- A MessagePack value. `nint m` is the negative integer `-(m+1)` (non-negative integers are always
written in the unsigned family by `rmp::encode::write_sint`, so they are `uint`). -/
inductive Val where
  | nil
  | bool (b : Bool)
  | uint (n : Nat)
  | nint (m : Nat)
  | str (s : List Nat)
  | bin (s : List Nat)
  | arr (xs : List Val)
  | map (ps : List (Val × Val))
  deriving Repr, Inhabited

/-! ## Big-endian fixed-width integers -/

/-- `k` big-endian bytes of `n` (truncating). -/
def toBE : Nat → Nat → List Nat
  | 0, _ => []
  | k+1, n => (n / 256 ^ k) % 256 :: toBE k n

/-- Value of a big-endian byte string. -/
def fromBE (bs : List Nat) : Nat := bs.foldl (fun a b => a * 256 + b) 0

/-- `k` little-endian bytes of `n` (truncating) — `u64::to_le_bytes` for `k = 8`. -/
def toLE : Nat → Nat → List Nat
  | 0, _ => []
  | k+1, n => n % 256 :: toLE k (n / 256)

def fromLE : List Nat → Nat
  | [] => 0
  | b :: bs => b + 256 * fromLE bs

def isBytes (bs : List Nat) : Bool := bs.all (· < 256)

/-! ## Heads: marker byte plus length / immediate value -/

inductive Head where
  | nil
  | bool (b : Bool)
  | uint (n : Nat)
  | nint (m : Nat)
  | str (len : Nat)
  | bin (len : Nat)
  | arr (len : Nat)
  | map (len : Nat)
  deriving Repr, DecidableEq

/-- Shortest form, exactly as `rmp::encode::{write_uint, write_sint, write_str_len, write_bin_len,
write_array_len, write_map_len}` choose it. -/
def encodeHead : Head → List Nat
  | .nil => [0xc0]
  | .bool false => [0xc2]
  | .bool true => [0xc3]
  | .uint n =>
    if n < 128 then [n]
    else if n < 256 then [0xcc, n]
    else if n < 65536 then 0xcd :: toBE 2 n
    else if n < 4294967296 then 0xce :: toBE 4 n
    else 0xcf :: toBE 8 n
  | .nint m =>
    if m < 32 then [255 - m]
    else if m < 128 then [0xd0, 255 - m]
    else if m < 32768 then 0xd1 :: toBE 2 (65535 - m)
    else if m < 2147483648 then 0xd2 :: toBE 4 (4294967295 - m)
    else 0xd3 :: toBE 8 (18446744073709551615 - m)
  | .str n =>
    if n < 32 then [0xa0 + n]
    else if n < 256 then [0xd9, n]
    else if n < 65536 then 0xda :: toBE 2 n
    else 0xdb :: toBE 4 n
  | .bin n =>
    if n < 256 then [0xc4, n]
    else if n < 65536 then 0xc5 :: toBE 2 n
    else 0xc6 :: toBE 4 n
  | .arr n =>
    if n < 16 then [0x90 + n]
    else if n < 65536 then 0xdc :: toBE 2 n
    else 0xdd :: toBE 4 n
  | .map n =>
    if n < 16 then [0x80 + n]
    else if n < 65536 then 0xde :: toBE 2 n
    else 0xdf :: toBE 4 n

/-- Read a `k`-byte big-endian number. -/
def readBE (k : Nat) (bs : List Nat) : Option (Nat × List Nat) :=
  if bs.length < k then none else some (fromBE (bs.take k), bs.drop k)

/-- Signed families: two's complement of width `8*k`; non-negative payloads normalise to `uint`. -/
def signedHead (k : Nat) (u : Nat) : Head :=
  if u < 256 ^ k / 2 then .uint u else .nint (256 ^ k - 1 - u)

/-- Decode one marker (+ its length / immediate bytes).  Every width is accepted (as `rmp::decode`
does); floats (`0xca`, `0xcb`), ext (`0xc7`–`0xc9`, `0xd4`–`0xd8`) and the reserved `0xc1` are errors. -/
def decodeHead : List Nat → Option (Head × List Nat)
  | [] => none
  | b :: bs =>
    if b < 0x80 then some (.uint b, bs)
    else if b < 0x90 then some (.map (b - 0x80), bs)
    else if b < 0xa0 then some (.arr (b - 0x90), bs)
    else if b < 0xc0 then some (.str (b - 0xa0), bs)
    else if b = 0xc0 then some (.nil, bs)
    else if b = 0xc2 then some (.bool false, bs)
    else if b = 0xc3 then some (.bool true, bs)
    else if b = 0xc4 then (readBE 1 bs).map fun (n, r) => (.bin n, r)
    else if b = 0xc5 then (readBE 2 bs).map fun (n, r) => (.bin n, r)
    else if b = 0xc6 then (readBE 4 bs).map fun (n, r) => (.bin n, r)
    else if b = 0xcc then (readBE 1 bs).map fun (n, r) => (.uint n, r)
    else if b = 0xcd then (readBE 2 bs).map fun (n, r) => (.uint n, r)
    else if b = 0xce then (readBE 4 bs).map fun (n, r) => (.uint n, r)
    else if b = 0xcf then (readBE 8 bs).map fun (n, r) => (.uint n, r)
    else if b = 0xd0 then (readBE 1 bs).map fun (n, r) => (signedHead 1 n, r)
    else if b = 0xd1 then (readBE 2 bs).map fun (n, r) => (signedHead 2 n, r)
    else if b = 0xd2 then (readBE 4 bs).map fun (n, r) => (signedHead 4 n, r)
    else if b = 0xd3 then (readBE 8 bs).map fun (n, r) => (signedHead 8 n, r)
    else if b = 0xd9 then (readBE 1 bs).map fun (n, r) => (.str n, r)
    else if b = 0xda then (readBE 2 bs).map fun (n, r) => (.str n, r)
    else if b = 0xdb then (readBE 4 bs).map fun (n, r) => (.str n, r)
    else if b = 0xdc then (readBE 2 bs).map fun (n, r) => (.arr n, r)
    else if b = 0xdd then (readBE 4 bs).map fun (n, r) => (.arr n, r)
    else if b = 0xde then (readBE 2 bs).map fun (n, r) => (.map n, r)
    else if b = 0xdf then (readBE 4 bs).map fun (n, r) => (.map n, r)
    else if 0xe0 ≤ b ∧ b < 256 then some (.nint (255 - b), bs)
    else none

/-! ## Encoder -/

mutual
def encode : Val → List Nat
  | .nil => encodeHead .nil
  | .bool b => encodeHead (.bool b)
  | .uint n => encodeHead (.uint n)
  | .nint m => encodeHead (.nint m)
  | .str s => encodeHead (.str s.length) ++ s
  | .bin s => encodeHead (.bin s.length) ++ s
  | .arr xs => encodeHead (.arr xs.length) ++ encodeList xs
  | .map ps => encodeHead (.map ps.length) ++ encodePairs ps
def encodeList : List Val → List Nat
  | [] => []
  | x :: xs => encode x ++ encodeList xs
def encodePairs : List (Val × Val) → List Nat
  | [] => []
  | (k, v) :: ps => encode k ++ (encode v ++ encodePairs ps)
end

/-! ## Decoder -/

def takeN (n : Nat) (bs : List Nat) : Option (List Nat × List Nat) :=
  if bs.length < n then none else some (bs.take n, bs.drop n)

/-- `n` consecutive values with the element decoder `dec`. -/
def decodeSeq (dec : List Nat → Option (Val × List Nat)) : Nat → List Nat → Option (List Val × List Nat)
  | 0, bs => some ([], bs)
  | n+1, bs =>
    match dec bs with
    | none => none
    | some (v, r) =>
      match decodeSeq dec n r with
      | none => none
      | some (vs, r') => some (v :: vs, r')

/-- `n` consecutive key/value pairs. -/
def decodePairs (dec : List Nat → Option (Val × List Nat)) : Nat → List Nat → Option (List (Val × Val) × List Nat)
  | 0, bs => some ([], bs)
  | n+1, bs =>
    match dec bs with
    | none => none
    | some (k, r) =>
      match dec r with
      | none => none
      | some (v, r') =>
        match decodePairs dec n r' with
        | none => none
        | some (ps, r'') => some ((k, v) :: ps, r'')

/-- Decode one value with nesting budget `fuel` (each level of nesting costs one). -/
def decodeF : Nat → List Nat → Option (Val × List Nat)
  | 0, _ => none
  | fuel+1, bs =>
    match decodeHead bs with
    | none => none
    | some (.nil, r) => some (.nil, r)
    | some (.bool b, r) => some (.bool b, r)
    | some (.uint n, r) => some (.uint n, r)
    | some (.nint m, r) => some (.nint m, r)
    | some (.str n, r) => (takeN n r).map fun (s, r') => (.str s, r')
    | some (.bin n, r) => (takeN n r).map fun (s, r') => (.bin s, r')
    | some (.arr n, r) => (decodeSeq (decodeF fuel) n r).map fun (xs, r') => (.arr xs, r')
    | some (.map n, r) => (decodePairs (decodeF fuel) n r).map fun (ps, r') => (.map ps, r')

/-- Decode one value from the front of `bs`; the rest is returned.  Every value occupies at least
one byte, so `bs.length` levels of nesting always suffice. -/
def decode (bs : List Nat) : Option (Val × List Nat) := decodeF bs.length bs

/-! ## Well-formedness: what the 32-bit length fields and 64-bit integers can carry -/

mutual
def wf : Val → Bool
  | .nil => true
  | .bool _ => true
  | .uint n => n < 18446744073709551616
  | .nint m => m < 9223372036854775808
  | .str s => s.length < 4294967296 && isBytes s
  | .bin s => s.length < 4294967296 && isBytes s
  | .arr xs => xs.length < 4294967296 && wfList xs
  | .map ps => ps.length < 4294967296 && wfPairs ps
def wfList : List Val → Bool
  | [] => true
  | x :: xs => wf x && wfList xs
def wfPairs : List (Val × Val) → Bool
  | [] => true
  | (k, v) :: ps => wf k && (wf v && wfPairs ps)
end

/-- Well-formed values: integers fit 64 bits, lengths fit the 32-bit length fields, bytes are bytes. -/
def WellFormed (v : Val) : Prop := wf v = true

instance (v : Val) : Decidable (WellFormed v) := inferInstanceAs (Decidable (wf v = true))

/-! ## Structural equality (for the drivers) -/

mutual
def beq : Val → Val → Bool
  | .nil, .nil => true
  | .bool a, .bool b => a == b
  | .uint a, .uint b => a == b
  | .nint a, .nint b => a == b
  | .str a, .str b => a == b
  | .bin a, .bin b => a == b
  | .arr a, .arr b => beqList a b
  | .map a, .map b => beqPairs a b
  | _, _ => false
def beqList : List Val → List Val → Bool
  | [], [] => true
  | x :: xs, y :: ys => beq x y && beqList xs ys
  | _, _ => false
def beqPairs : List (Val × Val) → List (Val × Val) → Bool
  | [], [] => true
  | (a, b) :: xs, (c, d) :: ys => beq a c && (beq b d && beqPairs xs ys)
  | _, _ => false
end

end SafeNet.MsgPack
