/-
Fixed-width integer arithmetic and slice indexing in an `Except Panic` monad: what Rust does with
overflow checks on (debug / `overflow-checks = true`) and with bounds-checked slicing.  "Never panics
or overflows" becomes a statement about the absence of `.error _` / `Res.panic _`.
Import-free: usable from the compiled driver.
-/
namespace SafeNet.Panic

inductive Panic
  | overflow      -- `attempt to add/subtract/multiply with overflow`
  | sliceIndex    -- `range end index … out of range for slice of length …`
  | unwrap        -- `unwrap()` / `expect()` on `None` / `Err`
deriving DecidableEq, Repr

def Panic.name : Panic → String
  | .overflow => "overflow" | .sliceIndex => "slice" | .unwrap => "unwrap"

/-- `a + b` in an unsigned type of `w` bits. -/
def uadd (w a b : Nat) : Except Panic Nat :=
  if a + b < 2 ^ w then .ok (a + b) else .error .overflow

/-- `a - b` in an unsigned type. -/
def usub (a b : Nat) : Except Panic Nat :=
  if b ≤ a then .ok (a - b) else .error .overflow

/-- `a * b` in an unsigned type of `w` bits. -/
def umul (w a b : Nat) : Except Panic Nat :=
  if a * b < 2 ^ w then .ok (a * b) else .error .overflow

def checkedAdd (w a b : Nat) : Option Nat := if a + b < 2 ^ w then some (a + b) else none
def checkedSub (a b : Nat) : Option Nat := if b ≤ a then some (a - b) else none
def saturatingAdd (w a b : Nat) : Nat := if a + b < 2 ^ w then a + b else 2 ^ w - 1
def saturatingSub (a b : Nat) : Nat := a - b

namespace u16
def add := uadd 16
def sub := usub
def mul := umul 16
end u16
namespace u32
def add := uadd 32
def sub := usub
def mul := umul 32
end u32
namespace u64
def add := uadd 64
def sub := usub
def mul := umul 64
end u64

/-- `l[lo..hi]`: panics unless `lo ≤ hi ≤ l.len()`. -/
def slice? (l : List Nat) (lo hi : Nat) : Except Panic (List Nat) :=
  if lo ≤ hi ∧ hi ≤ l.length then .ok ((l.drop lo).take (hi - lo)) else .error .sliceIndex

/-- `l[lo..hi]` with optional bounds (`l[..hi]`, `l[lo..]`, `l[..]`). -/
def sliceOpt? (l : List Nat) (lo hi : Option Nat) : Except Panic (List Nat) :=
  slice? l (lo.getD 0) (hi.getD l.length)

/-! ### Integer expressions read from the Rust source (emitted by `rs2lean`) -/

/-- The arithmetic sub-language `rs2lean` reads: variables by position, literals, `+ - *` at a given
unsigned width, `saturating_sub`/`saturating_add`, and lossless widening (`u32::from(x)`, `x as u64`). -/
inductive AExp
  | var (i : Nat)
  | lit (n : Nat)
  | add (w : Nat) (a b : AExp)
  | sub (w : Nat) (a b : AExp)
  | mul (w : Nat) (a b : AExp)
  | satSub (a b : AExp)
  | satAdd (w : Nat) (a b : AExp)
  | widen (w : Nat) (a : AExp)
deriving Repr, DecidableEq

def AExp.eval (env : List Nat) : AExp → Except Panic Nat
  | .var i => .ok (env.getD i 0)
  | .lit n => .ok n
  | .add w a b =>
    match a.eval env, b.eval env with
    | .ok x, .ok y => uadd w x y
    | .error p, _ => .error p
    | _, .error p => .error p
  | .sub _ a b =>
    match a.eval env, b.eval env with
    | .ok x, .ok y => usub x y
    | .error p, _ => .error p
    | _, .error p => .error p
  | .mul w a b =>
    match a.eval env, b.eval env with
    | .ok x, .ok y => umul w x y
    | .error p, _ => .error p
    | _, .error p => .error p
  | .satSub a b =>
    match a.eval env, b.eval env with
    | .ok x, .ok y => .ok (saturatingSub x y)
    | .error p, _ => .error p
    | _, .error p => .error p
  | .satAdd w a b =>
    match a.eval env, b.eval env with
    | .ok x, .ok y => .ok (saturatingAdd w x y)
    | .error p, _ => .error p
    | _, .error p => .error p
  | .widen _ a => a.eval env

/-! ### Length guards and slices read from the Rust source -/

inductive Cmp | lt | le | gt | ge | eq | ne
deriving Repr, DecidableEq

def Cmp.holds : Cmp → Nat → Nat → Bool
  | .lt, a, b => a < b
  | .le, a, b => a ≤ b
  | .gt, a, b => a > b
  | .ge, a, b => a ≥ b
  | .eq, a, b => a == b
  | .ne, a, b => a != b

/-- One statement of a "decode then cut into fixed-size fields" routine, in source order. -/
inductive Step
  /-- `if bytes.len() <cmp> n { return Err(..) }` -/
  | guard (c : Cmp) (n : Nat)
  /-- `bytes[lo..hi]`, optionally followed by `.try_into::<[u8; arr]>().map_err(..)?` -/
  | slice (lo hi : Option Nat) (arr : Option Nat)
deriving Repr, DecidableEq

/-- Outcome of a parsing routine. -/
inductive Res (ε α : Type)
  | ok (v : α)
  | err (e : ε)
  | panic (p : Panic)
deriving Repr, DecidableEq

def Res.isPanic {ε α : Type} : Res ε α → Bool
  | .panic _ => true
  | _ => false

def Res.isOk {ε α : Type} : Res ε α → Bool
  | .ok _ => true
  | _ => false

/-- Run the guards and slices over the decoded bytes; the result is the list of fields cut out. -/
def runSteps (bytes : List Nat) : List Step → Res Unit (List (List Nat))
  | [] => .ok []
  | .guard c n :: rest =>
    if c.holds bytes.length n then .err () else runSteps bytes rest
  | .slice lo hi arr :: rest =>
    match sliceOpt? bytes lo hi with
    | .error p => .panic p
    | .ok field =>
      if arr.any (· != field.length) then .err () else
      match runSteps bytes rest with
      | .ok fs => .ok (field :: fs)
      | .err e => .err e
      | .panic p => .panic p

end SafeNet.Panic
