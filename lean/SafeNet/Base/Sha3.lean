/-!
SHA3-256 (FIPS 202: Keccak-f[1600], rate 136, domain byte 0x06) as an executable, import-free definition over byte
lists.  `XorName::from_content` (xor_name, via tiny-keccak `Sha3::v256`) is this function; it derives chunk addresses,
register / scratchpad / transaction names and `XorName::from_content(&record.value)` content hashes.  Tied to the real
crate by the correspondence run (every `content-hash` op line is a test vector).
-/
namespace SafeNet.Sha3

def RC : Array UInt64 := #[
  0x0000000000000001, 0x0000000000008082, 0x800000000000808a, 0x8000000080008000,
  0x000000000000808b, 0x0000000080000001, 0x8000000080008081, 0x8000000000008009,
  0x000000000000008a, 0x0000000000000088, 0x0000000080008009, 0x000000008000000a,
  0x000000008000808b, 0x800000000000008b, 0x8000000000008089, 0x8000000000008003,
  0x8000000000008002, 0x8000000000000080, 0x000000000000800a, 0x800000008000000a,
  0x8000000080008081, 0x8000000000008080, 0x0000000080000001, 0x8000000080008008]

def rotc : Array UInt64 := #[1, 3, 6, 10, 15, 21, 28, 36, 45, 55, 2, 14, 27, 41, 56, 8, 25, 43, 62, 18, 39, 61, 20, 44]
def piln : Array Nat := #[10, 7, 11, 17, 18, 3, 5, 16, 8, 21, 24, 4, 15, 23, 19, 13, 12, 2, 20, 14, 22, 9, 6, 1]

def rotl (x : UInt64) (n : UInt64) : UInt64 := (x <<< n) ||| (x >>> (64 - n))

/-- one round of Keccak-f[1600] on 25 lanes (index `x + 5*y`) -/
def round (st : Array UInt64) (rc : UInt64) : Array UInt64 := Id.run do
  let mut st := st
  -- θ
  let mut bc : Array UInt64 := Array.replicate 5 0
  for i in [0:5] do
    bc := bc.set! i (st[i]! ^^^ st[i + 5]! ^^^ st[i + 10]! ^^^ st[i + 15]! ^^^ st[i + 20]!)
  for i in [0:5] do
    let t := bc[(i + 4) % 5]! ^^^ rotl bc[(i + 1) % 5]! 1
    for j in [0:5] do
      st := st.set! (5 * j + i) (st[5 * j + i]! ^^^ t)
  -- ρ and π
  let mut t := st[1]!
  for i in [0:24] do
    let j := piln[i]!
    let b := st[j]!
    st := st.set! j (rotl t rotc[i]!)
    t := b
  -- χ
  for j in [0:5] do
    let row := (List.range 5).map (fun i => st[5 * j + i]!)
    for i in [0:5] do
      st := st.set! (5 * j + i) (row[i]! ^^^ ((~~~ row[(i + 1) % 5]!) &&& row[(i + 2) % 5]!))
  -- ι
  st := st.set! 0 (st[0]! ^^^ rc)
  return st

def keccakF (st : Array UInt64) : Array UInt64 := RC.foldl round st

def rate : Nat := 136

/-- little-endian lane from 8 bytes -/
def lane (bs : List Nat) : UInt64 :=
  UInt64.ofNat ((bs.zipIdx.map (fun (b, i) => (b % 256) <<< (8 * i))).foldl (· + ·) 0)

def lanes : Nat → List Nat → List UInt64
  | 0, _ => []
  | n + 1, bs => lane (bs.take 8) :: lanes n (bs.drop 8)

/-- absorb one `rate`-byte block -/
def absorb (st : Array UInt64) (block : List Nat) : Array UInt64 :=
  let ls := lanes (rate / 8) block
  keccakF ((List.range 25).map (fun i => if i < ls.length then st[i]! ^^^ ls[i]! else st[i]!)).toArray

/-- pad10*1 after the domain bits `d` (`0x06` for SHA-3, `0x01` for the original Keccak): `d … 0x80`, one byte
`d ||| 0x80` when exactly one byte is missing -/
def padD (d : Nat) (msg : List Nat) : List Nat :=
  let q := rate - msg.length % rate
  if q = 1 then msg ++ [d + 0x80] else msg ++ [d] ++ List.replicate (q - 2) 0 ++ [0x80]

def blocks : Nat → List Nat → Array UInt64 → Array UInt64
  | 0, _, st => st
  | n + 1, bs, st => blocks n (bs.drop rate) (absorb st (bs.take rate))

def laneBytes (w : UInt64) : List Nat := (List.range 8).map (fun i => (w.toNat >>> (8 * i)) % 256)

/-- the 256-bit sponge output with domain bits `d`, 32 bytes -/
def hashBytesD (d : Nat) (msg : List Nat) : List Nat :=
  let p := padD d (msg.map (· % 256))
  let st := blocks (p.length / rate) p (Array.replicate 25 0)
  laneBytes st[0]! ++ laneBytes st[1]! ++ laneBytes st[2]! ++ laneBytes st[3]!

/-- SHA3-256 digest, 32 bytes -/
def hashBytes (msg : List Nat) : List Nat := hashBytesD 0x06 msg

/-- Keccak-256 (the pre-standard padding Ethereum uses; `evmlib::cryptography::hash`), 32 bytes -/
def keccak256 (msg : List Nat) : List Nat := hashBytesD 0x01 msg

theorem laneBytes_length (w : UInt64) : (laneBytes w).length = 8 := by simp [laneBytes]

theorem hashBytesD_length (d : Nat) (msg : List Nat) : (hashBytesD d msg).length = 32 := by
  simp [hashBytesD, laneBytes_length]

/-- every digest has 32 bytes -/
theorem hashBytes_length (msg : List Nat) : (hashBytes msg).length = 32 := hashBytesD_length _ _
theorem keccak256_length (msg : List Nat) : (keccak256 msg).length = 32 := hashBytesD_length _ _

theorem laneBytes_lt (w : UInt64) : ∀ b ∈ laneBytes w, b < 256 := by
  intro b hb
  simp only [laneBytes, List.mem_map] at hb
  obtain ⟨i, _, rfl⟩ := hb
  exact Nat.mod_lt _ (by decide)

theorem hashBytesD_lt (d : Nat) (msg : List Nat) : ∀ b ∈ hashBytesD d msg, b < 256 := by
  intro b hb
  simp only [hashBytesD, List.mem_append] at hb
  rcases hb with ((h | h) | h) | h <;> exact laneBytes_lt _ _ h

/-- every digest byte is a byte -/
theorem hashBytes_lt (msg : List Nat) : ∀ b ∈ hashBytes msg, b < 256 := hashBytesD_lt _ _

def hexNat (bs : List Nat) : Nat := bs.foldl (fun a b => a * 256 + b) 0

-- FIPS 202 test vectors (evaluated by the compiler at build time; the run-time tie is the correspondence)
#guard hexNat (hashBytes []) = 0xa7ffc6f8bf1ed76651c14756a061d662f580ff4de43b49fa82d80a4b80f8434a
#guard hexNat (hashBytes [0x61, 0x62, 0x63]) = 0x3a985da74fe225b2045c172d6bd390bd855f086e3e9d525b46bfe24511431532
#guard hexNat (hashBytes (List.replicate 200 0xa3)) = 0x79f38adec5c20307a98ef76e8324afbfd46cfd81b22e3973c65fa1bd9de31787

-- Keccak-256 of the empty string and of "abc" (Ethereum's well-known values)
#guard hexNat (keccak256 []) = 0xc5d2460186f7233c927e7db2dcc703c0e500b653ca82273b7bfad8045d85a470
#guard hexNat (keccak256 [0x61, 0x62, 0x63]) = 0x4e03657aea45a94fc7d47ba826c8d667c0d1e6e33a64a036ec44f58fa12d6c45

end SafeNet.Sha3
