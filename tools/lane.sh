#!/bin/sh
# tools/lane.sh <N> <command…> — run a command in "lane" N: a private mount namespace in which /repo and /verif are
# full private copies (made under /var/tmp/lanes/N, build output included, mtimes preserved so nothing rebuilds), so that
# several seeded / benign patches can be trialled at once without touching the real /repo or each other's verdicts.
# The copies are re-synchronised at every call from the last commits of /repo and /verif.  Evidence written in a lane stays
# in the lane: committed evidence only ever comes from /verif run against /repo itself.
N="$1"; shift
L=/var/tmp/lanes/$N
mkdir -p $L
if [ ! -d $L/repo/.git ]; then
  cp -a /repo $L/repo
fi
if [ ! -d $L/verif/harness ]; then
  mkdir -p $L/verif
  rsync -a --exclude /work --exclude /replays /verif/ $L/verif/
fi
# bring sources up to date (build output kept). /repo and /verif: their last COMMITS (other
# work — builders' half-edited files, hand mutations under trial — may be in the working trees); only files whose content changed are touched, so cargo and lake
# rebuild only what changed.
if [ -n "$LANE_REPO_WORKTREE" ]; then
  # on request: /repo as it is in the working tree (uncommitted edits included)
  rsync -a --delete --exclude /target /repo/ $L/repo/
else
  rsync -a --delete /repo/.git/ $L/repo/.git/
  EXPR=/var/tmp/lanes/_exportr.$$
  rm -rf $EXPR && mkdir -p $EXPR && git -C /repo archive HEAD | tar -x -C $EXPR
  rsync -rlpc --delete --exclude /.git --exclude /target $EXPR/ $L/repo/
  rm -rf $EXPR
fi
EXP=/var/tmp/lanes/_export.$$
rm -rf $EXP && mkdir -p $EXP && git -C /verif archive HEAD | tar -x -C $EXP
rsync -rlpc --delete --exclude /work --exclude /replays --exclude '/harness/target*' --exclude /lean/.lake \
      --exclude /.lock --exclude /.lock-seed --exclude /.lock-lake $EXP/ $L/verif/
rm -rf $EXP
mkdir -p $L/verif/work
exec unshare -m sh -c "mount --bind $L/repo /repo && mount --bind $L/verif /verif && cd /verif && exec \"\$@\"" lane "$@"
