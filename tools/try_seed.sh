#!/bin/sh
# tools/try_seed.sh <patch.diff> <Cxx> [tier] — apply a seeded change to /repo, run the check, undo the change.
# (reverts with `git apply -R`, so uncommitted work in /repo is left alone)
P="$1"; ID="$2"; TIER="${3:-quick}"
cd /verif
git -C /repo apply "$P" || { echo "patch does not apply"; exit 2; }
./check "$ID" "$TIER"; RC=$?
git -C /repo apply -R "$P" || echo "WARNING: could not revert $P"
echo "try_seed: check exit $RC"
exit $RC
