#!/bin/sh
# tools/try_seed.sh <patch.diff> <Cxx> [tier] — apply a seeded change to /repo, run the check, undo the change.
# (reverts with `git apply -R`, so uncommitted work in /repo is left alone)
P="$1"; ID="$2"; TIER="${3:-quick}"
cd /verif
# one seeded change at a time in /repo: overlapping seeds contaminate each other's verdicts
exec 9>>/verif/.lock-seed
flock 9
export VERIF_SEED_LOCK_HELD=1
git -C /repo apply "$P" || { echo "patch does not apply"; exit 2; }
cp evidence/$ID.json /tmp/evidence-$ID.bak 2>/dev/null
./check "$ID" "$TIER"; RC=$?
git -C /repo apply -R "$P" || echo "WARNING: could not revert $P"
cp /tmp/evidence-$ID.bak evidence/$ID.json 2>/dev/null   # evidence/ must only ever hold clean-tree runs
# bring the generated Lean files back to the clean tree's state
./harness/target/debug/rs2lean /repo lean/SafeNet/Gen >/dev/null 2>&1
echo "try_seed: check exit $RC"
exit $RC
