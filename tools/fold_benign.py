#!/usr/bin/env python3
"""tools/fold_benign.py <tsv>… — fold regress_benign results (name property exit verdict…) into benign/<name>/meta.json 'results'."""
import json, os, sys
V = os.path.dirname(os.path.dirname(os.path.abspath(__file__)))
for f in sys.argv[1:]:
    for l in open(f):
        w = l.split()
        if len(w) < 4 or not os.path.isdir(os.path.join(V, "benign", w[0])):
            continue
        mp = os.path.join(V, "benign", w[0], "meta.json")
        m = json.load(open(mp))
        m.setdefault("results", {})[w[1]] = " ".join(w[3:])
        json.dump(m, open(mp, "w"), indent=1)
print("folded")
