#!/bin/sh
# tools/run_all.sh [tier] — run every claimed check on the current tree (refreshes evidence/); prints one line per property.
cd /verif
TIER="${1:-quick}"
for p in $(cat tools/ready.txt); do
  ./check $p $TIER > work/run_all_$p.log 2>&1; rc=$?
  echo "$p exit=$rc $(grep -c '^KNOWN-FINDING' work/run_all_$p.log) known; $(grep 'done in' work/run_all_$p.log | sed 's/\[check\] //')"
done
# keep the snapshot of the generated definitions (the check's fall-back when the translator cannot read a rewritten
# source) in step with the clean tree: only refreshed when /repo has no uncommitted change and the translator reads everything
if [ -z "$(git -C /repo status --porcelain --untracked-files=no)" ] && ./harness/target/debug/rs2lean /repo lean/SafeNet/Gen >/dev/null 2>&1; then
  mkdir -p lean/GenSnapshot && cp lean/SafeNet/Gen/*.lean lean/GenSnapshot/
  echo "GenSnapshot refreshed"
else
  echo "GenSnapshot NOT refreshed (repo dirty or translator failed)"
fi
