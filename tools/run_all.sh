#!/bin/sh
# tools/run_all.sh [tier] — run every claimed check on the current tree (refreshes evidence/); prints one line per property.
cd /verif
TIER="${1:-quick}"
for p in $(cat tools/ready.txt); do
  ./check $p $TIER > work/run_all_$p.log 2>&1; rc=$?
  echo "$p exit=$rc $(grep -c '^KNOWN-FINDING' work/run_all_$p.log) known; $(grep 'done in' work/run_all_$p.log | sed 's/\[check\] //')"
done
