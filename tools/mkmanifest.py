#!/usr/bin/env python3
"""Regenerate /verif/MANIFEST.json from checks/C*.json (claimed) and tools/not_applicable.json."""
import glob, json, os
V = os.path.dirname(os.path.dirname(os.path.abspath(__file__)))
claimed = {}
ready = set(open(os.path.join(V, "tools", "ready.txt")).read().split())  # properties whose check the coordinator has verified on the unchanged tree
for p in sorted(glob.glob(os.path.join(V, "checks", "C*.json"))):
    c = json.load(open(p))
    if c["property_id"] in ready:
        claimed[c["property_id"]] = c
repo_hooks = json.load(open(os.path.join(V, "tools", "hooks.json")))
m = {
    "version": 1,
    "setup_cmd": "./setup.sh",
    "hooks": repo_hooks,
    "engines": [
        {"name": "lean-proofs", "path": "lean/", "serves_properties": sorted(claimed), "kind_free_text": "Lean 4 models (Model/, Gen/) with kernel-checked theorems (Props/, Proofs/); compiled per-component drivers replay op files"},
        {"name": "rs2lean", "path": "harness/rs2lean", "serves_properties": sorted(k for k, c in claimed.items() if c.get("gen")), "kind_free_text": "syn-based translator regenerating lean/SafeNet/Gen/*.lean from /repo on every run"},
        {"name": "harness", "path": "harness/", "serves_properties": sorted(claimed), "kind_free_text": "Rust correspondence harness calling the real crates in-process, plus model-independent oracles"},
    ],
    "checks": [],
    "not_applicable": [],
    "notes": "See DESIGN.md. Every check: translator -> lake build of the property's theorems -> axiom audit -> correspondence (real code vs Lean driver) -> oracle. known_findings.jsonl lists recorded findings and fixed: entries.",
}
for pid, c in sorted(claimed.items()):
    mf = c["manifest"]
    m["checks"].append({
        "property_id": pid,
        "quick_cmd": f"./check {pid} quick",
        "thorough_cmd": f"./check {pid} thorough",
        "evidence_file": f"evidence/{pid}.json",
        "replay_cmd_template": f"./check {pid} quick --replay {{path}}",
        "engine": "lean-proofs",
        "level_claimed": {"category": "proof", "text": mf["text"], "design_ref": mf["design_ref"]},
        "level_note": mf["note"],
        "technique": mf["technique"],
    })
na = json.load(open(os.path.join(V, "tools", "not_applicable.json")))
for i in range(1, 21):
    pid = f"C{i:02d}"
    if pid not in claimed:
        m["not_applicable"].append({"property_id": pid, "reason": na.get(pid, "not yet built in this snapshot (work in progress; see DESIGN.md §8 build order) — the technique applies and the property will be claimed")})
json.dump(m, open(os.path.join(V, "MANIFEST.json"), "w"), indent=1)
print("MANIFEST.json:", len(m["checks"]), "claimed,", len(m["not_applicable"]), "not claimed")
