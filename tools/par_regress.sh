#!/bin/sh
# tools/par_regress.sh <seeds|benign> <lanes> [pattern] — tools/regress_{seeds,benign}.sh spread over <lanes> lanes
# (tools/lane.sh); results are concatenated into work/par_regress_<kind>.tsv
KIND="$1"; LANES="${2:-4}"; PAT="${3:-*}"
cd /verif
DIR=seeded; [ "$KIND" = benign ] && DIR=benign
ls -d $DIR/$PAT | xargs -n1 basename > work/par_list.txt
i=0
for n in $(cat work/par_list.txt); do
  echo $n >> work/par_list.$((i % LANES)).txt.new
  i=$((i+1))
done
pids=""
for l in $(seq 0 $((LANES-1))); do
  [ -f work/par_list.$l.txt.new ] || continue
  mv work/par_list.$l.txt.new work/par_list.$l.txt
  (
    for n in $(cat work/par_list.$l.txt); do
      REGRESS_OUT=/verif/work/lane_regress.tsv tools/lane.sh $l tools/regress_$KIND.sh $n > work/par_lane_$l.log 2>&1
      grep -v 'REGRESS DONE' /var/tmp/lanes/$l/verif/work/lane_regress.tsv >> work/par_regress_$KIND.lane$l.tsv
      mkdir -p work/par_logs && cp /var/tmp/lanes/$l/verif/work/regress_$n.log /var/tmp/lanes/$l/verif/work/benign_${n}_*.log work/par_logs/ 2>/dev/null
    done
  ) &
  pids="$pids $!"
done
wait $pids
cat work/par_regress_$KIND.lane*.tsv | sort > work/par_regress_$KIND.tsv
rm -f work/par_regress_$KIND.lane*.tsv work/par_list.*
echo "results in work/par_regress_$KIND.tsv"
