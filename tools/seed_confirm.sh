#!/bin/sh
# tools/seed_confirm.sh <name> [lane] — coordinator-side confirmation of a freshly written seeded change in ${SEEDROOT:-/tmp/seed6}:
#   1. tools/verify_seed.sh in the agent's scratch worktree (demo fails with the change, passes without; existing tests unchanged)
#   2. trial of the property's quick check against the change in a lane (tools/lane.sh), never in /repo itself
N="$1"; LANE="${2:-0}"
SD=${SEEDROOT:-/tmp/seed6}/out/$N; WT=${SEEDROOT:-/tmp/seed6}/$N; ID=$(echo $N | cut -c1-3)
CRATE=$(python3 -c "import json;print(json.load(open('$SD/meta.json'))['crate'])")
DEMO=$(python3 -c "import json;print(json.load(open('$SD/meta.json')).get('demo_filter',''))")
export SEED_FEATURES="$(python3 -c "import json;print(json.load(open('$SD/meta.json')).get('features',''))")"
echo "### confirm $N crate=$CRATE demo=[$DEMO] features=[$SEED_FEATURES]"
/verif/tools/verify_seed.sh $WT $WT-target $SD "$CRATE" "$DEMO" 2>&1 | tail -40
echo "### trial in lane $LANE"
/verif/tools/lane.sh $LANE tools/try_seed.sh $SD/patch.diff $ID quick 2>&1 | grep -E '^VIOLATION|^KNOWN|BROKEN|component|theorems|oracle|done in|try_seed|NOTE|patch does not' | cut -c1-400
