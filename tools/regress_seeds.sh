#!/bin/sh
# tools/regress_seeds.sh [pattern] (results: work/regress_seeds.<pid>.tsv, or $REGRESS_OUT) — re-trial every kept seeded change (seeded/<name>/patch.diff, or patch.rebased.diff)
# against its own property's quick check; one line per seed in work/regress_seeds.tsv:
#   <name> <property> <exit> <verdict: input|no-input|holds|noapply>
cd /verif
OUT=${REGRESS_OUT:-work/regress_seeds.$$.tsv}
: > $OUT
for d in seeded/${1:-*}; do
  n=$(basename $d); c=${n%%-*}
  P=$d/patch.diff; [ -f $d/patch.rebased.diff ] && P=$d/patch.rebased.diff
  L=work/regress_$n.log
  tools/try_seed.sh /verif/$P $c quick > $L 2>&1; rc=$?
  if grep -q "patch does not apply" $L; then v=noapply
  elif grep -q "^VIOLATION.*no-failing-input-found" $L; then v=no-input
  elif grep -q "^VIOLATION" $L; then v=input
  else v=holds; fi
  echo "$n $c $rc $v" >> $OUT
done
echo REGRESS DONE >> $OUT
echo "results in $OUT"
