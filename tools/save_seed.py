#!/usr/bin/env python3
"""tools/save_seed.py <seed-out-dir> <name> <caught: yes|no|partial> <caught_by text> — keep a confirmed seeded change under /verif/seeded/<name>/."""
import json, os, shutil, sys
src, name, caught, by = sys.argv[1:5]
dst = os.path.join("/verif/seeded", name)
os.makedirs(dst, exist_ok=True)
for f in os.listdir(src):
    shutil.copy(os.path.join(src, f), dst)
mp = os.path.join(dst, "meta.json")
meta = json.load(open(mp)) if os.path.exists(mp) else {}
meta["coordinator_confirmed"] = "patch + demo applied in a scratch worktree by the coordinator (tools/verify_seed.sh): demo fails with the change, passes without; previously passing tests of the touched crate(s) still pass with it"
meta["check_result"] = {"caught": caught, "by": by, "how_run": "tools/try_seed.sh <patch> <property> (git apply to /repo, ./check, git apply -R)"}
json.dump(meta, open(mp, "w"), indent=1)
print("saved", dst)
