#!/bin/sh
# tools/regress_benign.sh [pattern] — apply every kept behaviour-preserving patch (benign/<name>/patch.diff) and run the
# quick checks listed in its meta.json; every line of work/regress_benign.tsv must say holds (exit 0):
#   <name> <property> <exit> <verdict: holds|holds-fallback|VIOLATION…>
cd /verif
OUT=${REGRESS_OUT:-work/regress_benign.$$.tsv}
: > $OUT
for d in benign/${1:-*}; do
  n=$(basename $d)
  for c in $(python3 -c "import json;print(' '.join(json.load(open('$d/meta.json'))['checks']))"); do
    L=work/benign_${n}_$c.log
    tools/try_seed.sh /verif/$d/patch.diff $c quick > $L 2>&1; rc=$?
    if grep -q "patch does not apply" $L; then v=noapply
    elif grep -q "^VIOLATION" $L; then v="$(grep '^VIOLATION' $L | head -1 | sed 's/ replay=[^ ]*//')"
    elif grep -q "NOTE translator could not read" $L; then v=holds-fallback
    else v=holds; fi
    echo "$n $c $rc $v" >> $OUT
  done
done
echo REGRESS DONE >> $OUT
echo "results in $OUT"
