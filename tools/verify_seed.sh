#!/bin/sh
# tools/verify_seed.sh <worktree> <targetdir> <seeddir> <crate> <demo test name/filter or ''> — confirm a seeded change independently:
#  with patch: existing tests of <crate> pass (stable ones), demo fails; without patch: demo passes.
WT="$1"; TD="$2"; SD="$3"; CRATE="$4"; DEMO="$5"
export CARGO_TARGET_DIR="$TD" CARGO_NET_OFFLINE=true USER=root HOME=/root
[ -n "$SEED_RUSTFLAGS" ] && export RUSTFLAGS="$SEED_RUSTFLAGS"
[ -n "$SEED_ENV" ] && export $SEED_ENV
# SEED_FEATURES: extra cargo args such as "--features vault,registers"; SEED_EXISTING: args for the existing-tests run (default: all)
cd "$WT" || exit 2
git reset -q --hard && git clean -fdq
git apply "$SD/patch.diff" || { echo "PATCH DOES NOT APPLY"; exit 2; }
git apply "$SD/demo.diff" || { echo "DEMO DOES NOT APPLY"; exit 2; }
echo "== with mutation: demo ($DEMO)"
cargo test --offline -p "$CRATE" $SEED_FEATURES $DEMO 2>&1 | grep -E "^test |test result|error(\[|:)" | tail -15
git reset -q --hard ; git clean -fdq
git apply "$SD/patch.diff"
echo "== with mutation: existing tests of $CRATE"
cargo test --offline -p "$CRATE" $SEED_FEATURES ${SEED_EXISTING:-} 2>&1 | grep -E "test result|FAILED|failed" | tail -12
git reset -q --hard ; git clean -fdq
git apply "$SD/demo.diff"
echo "== without mutation: demo"
cargo test --offline -p "$CRATE" $SEED_FEATURES $DEMO 2>&1 | grep -E "^test |test result|error(\[|:)" | tail -15
git reset -q --hard ; git clean -fdq
