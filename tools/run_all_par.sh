#!/bin/sh
# tools/run_all_par.sh [tier] [jobs] — as tools/run_all.sh, but <jobs> properties at a time (each check takes its own
# per-property lock and the lake lock only while lake runs). Prints one line per property; refreshes GenSnapshot at the end
# only on a clean /repo.
cd /verif
TIER="${1:-quick}"; JOBS="${2:-4}"
mkdir -p work
run_one() {
  p=$1
  ./check $p $TIER > work/run_all_$p.log 2>&1; rc=$?
  echo "$p exit=$rc $(grep -c '^KNOWN-FINDING' work/run_all_$p.log) known; $(grep 'done in' work/run_all_$p.log | sed 's/\[check\] //') $(grep -c '^VIOLATION' work/run_all_$p.log) violations"
}
# translate once up front so that parallel checks do not race on the generated files' first build
./harness/target/debug/rs2lean /repo lean/SafeNet/Gen >/dev/null 2>&1
n=0
for p in $(cat tools/ready.txt); do
  run_one $p &
  n=$((n+1))
  if [ $((n % JOBS)) -eq 0 ]; then wait; fi
done
wait
if [ -z "$(git -C /repo status --porcelain --untracked-files=no)" ] && ./harness/target/debug/rs2lean /repo lean/SafeNet/Gen >/dev/null 2>&1; then
  mkdir -p lean/GenSnapshot && cp lean/SafeNet/Gen/*.lean lean/GenSnapshot/
  echo "GenSnapshot refreshed"
else
  echo "GenSnapshot NOT refreshed (repo dirty or translator failed)"
fi
