#!/bin/sh
# tools/soak.sh <tier> <seed>… — run every check on the current tree with other generator seeds; any non-zero exit on the
# unchanged tree is a false alarm to be fixed in the machinery. Appends to work/soak.tsv: <seed> <tier> <property> <exit> <secs>
cd /verif
TIER="$1"; shift
for s in "$@"; do
  for p in $(cat tools/ready.txt); do
    t0=$(date +%s)
    VERIF_SEED=$s ./check $p $TIER > work/soak_${p}_$s.log 2>&1; rc=$?
    echo "$s $TIER $p $rc $(( $(date +%s) - t0 ))" >> work/soak.tsv
  done
done
echo "SOAK DONE $TIER $*" >> work/soak.tsv
