"""Per-property configuration for /verif/check."""

PROPS = {
    "C16": {
        "props_module": "SafeNet.Props.C16",
        "gen": ["Amount"],
        "components": [
            {"name": "amount", "package": "hlight", "driver": "amount", "n_quick": 5000, "n_thorough": 500000},
        ],
        "search": {"driver": "search-amount", "component": "amount"},
        "rule": "seeded generator: amounts around powers of ten / two, 2^64, 2^128, 2^256-1; decimal-grammar strings with "
                "boundary fraction lengths; malformed strings (radix prefixes, '_', signs, unicode, double dots); add/sub pairs. "
                "A case is non-trivial if its op line is distinct (FNV-64 of the text).",
        "trusted_base": ["ruint 1.12.3 `Uint::from_str`, `checked_add/sub/mul`, `Display` padding: modelled from source, tied by correspondence"],
        "assumptions": ["strings are valid UTF-8 (Rust &str)"],
    },
}
