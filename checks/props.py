"""Per-property configuration for /verif/check: one JSON file per property (checks/Cxx.json)."""
import glob
import json
import os

PROPS = {}
for _p in sorted(glob.glob(os.path.join(os.path.dirname(os.path.abspath(__file__)), "C*.json"))):
    _c = json.load(open(_p))
    PROPS[_c["property_id"]] = _c
