// C17: copy the source text of bin-private parsers of /repo into $OUT_DIR (see ../common/extract_fn.rs).
include!("../common/extract_fn.rs");

fn main() {
    println!("cargo:rerun-if-changed=build.rs");
    println!("cargo:rerun-if-changed=../common/extract_fn.rs");
    extract_fns(&[(
        "/repo/ant-node-manager/src/bin/cli/main.rs",
        &["parse_environment_variables"],
        "antctl_parse_environment_variables.rs",
    )]);
}
