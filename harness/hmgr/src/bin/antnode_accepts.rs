//! C20 component `antnode_accepts`: the REAL antnode binary (built from the working tree with the
//! verif cfg; `ANTNODE_VERIF_DUMP_OPTS` makes it print the parsed `Opt` and exit) is run on the
//! install-time and the upgrade-time argument lists the real manager code produces.
//! Correspondence: accept / reject (+ error class) against the Lean clap-subset parser.
//! Oracle: records antctl can produce are accepted, install and upgrade parse to the same `Opt`,
//! and every setting of the record shows up in the parsed `Opt` as intended.
//! Line protocol: `accept k=v …` (same records as component `upgrade`).
//! `lexprobe k=v …`: records with one value that is NOT lex-safe (starts with `-`, a `,` inside a list
//! element, a subcommand word as a value …): what the real clap makes of the strings the manager writes
//! for them, against the Lean tokeniser (`lex`). Accepted-but-differently-interpreted for a value antctl
//! itself can be given is an oracle failure; rejection is the known finding K-t-hyphen-value.
#[path = "upgrade/real.rs"]
mod real;

use common::{Out, Rng};
use real::*;
use std::panic::{catch_unwind, AssertUnwindSafe};
use std::path::{Path, PathBuf};
use std::process::Command;

fn build_antnode() -> Result<PathBuf, String> {
    if let Some(p) = std::env::var_os("ANTNODE_BIN") {
        return Ok(PathBuf::from(p));
    }
    let st = Command::new("cargo")
        .args(["build", "-q", "-p", "ant-node", "--bin", "antnode"])
        .current_dir("/verif/harness")
        .env("CARGO_NET_OFFLINE", "true")
        .output()
        .map_err(|e| format!("cargo: {e}"))?;
    if !st.status.success() {
        let err = String::from_utf8_lossy(&st.stderr);
        let first: Vec<&str> = err.lines().filter(|l| l.starts_with("error")).take(3).collect();
        return Err(format!("antnode does not build: {}", first.join(" / ")));
    }
    Ok(PathBuf::from("/verif/harness/target/debug/antnode"))
}

#[derive(Clone)]
struct Run {
    ok: bool,
    class: String,
    dump: String,
    /// `VERIF-CONVERTED key=value` lines: what main() derives from the parsed options
    conv: std::collections::BTreeMap<String, String>,
}

fn run(bin: &Path, args: &[String], cwd: &Path) -> Run {
    let o = Command::new(bin).args(args).env("ANTNODE_VERIF_DUMP_OPTS", "1").env_remove("ANT_PEERS").current_dir(cwd).output();
    match o {
        Err(e) => Run { ok: false, class: format!("spawn:{e}"), dump: String::new(), conv: Default::default() },
        Ok(o) => {
            let out = String::from_utf8_lossy(&o.stdout).to_string();
            let err = String::from_utf8_lossy(&o.stderr).to_string();
            if o.status.success() && out.trim_start().starts_with("Opt {") {
                let mut conv = std::collections::BTreeMap::new();
                let mut dump = String::new();
                for l in out.lines() {
                    match l.strip_prefix("VERIF-CONVERTED ") {
                        Some(kv) => {
                            let (k, v) = kv.split_once('=').unwrap_or((kv, ""));
                            conv.insert(k.to_string(), v.to_string());
                        }
                        None => {
                            dump.push_str(l);
                            dump.push('\n');
                        }
                    }
                }
                let compact: String = dump.chars().filter(|c| !c.is_whitespace()).collect();
                Run { ok: true, class: "ok".into(), dump: compact, conv }
            } else {
                let class = if err.contains("cannot be used with") {
                    "conflict"
                } else if err.contains("unexpected argument") || err.contains("unrecognized subcommand") {
                    "unknown"
                } else if err.contains("required arguments were not provided") {
                    "missing"
                } else if err.contains("cannot be used multiple times") {
                    "duplicate"
                } else if err.contains("invalid value") {
                    "value"
                } else if o.status.success() {
                    "no-dump"
                } else {
                    "other"
                };
                Run { ok: false, class: format!("err:{class}"), dump: err.lines().next().unwrap_or("").to_string(), conv: Default::default() }
            }
        }
    }
}

/// What systemd starts for the definition, going by the unit file the shipped systemd backend writes for it:
/// `exp` (the ExecStart value contains a specifier / variable / escape / unbalanced quote / lone `;`: not interpreted),
/// `prog` (the first word is not the installed program: systemd is told to execute something else), or the REAL antnode
/// binary's verdict on the re-tokenised argument words.
fn unit_run(bin: &Path, ctx: &service_manager::ServiceInstallCtx, cwd: &Path, scratch: &Path, direct: &Run) -> (String, Option<Run>) {
    let unit = match render_systemd_unit(ctx, scratch) {
        Ok(u) => u,
        Err(e) => return (format!("render-error:{}", e.replace(' ', "_")), None),
    };
    let value = unit_exec_line(&unit).and_then(|l| l.strip_prefix("ExecStart=")).unwrap_or("");
    match systemd_split(value) {
        None => ("exp".into(), None),
        Some(ws) if ws.is_empty() => ("exp".into(), None),
        Some(ws) => {
            if ws[0] != ctx.program.to_string_lossy() {
                return ("prog".into(), None);
            }
            // the same word list as the direct run gets the same verdict: no second process
            let r = if ws[1..] == argv(ctx)[..] { direct.clone() } else { run(bin, &ws[1..], cwd) };
            (r.class.clone(), Some(r))
        }
    }
}

/// (family, what is made unsafe): one user string that the unquoted unit file does not carry faithfully
const UNIT_PROBES: &[(&str, &str)] = &[
    ("log-dir-blank", "my logs"),
    ("data-dir-blank", "my disk"),
    ("owner-flag-injection", "bob --home-network"),
    ("owner-quoted", "\"a b\""),
    ("owner-percent", "100%h"),
    ("owner-dollar", "$HOME"),
    ("owner-backslash", "a\\b"),
    ("owner-semicolon", ";"),
    ("owner-empty", ""),
    ("url-blank", "http://host/path with space/x.json"),
];

fn dump_home(dump: &str) -> &'static str {
    if dump.contains("home_network:true,") {
        "T"
    } else if dump.contains("home_network:false,") {
        "F"
    } else {
        "?"
    }
}

/// what the parsed `Opt` must contain for this record (compact `{:#?}` fragments)
fn intended(rec: &Rec, root: &Path, port_override: Option<String>) -> Vec<String> {
    let r = root.to_string_lossy().to_string();
    let sub = |s: String| s.replace("$R", &r);
    let b = |k: &str| rec.flag(k);
    let opt_num = |k: &str| match rec.some(k) {
        Some(v) => format!("Some({v},),"),
        None => "None,".into(),
    };
    let mut v = vec![
        format!("home_network:{},", b("options.home_network")),
        format!("upnp:{},", b("options.upnp")),
        format!("log_output_dest:Path({:?},),", sub(rec.some("service_log_dir_path").unwrap_or_default())),
        match rec.some("options.log_format").as_deref() {
            Some("json") => "log_format:Some(Json,),".to_string(),
            Some("default") => "log_format:Some(Default,),".to_string(),
            _ => "log_format:None,".to_string(),
        },
        format!("max_log_files:{}", opt_num("options.max_log_files")),
        format!("max_archived_log_files:{}", opt_num("options.max_archived_log_files")),
        format!("network_id:{}", opt_num("options.network_id")),
        format!("rewards_address:Some(\"{}\",),", rec.some("options.rewards_address").unwrap_or_default()),
        format!("root_dir:Some({:?},),", sub(rec.some("service_data_dir_path").unwrap_or_default())),
        format!(",port:{},", port_override.or_else(|| rec.some("node_port")).unwrap_or_else(|| "0".into())),
        format!(",ip:{},", rec.some("options.node_ip").unwrap_or_else(|| "0.0.0.0".into())),
        format!("rpc:Some({},),", rec.some("rpc_socket_addr").unwrap_or_default()),
        match rec.some("options.owner") {
            // intended: the owner in lower case (Unicode), as documented by `antctl add`
            Some(o) => format!("owner:Some({:?},),", o.to_lowercase()),
            None => "owner:None,".into(),
        },
        format!("metrics_server_port:{},", rec.some("metrics_free_port").unwrap_or_else(|| "0".into())),
    ];
    let list = |k: &str, quote: bool| -> String {
        let l = rec.list(k);
        if l.is_empty() {
            "[],".to_string()
        } else {
            format!("[{}],", l.iter().map(|x| if quote { format!("{x:?},") } else { format!("{x},") }).collect::<String>())
        }
    };
    v.push(format!(
        "peers:PeersArgs{{first:{},addrs:{}network_contacts_url:{}local:{},disable_mainnet_contacts:{},ignore_cache:{},bootstrap_cache_dir:{}}},",
        b("options.peers_args.first"),
        list("options.peers_args.addrs", false),
        list("options.peers_args.network_contacts_url", true),
        b("options.peers_args.local"),
        b("options.peers_args.disable_mainnet_contacts"),
        b("options.peers_args.ignore_cache"),
        // a directory given on antctl's own command line (`@cli_cache`) is what the user asked for; else the default
        match rec.some("@cli_cache").or_else(|| rec.some("options.peers_args.bootstrap_cache_dir")) {
            Some(d) => format!("Some({:?},),", sub(d)),
            None => "None,".into(),
        }
    ));
    let v_evm = match rec.get("options.evm_network") {
        Some("e:ArbitrumOne") => "evm_network:Some(EvmArbitrumOne,),".to_string(),
        Some("e:ArbitrumSepolia") => "evm_network:Some(EvmArbitrumSepolia,),".to_string(),
        _ => format!(
            "evm_network:Some(EvmCustom{{rpc_url:\"{}\",payment_token_address:\"{}\",data_payments_address:\"{}\",}},),",
            rec.some("options.evm_network.rpc_url_http").unwrap_or_default(),
            rec.some("options.evm_network.payment_token_address").unwrap_or_default(),
            rec.some("options.evm_network.data_payments_address").unwrap_or_default()
        ),
    };
    v.push(v_evm);
    // the dump is compared with all white space removed
    v.into_iter().map(|f| f.chars().filter(|c| !c.is_whitespace()).collect()).collect()
}

/// what main() must derive from the arguments for this record: the configuration the node actually runs
/// with, after the conversions applied to the parsed `Opt` (EVM network, rewards address, listen address,
/// root dir, log destination / format, network id, bootstrap cache file, metrics port)
fn intended_converted(rec: &Rec, root: &Path, port_override: Option<String>) -> Vec<(String, String)> {
    let r = root.to_string_lossy().to_string();
    let sub = |s: String| s.replace("$R", &r);
    let mut v: Vec<(String, String)> = vec![];
    match rec.get("options.evm_network") {
        Some("e:ArbitrumOne") => v.push(("evm_network".into(), "arbitrum-one".into())),
        Some("e:ArbitrumSepolia") => v.push(("evm_network".into(), "arbitrum-sepolia".into())),
        _ => {
            v.push(("evm_network".into(), "custom".into()));
            v.push(("evm_rpc_url".into(), rec.some("options.evm_network.rpc_url_http").unwrap_or_default()));
            v.push(("evm_payment_token_address".into(), rec.some("options.evm_network.payment_token_address").unwrap_or_default()));
            v.push(("evm_data_payments_address".into(), rec.some("options.evm_network.data_payments_address").unwrap_or_default()));
        }
    }
    v.push(("rewards_address".into(), rec.some("options.rewards_address").unwrap_or_default()));
    v.push((
        "node_socket_addr".into(),
        format!("{}:{}", rec.some("options.node_ip").unwrap_or_else(|| "0.0.0.0".into()), port_override.or_else(|| rec.some("node_port")).unwrap_or_else(|| "0".into())),
    ));
    v.push(("root_dir".into(), sub(rec.some("service_data_dir_path").unwrap_or_default())));
    v.push(("log_output_dest".into(), sub(rec.some("service_log_dir_path").unwrap_or_default())));
    v.push((
        "log_format".into(),
        match rec.some("options.log_format").as_deref() {
            Some("json") => "Json".into(),
            _ => "Default".to_string(),
        },
    ));
    v.push(("metrics_server_port".into(), match rec.some("metrics_free_port") { Some(p) => format!("Some({p})"), None => "None".into() }));
    v
}

/// options whose value antctl prints from a typed value (`u8`/`u16`/`usize`/`Ipv4Addr`/`SocketAddr`/`Address`):
/// the printed text starts with a decimal digit (Lean: `WellFormatted`, `digitSources`)
const DIGIT_FLAGS: &[&str] = &[
    "--rpc",
    "--network-id",
    "--ip",
    "--port",
    "--metrics-server-port",
    "--max-archived-log-files",
    "--max-log-files",
    "--rewards-address",
    "--payment-token-address",
    "--data-payments-address",
];

/// first typed value of an argument list that does not print as its type does
fn typed_value_violation(args: &[String]) -> Option<String> {
    for w in args.windows(2) {
        if DIGIT_FLAGS.contains(&w[0].as_str()) && !w[1].chars().next().map(|c| c.is_ascii_digit()).unwrap_or(false) {
            return Some(format!("{} {}", w[0], w[1]));
        }
        // … and without white space, quotes, backslash, `%`, `$` (Lean: `TypedValuesPlain`)
        if DIGIT_FLAGS.contains(&w[0].as_str()) && !word_safe(&w[1]) {
            return Some(format!("{} {}", w[0], w[1]));
        }
        if w[0] == "--log-format" && w[1] != "json" && w[1] != "default" {
            return Some(format!("{} {}", w[0], w[1]));
        }
    }
    None
}

/// (family, key, value, antctl itself can be given this value): one value that is not lex-safe
const LEX_PROBES: &[(&str, &str, &str, bool)] = &[
    ("owner-hyphen", "options.owner", "s:-x", true),
    ("owner-help", "options.owner", "s:-h", true),
    ("owner-hyphen-number", "options.owner", "s:-1", true),
    ("owner-looks-like-flag", "options.owner", "s:--first", true),
    ("owner-looks-like-own-flag", "options.owner", "s:--owner", true),
    ("owner-escape", "options.owner", "s:--", true),
    ("owner-lone-hyphen", "options.owner", "s:-", true),
    ("owner-comma", "options.owner", "s:a,b", true),
    ("owner-subcommand-word", "options.owner", "s:evm-custom", true),
    ("owner-equals", "options.owner", "s:=x", true),
    ("cache-dir-hyphen", "options.peers_args.bootstrap_cache_dir", "s:-cache", true),
    ("url-hyphen", "options.peers_args.network_contacts_url", "l:-http://x/contacts", true),
    ("url-comma-inside", "options.peers_args.network_contacts_url", "l:http://h/x?a=1%2C2", false),
    ("url-only-comma", "options.peers_args.network_contacts_url", "l:%2C", false),
    ("url-empty-element", "options.peers_args.network_contacts_url", "l:,http://h/x", true),
    ("peer-comma-inside", "options.peers_args.addrs", "l:/dns4/a%2C/ip4/1.2.3.4/udp/1/quic-v1", false),
];

/// number of elements of a `Vec` field in the compact `{:#?}` dump (elements end with `,`; after clap's
/// split no element contains one)
fn dump_count(dump: &str, field: &str) -> String {
    let Some(i) = dump.find(&format!("{field}:[")) else { return "?".into() };
    let rest = &dump[i + field.len() + 2..];
    let Some(j) = rest.find(']') else { return "?".into() };
    rest[..j].matches(',').count().to_string()
}

fn dump_owner(dump: &str) -> String {
    if dump.contains("owner:None,") {
        return "-".into();
    }
    let Some(i) = dump.find("owner:Some(\"") else { return "?".into() };
    let rest = &dump[i + "owner:Some(\"".len()..];
    match rest.find("\",)") {
        Some(j) => esc(&rest[..j]),
        None => "?".into(),
    }
}

/// the PeersArgs rules antctl's own parser enforces on its input
fn antctl_can_produce(rec: &Rec) -> bool {
    let first = rec.flag("options.peers_args.first");
    let local = rec.flag("options.peers_args.local");
    let addrs = !rec.list("options.peers_args.addrs").is_empty();
    let urls = !rec.list("options.peers_args.network_contacts_url").is_empty();
    !(first && (addrs || urls)) && !(local && urls)
}

fn main() {
    let args = common::parse_args();
    std::panic::set_hook(Box::new(|_| {}));
    let mut out = Out::new(&args.out);
    let mut rng = Rng::new(args.seed ^ 0xC20);
    let rt = tokio::runtime::Builder::new_current_thread().enable_all().build().expect("rt");
    // build before HOME is redirected (rustup resolves the toolchain through HOME)
    let bin = match build_antnode() {
        Ok(b) => b,
        Err(e) => {
            out.line("accept", format!("antnode-build-failed {e}"));
            out.oracle_fail("antnode-builds", "accept", &e);
            out.finish();
            return;
        }
    };
    let root: PathBuf = args.out.join("fs");
    std::env::set_var("HOME", root.join("home"));
    std::env::remove_var("XDG_DATA_HOME");
    std::env::set_var("USER", "root");
    let scratch: PathBuf = args.out.join("scratch");
    if root.to_string_lossy().chars().any(|c| !(c.is_ascii_alphanumeric() || "/-_.".contains(c))) {
        eprintln!("harness infrastructure failure: the scratch root {root:?} must consist of plain characters");
        std::process::exit(3);
    }
    let rule = upgrade_autostart_rule();

    let mut lines: Vec<String> = vec![];
    if let Some(p) = &args.replay {
        lines = common::read_lines(p).into_iter().filter(|l| l.starts_with("accept ") || l.starts_with("lexprobe ") || l.starts_with("unitprobe ")).collect();
    } else {
        let all = (1u64 << N_BITS) - 1;
        let mut pats: Vec<(u64, u64)> = vec![(0, 0), (0, 1), (0, 2), (all & !(1 << 3), 2)];
        for i in 0..N_BITS {
            pats.push((1 << i, (i % 3) as u64));
        }
        while (pats.len() as u64) < args.n {
            let mut bits = rng.next() & all;
            if rng.chance(3, 4) {
                // make it a record antctl can parse: --first excludes peers/urls, --local excludes urls
                let (first, local, addrs, urls) = (3, 4, 19, 20);
                if bits >> first & 1 == 1 {
                    bits &= !(1 << addrs) & !(1 << urls);
                }
                if bits >> local & 1 == 1 {
                    bits &= !(1 << urls);
                }
            }
            pats.push((bits, rng.below(3)));
        }
        pats.truncate(args.n.max(1) as usize);
        for (bits, evm) in pats {
            let mut rec = gen_record(bits, evm, &mut rng);
            // the environment circumstances do not reach the command line; the daemon's restart is component `upgrade`'s
            rec.0.retain(|(k, _)| k != "@provided" && k != "@prev" && k != "@later" && k != "@drestart" && !k.starts_with("~."));
            // value class outside what antctl is asked to pin: metrics port 0 (antnode then demands --enable-metrics-server)
            if rec.some("metrics_free_port").is_some() && rng.chance(1, 12) {
                rec.set("metrics_free_port", "s:0");
            }
            lines.push(rec.line("accept"));
        }
        // values that are not lex-safe, one per record, on a plain record of each EVM network
        for (i, (_, key, val, _)) in LEX_PROBES.iter().enumerate() {
            let mut rec = gen_record(0, i as u64, &mut rng);
            rec.0.retain(|(k, _)| !(k.starts_with('@') && k != "@rpc_default_ip") && !k.starts_with("~."));
            rec.set(key, *val);
            lines.push(rec.line("lexprobe"));
        }
        // user strings the unquoted unit file does not carry faithfully, one per record
        for (i, (family, val)) in UNIT_PROBES.iter().enumerate() {
            let mut rec = gen_record(0, i as u64, &mut rng);
            rec.0.retain(|(k, _)| !(k.starts_with('@') && k != "@rpc_default_ip") && !k.starts_with("~."));
            let name = rec.some("service_name").unwrap_or_default();
            // ordinary directories first (the generator's own classes contain blanks)
            rec.set_some("service_data_dir_path", &format!("$R/data/{name}"));
            rec.set_some("service_antnode_path", &format!("$R/data/{name}/antnode"));
            rec.set_some("service_log_dir_path", &format!("$R/log/{name}"));
            match *family {
                "log-dir-blank" => rec.set_some("service_log_dir_path", &format!("$R/{val}/{name}")),
                "data-dir-blank" => {
                    rec.set_some("service_data_dir_path", &format!("$R/{val}/{name}"));
                    rec.set_some("service_antnode_path", &format!("$R/{val}/{name}/antnode"));
                }
                "url-blank" => rec.set("options.peers_args.network_contacts_url", format!("l:{}", esc(val))),
                _ => rec.set_some("options.owner", val),
            }
            rec.set("@unitprobe", format!("s:{family}"));
            lines.push(rec.line("unitprobe"));
        }
    }

    for line in lines {
        let ws: Vec<&str> = line.split_whitespace().collect();
        let Some(rec) = Rec::parse(&ws[1..]) else {
            out.line(line.clone(), "bad-op");
            continue;
        };
        let built = catch_unwind(AssertUnwindSafe(|| build_real(&rec, &root, &rt, &rule)));
        let b = match built {
            Ok(Ok(mut bs)) if bs.len() == 1 => bs.remove(0),
            Ok(Ok(bs)) => {
                out.line(line.clone(), format!("error {} services", bs.len()));
                continue;
            }
            Ok(Err(e)) => {
                out.line(line.clone(), format!("error {}", e.replace('\n', " ")));
                out.oracle_fail("builds", &line, &e);
                continue;
            }
            Err(_) => {
                out.line(line.clone(), "panic");
                out.oracle_fail("no-panic", &line, "manager code panicked");
                continue;
            }
        };
        let ia = argv(&b.install);
        let ua = argv(&b.upgrade);
        let ri = run(&bin, &ia, &root);
        let ru = run(&bin, &ua, &root);
        let (xi, xri) = unit_run(&bin, &b.install, &root, &scratch, &ri);
        let (xu, xru) = unit_run(&bin, &b.upgrade, &root, &scratch, &ru);
        if ws[0] == "unitprobe" {
            let coarse = |c: &str| match c {
                "ok" => "ok".to_string(),
                "exp" | "prog" => c.to_string(),
                _ => "rej".to_string(),
            };
            let details = match &xri {
                Some(r) if r.ok => format!("owner={} home={}", dump_owner(&r.dump), dump_home(&r.dump)),
                _ => "owner=- home=-".to_string(),
            };
            out.line(line.clone(), format!("XI:{} XU:{} {}", coarse(&xi), coarse(&xu), details));
            let family = rec.some("@unitprobe").unwrap_or_else(|| "replayed".into());
            out.nontrivial_case(&format!("unitprobe {family}"));
            // the direct run (`Command::args`, what the `ServiceInstallCtx` means) is the intended reading
            let as_intended = match (&xri, ri.ok) {
                (Some(r), true) => r.ok && r.dump == ri.dump,
                _ => false,
            };
            let verdict = if !ri.ok {
                "direct-run-rejected"
            } else if as_intended {
                "read-as-intended"
            } else if xi == "ok" {
                "ACCEPTED-AND-MISREAD"
            } else if xi == "exp" {
                "expansion-dependent"
            } else if xi == "prog" {
                "other-executable"
            } else {
                "rejected"
            };
            out.count(&format!("unitprobe:{family}:{verdict}"));
            if xi != xu {
                out.oracle_fail("upgrade-unit-read-like-install", &line, &format!("unit verdict {xi} at installation, {xu} after upgrade"));
            }
            let _ = &xru;
            continue;
        }
        if ws[0] == "lexprobe" {
            let c = |r: &Run| if r.ok { "ok" } else { "rej" };
            let details = if ri.ok {
                format!("peers={} urls={} owner={}", dump_count(&ri.dump, "addrs"), dump_count(&ri.dump, "network_contacts_url"), dump_owner(&ri.dump))
            } else {
                "peers=- urls=- owner=-".to_string()
            };
            out.line(line.clone(), format!("I:{} U:{} {}", c(&ri), c(&ru), details));
            let probe = LEX_PROBES.iter().find(|(_, k, v, _)| rec.get(k) == Some(*v));
            let (family, producible) = probe.map(|p| (p.0, p.3)).unwrap_or(("replayed", true));
            out.count(&format!("lexprobe:{family}:install-{}:upgrade-{}", c(&ri), c(&ru)));
            out.nontrivial_case(&format!("lexprobe {family}"));
            if ri.ok != ru.ok || (ri.ok && ri.dump != ru.dump) {
                out.oracle_fail("upgrade-parses-like-install", &line, "antnode treats the regenerated strings differently from the installed ones");
            }
            if producible {
                // a value antctl itself can be given (`--owner=-x`): rejected = known finding K-t-hyphen-value;
                // accepted = must be interpreted as intended
                for (which, r) in [("install", &ri), ("upgrade", &ru)] {
                    if !r.ok {
                        out.count(&format!("lexprobe:antctl-producible-value-rejected-by-antnode:{which}"));
                        continue;
                    }
                    for frag in intended(&rec, &root, None) {
                        if !r.dump.contains(&frag) {
                            out.oracle_fail(
                                &format!("{which}-lex-unsafe-value-silently-misparsed"),
                                &line,
                                &format!("antnode accepts {:?} but the parsed Opt lacks `{frag}`: {}", if which == "install" { ia.join(" ") } else { ua.join(" ") }, r.dump),
                            );
                            break;
                        }
                    }
                }
            } else if ri.ok {
                // not producible through antctl's own parser (it splits at `,` first): observed only
                out.count(&format!("lexprobe:{family}:observed-{}", details.replace(' ', ",")));
            }
            continue;
        }
        out.line(line.clone(), format!("I:{} U:{} XI:{} XU:{}", ri.class, ru.class, xi, xu));
        out.count(&format!("install:{}", ri.class));
        out.count(&format!("upgrade:{}", ru.class));
        out.count(&format!("unit-install:{xi}"));
        out.count(&format!("unit-upgrade:{xu}"));
        let pat: String = rec.0.iter().map(|(k, v)| format!("{k}={}", if v.starts_with("s:") { "s" } else if v.starts_with("l:") && v.len() > 2 { "l" } else { v })).collect::<Vec<_>>().join(" ");
        out.nontrivial_case(&pat);

        let producible = antctl_can_produce(&rec) && rec.some("metrics_free_port").as_deref() != Some("0");
        if !producible {
            out.count("record:outside-antctl-input(not judged)");
            continue;
        }
        if !ri.ok {
            out.oracle_fail("antnode-accepts-install", &line, &format!("antnode rejects the installed arguments {:?}: {}", ia.join(" "), ri.dump));
            continue;
        }
        if !ru.ok {
            out.oracle_fail("antnode-accepts-upgrade", &line, &format!("antnode rejects the regenerated arguments {:?}: {}", ua.join(" "), ru.dump));
            continue;
        }
        for (which, a) in [("install", &ia), ("upgrade", &ua)] {
            if let Some(bad) = typed_value_violation(a) {
                out.oracle_fail(&format!("{which}-typed-values-print-as-their-types"), &line, &format!("`{bad}`: a typed setting that does not start with a digit / is no LogFormat word"));
            }
        }
        out.count("typed-values-checked");
        // the unit file: for definitions whose program path and argument strings are unit-safe, systemd must start the
        // installed program with arguments antnode reads exactly as it reads the `ServiceInstallCtx` itself
        for (which, ctx, x, xr, direct) in [("install", &b.install, &xi, &xri, &ri), ("upgrade", &b.upgrade, &xu, &xru, &ru)] {
            if !unit_safe(ctx) {
                out.count(&format!("unit:{which}:not-unit-safe(K-t-unit-unquoted, not judged):{x}"));
                continue;
            }
            match xr {
                Some(r) if r.ok && r.dump == direct.dump && r.conv == direct.conv => out.count(&format!("unit:{which}:read-as-intended")),
                _ => out.oracle_fail(&format!("{which}-rendered-unit-interpreted-as-intended"), &line, &format!("unit-safe definition, yet systemd's reading of the rendered unit gives `{x}`")),
            }
        }
        let listen = rec.some("@listen");
        for frag in intended(&rec, &root, None) {
            if !ri.dump.contains(&frag) {
                out.oracle_fail("install-interpreted-as-intended", &line, &format!("parsed Opt lacks `{frag}`: {}", ri.dump));
                break;
            }
        }
        for frag in intended(&rec, &root, listen.clone()) {
            if !ru.dump.contains(&frag) {
                out.oracle_fail("upgrade-interpreted-as-intended", &line, &format!("parsed Opt lacks `{frag}`: {}", ru.dump));
                break;
            }
        }
        for (which, run, port) in [("install", &ri, None), ("upgrade", &ru, listen.clone())] {
            for (k, want) in intended_converted(&rec, &root, port) {
                let got = run.conv.get(&k).cloned().unwrap_or_else(|| "<missing>".into());
                if got != want {
                    out.oracle_fail(
                        &format!("{which}-runs-with-intended-configuration"),
                        &line,
                        &format!("after antnode's own conversions {k} = {got}, antctl was asked for {want}"),
                    );
                    break;
                }
            }
            // network id: the protocol string ends with it (1 = main network when not given)
            let id = rec.some("options.network_id").unwrap_or_else(|| "1".into());
            let proto = run.conv.get("identify_protocol").cloned().unwrap_or_default();
            if !proto.ends_with(&format!("/{id}")) {
                out.oracle_fail(&format!("{which}-runs-with-intended-configuration"), &line, &format!("network id {id} asked for, identify protocol is {proto:?}"));
            }
            // bootstrap cache file inside the directory asked for
            let cache = run.conv.get("bootstrap_cache_path").cloned();
            let want_dir = rec.some("@cli_cache").or_else(|| rec.some("options.peers_args.bootstrap_cache_dir")).map(|d| d.replace("$R", &root.to_string_lossy()));
            let ok = match (&cache, &want_dir) {
                (None, None) => true,
                (Some(p), Some(d)) => Path::new(p).parent() == Some(Path::new(d)) && Path::new(p).file_name().map(|f| f.to_string_lossy().starts_with("bootstrap_cache_")).unwrap_or(false),
                _ => false,
            };
            if !ok {
                out.oracle_fail(&format!("{which}-runs-with-intended-configuration"), &line, &format!("bootstrap cache dir {want_dir:?} asked for, cache file is {cache:?}"));
            }
        }
        out.count("converted-configuration-compared");
        if listen.is_none() && (ri.dump != ru.dump || ri.conv != ru.conv) {
            out.oracle_fail("upgrade-parses-like-install", &line, "antnode parses the regenerated arguments to a different Opt than the installed ones");
        }
    }
    let _ = std::fs::remove_dir_all(&root);
    let _ = std::fs::remove_dir_all(&scratch);
    out.finish();
}
