//! C17 (node manager side): `PortRange::parse`/`validate`, `increment_port_option`,
//! `get_start_port_if_applicable`, `NodeRegistry::load`/`from_json`; real code under `catch_unwind`
//! vs. the Lean model (`drv_parsers`).
//!   portparse <s>                          PortRange::parse -> ok single p | ok range a b | err | panic
//!   validate single p c | range a b c      PortRange::validate(c) -> ok | err | panic
//!   incr none | <p>                        increment_port_option -> none | some p | panic
//!   startport none | single p | range a b  get_start_port_if_applicable -> none | some p
//!   registry <missing|b> <utf8> <tp>       NodeRegistry::load(path): utf8 = 1|0|na (std::str::from_utf8 on the bytes),
//!                                          tp = na | err | ok:<nodes> (serde_json::from_str::<NodeRegistry> called directly)
//!   logformat <s> | logdest <s>            ant_logging::LogFormat / LogOutputDest ::parse_from_str -> ok <name> | err | panic
//!   regsave <A> <B> <lenA> <lenB> <nB>     on ONE path: A.save(); B.save(); NodeRegistry::load(path). A, B = registry specs
//!                                          `nodes,envvars,envvaluelen,nat` (nat 0 = none, 1 Public, 2 UPnP, 3 Private);
//!                                          lenA/lenB = length of serde_json::to_string of each, nB = nodes of B (witnesses,
//!                                          computed by the harness) -> len=<file length> ok <nodes> same|differs | len=.. err | panic
use ant_node_manager::add_services::config::PortRange;
use ant_node_manager::helpers::{get_start_port_if_applicable, increment_port_option};
use ant_service_management::{NatDetectionStatus, NodeRegistry, NodeServiceData, ServiceStatus};
use common::{hex, unhex, Out, Rng};
use std::panic::{catch_unwind, AssertUnwindSafe};

#[path = "mgrparsers/extra.rs"]
mod extra;
#[path = "mgrparsers/consumers.rs"]
mod consumers;

fn s_of(h: &str) -> Option<String> {
    String::from_utf8(unhex(h)?).ok()
}

fn range_of(ws: &[&str]) -> Option<PortRange> {
    match ws {
        ["single", p] => Some(PortRange::Single(p.parse().ok()?)),
        ["range", a, b] => Some(PortRange::Range(a.parse().ok()?, b.parse().ok()?)),
        _ => None,
    }
}

fn exec(line: &str, tmp: &std::path::Path) -> (String, String) {
    let ws: Vec<&str> = line.split_whitespace().collect();
    let mut op = line.to_string();
    let r = catch_unwind(AssertUnwindSafe(|| -> String {
        match ws.as_slice() {
            ["portparse", h] => {
                let Some(s) = s_of(h) else { return "bad-op".into() };
                match PortRange::parse(&s) {
                    Ok(PortRange::Single(p)) => format!("ok single {p}"),
                    Ok(PortRange::Range(a, b)) => format!("ok range {a} {b}"),
                    Err(_) => "err".into(),
                }
            }
            ["validate", rest @ ..] if rest.len() >= 2 => {
                let (rng, c) = rest.split_at(rest.len() - 1);
                let (Some(r), Ok(c)) = (range_of(rng), c[0].parse::<u16>()) else { return "bad-op".into() };
                match r.validate(c) {
                    Ok(()) => "ok".into(),
                    Err(_) => "err".into(),
                }
            }
            ["incr", p] => {
                let arg = if *p == "none" { None } else { let Ok(p) = p.parse::<u16>() else { return "bad-op".into() }; Some(p) };
                match increment_port_option(arg) {
                    Some(p) => format!("some {p}"),
                    None => "none".into(),
                }
            }
            ["startport", rest @ ..] => {
                let arg = if rest == ["none"] { None } else { let Some(r) = range_of(rest) else { return "bad-op".into() }; Some(r) };
                match get_start_port_if_applicable(arg) {
                    Some(p) => format!("some {p}"),
                    None => "none".into(),
                }
            }
            ["registry", src, ..] => {
                let path = tmp.join("registry.json");
                let _ = std::fs::remove_file(&path);
                let (utf8, tp) = if *src == "missing" {
                    ("na".to_string(), "na".to_string())
                } else {
                    let Some(b) = unhex(src) else { return "bad-op".into() };
                    std::fs::write(&path, &b).expect("write registry file");
                    match std::str::from_utf8(&b) {
                        Err(_) => ("0".into(), "na".into()),
                        Ok("") => ("1".into(), "na".into()),
                        Ok(t) => ("1".into(), match serde_json::from_str::<NodeRegistry>(t) {
                            Ok(r) => format!("ok:{}", r.nodes.len()),
                            Err(_) => "err".into(),
                        }),
                    }
                };
                op = format!("registry {src} {utf8} {tp}");
                match NodeRegistry::load(&path) {
                    Ok(r) => format!("ok {}", r.nodes.len()),
                    Err(_) => "err".into(),
                }
            }
            ["logformat", h] => {
                let Some(s) = s_of(h) else { return "bad-op".into() };
                match ant_logging::LogFormat::parse_from_str(&s) {
                    Ok(f) => format!("ok {}", f.as_str()),
                    Err(_) => "err".into(),
                }
            }
            ["logdest", h] => {
                let Some(s) = s_of(h) else { return "bad-op".into() };
                match ant_logging::LogOutputDest::parse_from_str(&s) {
                    Ok(ant_logging::LogOutputDest::Stdout) => "ok stdout".into(),
                    Ok(ant_logging::LogOutputDest::Stderr) => "ok stderr".into(),
                    Ok(ant_logging::LogOutputDest::Path(_)) if s == "data-dir" => "ok data-dir".into(),
                    Ok(ant_logging::LogOutputDest::Path(p)) => if p == std::path::PathBuf::from(&s) { "ok path".into() } else { "ok other-path".into() },
                    Err(_) => "err".into(),
                }
            }
            ["regsave", a, b, ..] => {
                let path = tmp.join("regsave").join("registry.json");
                let _ = std::fs::remove_file(&path);
                let (Some(ra), Some(rb)) = (registry_of(a, &path), registry_of(b, &path)) else { return "bad-op".into() };
                let (ja, jb) = (serde_json::to_string(&ra).expect("json"), serde_json::to_string(&rb).expect("json"));
                op = format!("regsave {a} {b} {} {} {}", ja.len(), jb.len(), rb.nodes.len());
                if ra.save().is_err() || rb.save().is_err() {
                    return "save-err".into();
                }
                let len = std::fs::metadata(&path).map(|m| m.len()).unwrap_or(0);
                match NodeRegistry::load(&path) {
                    Ok(r) => {
                        let same = serde_json::to_string(&r).expect("json") == jb;
                        format!("len={len} ok {} {}", r.nodes.len(), if same { "same" } else { "differs" })
                    }
                    Err(_) => format!("len={len} err"),
                }
            }
            other => extra::exec(other, tmp, &mut op).or_else(|| consumers::exec(other, tmp, &mut op)).unwrap_or_else(|| "bad-op".into()),
        }
    }));
    (op, r.unwrap_or_else(|_| "panic".into()))
}

/// The property stated directly (no model): no panic; a parsed range is what the text denotes;
/// validate accepts exactly the true number of ports; the increment is exact or absent.
fn oracle(line: &str, res: &str, out: &mut Out) {
    if res == "panic" {
        out.oracle_fail("no-panic", line, "the routine panicked (caught by catch_unwind)");
        return;
    }
    let ws: Vec<&str> = line.split_whitespace().collect();
    match ws.as_slice() {
        ["validate", "range", a, b, c] => {
            let (a, b, c): (u64, u64, u64) = (a.parse().unwrap_or(0), b.parse().unwrap_or(0), c.parse().unwrap_or(0));
            let ports = if b >= a { b - a + 1 } else { 0 };
            if (res == "ok") != (c == ports) {
                out.oracle_fail("validate-exact", line, &format!("range holds {ports} ports, count {c}: got {res}"));
            }
        }
        ["validate", "single", _, c] => {
            if (res == "ok") != (*c == "1") {
                out.oracle_fail("validate-exact", line, &format!("single port, count {c}: got {res}"));
            }
        }
        ["regsave", ..] => {
            // where a formatter exists, parsing its output returns the original value — also over an existing file
            if !(res.contains(" ok ") && res.ends_with(" same")) {
                out.oracle_fail("roundtrip", line, &format!("save(A); save(B); load did not return B: {res}"));
            }
        }
        ["incr", p] if *p != "none" => {
            let p: u64 = p.parse().unwrap_or(0);
            let want = if p + 1 <= u16::MAX as u64 { format!("some {}", p + 1) } else { "none".into() };
            if res != want {
                out.oracle_fail("increment-exact", line, &format!("got {res}, expected {want}"));
            }
        }
        other => {
            extra::oracle(other, res, line, out);
            consumers::oracle(other, res, line, out);
        }
    }
}

fn hx(s: &str) -> String {
    hex(s.as_bytes())
}

fn port(rng: &mut Rng) -> u32 {
    match rng.below(8) {
        0 => 0,
        1 => 1,
        2 => 65535,
        3 => 65534,
        4 => 65536,
        5 => 32768,
        _ => rng.below(70000) as u32,
    }
}

fn sample_node(i: u16) -> NodeServiceData {
    NodeServiceData {
        antnode_path: "/bin/antnode".into(),
        auto_restart: false,
        connected_peers: None,
        data_dir_path: format!("/data/antnode{i}").into(),
        evm_network: Default::default(),
        home_network: false,
        listen_addr: None,
        log_dir_path: format!("/log/antnode{i}").into(),
        log_format: None,
        max_archived_log_files: None,
        max_log_files: None,
        metrics_port: Some(u16::MAX),
        owner: None,
        network_id: None,
        node_ip: None,
        node_port: Some(u16::MAX),
        number: i,
        peer_id: None,
        peers_args: Default::default(),
        pid: None,
        rewards_address: Default::default(),
        reward_balance: None,
        rpc_socket_addr: "127.0.0.1:65535".parse().expect("addr"),
        service_name: format!("antnode{i}"),
        status: ServiceStatus::Added,
        upnp: false,
        user: None,
        user_mode: false,
        version: "0.1.0".into(),
    }
}

/// registry from a spec `nodes,envvars,envvaluelen,nat`
fn registry_of(spec: &str, path: &std::path::Path) -> Option<NodeRegistry> {
    let f: Vec<usize> = spec.split(',').map(|x| x.parse().ok()).collect::<Option<Vec<_>>>()?;
    let [nodes, envs, envlen, nat] = f.as_slice() else { return None };
    if *nodes > 50 || *envs > 50 || *envlen > 10_000 {
        return None;
    }
    Some(NodeRegistry {
        auditor: None,
        daemon: None,
        environment_variables: if *envs == 0 && *envlen == 0 { None } else { Some((0..*envs).map(|i| (format!("VAR{i}"), "v".repeat(*envlen))).collect()) },
        faucet: None,
        nat_status: match nat { 0 => None, 1 => Some(NatDetectionStatus::Public), 2 => Some(NatDetectionStatus::UPnP), _ => Some(NatDetectionStatus::Private) },
        nodes: (1..=*nodes as u16).map(sample_node).collect(),
        save_path: path.to_path_buf(),
    })
}

fn registry_json(nodes: u16) -> String {
    let r = NodeRegistry {
        auditor: None,
        daemon: None,
        environment_variables: None,
        faucet: None,
        nat_status: None,
        nodes: (1..=nodes).map(sample_node).collect(),
        save_path: "/tmp/registry.json".into(),
    };
    serde_json::to_string(&r).expect("json")
}

/// boundary values for the stored numeric fields of a node entry (u16 number, u32 pid, u8 network id,
/// usize log-file limits, U256 reward balance); out-of-range ones must be rejected by the parser, not wrap
fn numeric_edge(rng: &mut Rng, good: &str) -> String {
    let (field, vals): (&str, &[&str]) = match rng.below(6) {
        0 => ("\"number\":1", &["\"number\":0", "\"number\":65535", "\"number\":65536", "\"number\":-1", "\"number\":1.0"]),
        1 => ("\"pid\":null", &["\"pid\":0", "\"pid\":4294967295", "\"pid\":4294967296", "\"pid\":-1"]),
        2 => ("\"network_id\":null", &["\"network_id\":0", "\"network_id\":255", "\"network_id\":256"]),
        3 => ("\"max_log_files\":null", &["\"max_log_files\":0", "\"max_log_files\":18446744073709551615", "\"max_log_files\":18446744073709551616"]),
        4 => ("\"max_archived_log_files\":null", &["\"max_archived_log_files\":18446744073709551615", "\"max_archived_log_files\":1e30"]),
        _ => ("\"reward_balance\":null", &[
            "\"reward_balance\":\"0x0\"",
            "\"reward_balance\":\"0xffffffffffffffffffffffffffffffffffffffffffffffffffffffffffffffff\"",
            "\"reward_balance\":\"0x1ffffffffffffffffffffffffffffffffffffffffffffffffffffffffffffffff\"",
            "\"reward_balance\":1",
            "\"reward_balance\":\"\"",
        ]),
    };
    let v: &str = *rng.pick(vals);
    good.replace(field, v)
}

/// Install a TRACE-level subscriber that really formats every event (into a sink), so that the
/// `Display`/`Debug` impls reached from the parsers' log statements are executed under `catch_unwind`.
/// "Long non-ASCII" family: strings of `fill` with one 2-, 3- or 4-byte char starting at every byte
/// offset 0..=max, once near the end of the string and once followed by padding up to `max` bytes
/// (slicing a &str at a fixed byte offset is the typical slip; it only fails inside such a char).
fn non_ascii_sweep(fill: char, max: usize) -> Vec<String> {
    let mut v = vec![];
    for off in 0..=max {
        for ch in ['é', '€', '😀'] {
            let head: String = std::iter::repeat(fill).take(off).collect();
            v.push(format!("{head}{ch}{fill}"));
            let used = off + ch.len_utf8();
            if used + 1 < max {
                let tail: String = std::iter::repeat(fill).take(max - used).collect();
                v.push(format!("{head}{ch}{tail}"));
            }
        }
    }
    v
}

fn install_formatting_subscriber() {
    let _ = tracing_subscriber::fmt()
        .with_max_level(tracing::Level::TRACE)
        .with_writer(std::io::sink)
        .try_init();
}

/// `common::parse_args` without its side effect of installing the process-wide tracing subscriber: here the
/// subscriber must be ant-logging's own (see `extra::init_logging`), and only one can ever be installed.
fn parse_args() -> common::Args {
    let mut it = std::env::args().skip(1);
    let mut a = common::Args { component: String::new(), seed: 1, n: 100, out: ".".into(), replay: None, extra: Default::default() };
    while let Some(k) = it.next() {
        let v = it.next().unwrap_or_default();
        match k.as_str() {
            "--seed" => a.seed = v.parse().expect("seed"),
            "--n" => a.n = v.parse().expect("n"),
            "--out" => a.out = v.into(),
            "--replay" => a.replay = Some(v.into()),
            other => {
                a.extra.insert(other.trim_start_matches("--").to_string(), v);
            }
        }
    }
    a
}

fn main() {
    let args = &parse_args();
    let mut out = Out::new(&args.out);
    std::panic::set_hook(Box::new(|_| {}));
    let tmp = tempfile::tempdir().expect("tempdir");
    // the launchpad's data / config directories live under the scratch directory
    std::env::set_var("XDG_DATA_HOME", tmp.path().join("data"));
    // ant-logging's own subscriber (formats every event of every target through its LogFormatter into files under
    // the scratch directory); the plain formatting subscriber is the fallback if that initialisation fails
    extra::init_logging(&tmp.path().join("logs"));
    install_formatting_subscriber();
    let lines: Vec<String> = if let Some(p) = &args.replay {
        common::read_lines(p)
    } else {
        let mut rng = Rng::new(args.seed);
        let mut v: Vec<String> = vec![];
        // past minimal failures first
        v.push(format!("portparse {}", hx("0-65535")));
        v.push("validate range 0 65535 1".into());
        v.push("validate range 0 65535 65535".into());
        v.push("validate range 1 65535 65535".into());
        v.push("validate range 10 5 1".into());
        v.push("incr 65535".into());
        v.push("incr 65534".into());
        v.push("incr none".into());
        v.push("registry missing x x".into());
        v.push("registry - x x".into());
        // save(long) ; save(short) ; load — and equal / longer / empty variants
        for (a, b) in [("2,2,40,1", "0,0,0,0"), ("3,0,0,0", "1,0,0,0"), ("1,1,100,2", "1,1,10,2"), ("1,1,10,2", "1,1,9,2"), ("1,0,0,1", "1,0,0,2"),
                       ("1,0,0,0", "1,0,0,0"), ("0,0,0,0", "2,1,5,3"), ("0,0,0,0", "0,0,0,0"), ("0,1,1,0", "0,1,0,0"), ("0,0,0,3", "0,0,0,0")] {
            v.push(format!("regsave {a} {b}"));
        }
        {
            let good = registry_json(1);
            for (a, b) in [("\"number\":1", "\"number\":65535"), ("\"number\":1", "\"number\":65536"), ("\"pid\":null", "\"pid\":4294967295"),
                           ("\"pid\":null", "\"pid\":4294967296"), ("\"max_log_files\":null", "\"max_log_files\":18446744073709551615")] {
                v.push(format!("registry {} x x", hex(good.replace(a, b).as_bytes())));
            }
        }
        for s in ["", "-", "+", "+1", "-1", "1-", "-1-2", "1-2-3", "1-1", "2-1", "1-2", "+1-+2", "00001-00002", "65535", "65536", "65535-65536", "0-65536",
                  "0-0", "1 - 2", " 1", "1\n", "１-２", "1–2", "0x10", "1_0", "١-٢", "99999999999999999999", "1-99999999999999999999", "--", "1--2", "é"] {
            v.push(format!("portparse {}", hx(s)));
        }
        // "long non-ASCII" family on the text parsers: a multi-byte char at every byte offset
        for s in ["default", "json", "stdout", "data-dir", "", "Default", "json ", "/var/log/antnode", "données"] {
            v.push(format!("logformat {}", hx(s)));
            v.push(format!("logdest {}", hx(s)));
        }
        for (i, t) in non_ascii_sweep('1', 200).into_iter().enumerate() {
            v.push(format!("portparse {}", hx(&t)));
            if i % 4 == 0 {
                v.push(format!("portparse {}", hx(&format!("1-{t}"))));
                v.push(format!("portparse {}", hx(&format!("{t}-2"))));
                v.push(format!("logformat {}", hx(&t)));
                v.push(format!("logdest {}", hx(&t)));
            }
        }
        for _ in 0..args.n {
            match rng.below(14) {
                12 | 13 => {
                    let mut spec = |rng: &mut Rng| format!("{},{},{},{}", rng.below(4), rng.below(3), *rng.pick(&[0u64, 1, 2, 10, 11, 100]), rng.below(4));
                    let a = spec(&mut rng);
                    let b = if rng.chance(1, 5) { a.clone() } else { spec(&mut rng) };
                    v.push(format!("regsave {a} {b}"));
                }
                0 | 1 => {
                    let (a, b) = (port(&mut rng), port(&mut rng));
                    let s = match rng.below(6) {
                        0 => format!("{a}"),
                        1 => format!("{a}-{b}"),
                        2 => format!("{}-{}", a.min(b), a.max(b)),
                        3 => format!("{a}-{b}-{}", port(&mut rng)),
                        4 => format!("+{a}-{}{b}", if rng.chance(1, 2) { "+" } else { "0" }),
                        _ => {
                            let mut c: Vec<char> = format!("{a}-{b}").chars().collect();
                            let i = rng.below(c.len() as u64) as usize;
                            c[i] = *rng.pick(&['-', '+', ' ', 'x', '٣', '_', '.', ',']);
                            c.into_iter().collect()
                        }
                    };
                    v.push(format!("portparse {}", hx(&s)));
                }
                2..=4 => {
                    let a = port(&mut rng).min(65535);
                    let b = port(&mut rng).min(65535);
                    let (a, b) = if rng.chance(4, 5) { (a.min(b), a.max(b)) } else { (a, b) };
                    let true_count = if b >= a { b - a + 1 } else { 0 };
                    let c = match rng.below(4) {
                        0 => true_count.min(65535),
                        1 => true_count.saturating_sub(1).min(65535),
                        2 => (true_count + 1).min(65535),
                        _ => port(&mut rng).min(65535),
                    };
                    if rng.chance(1, 6) {
                        v.push(format!("validate single {a} {}", rng.below(3)));
                    } else {
                        v.push(format!("validate range {a} {b} {c}"));
                    }
                }
                5 | 6 => {
                    let p = port(&mut rng).min(65535);
                    v.push(if rng.chance(1, 8) { "incr none".into() } else { format!("incr {p}") });
                }
                7 => {
                    let (a, b) = (port(&mut rng).min(65535), port(&mut rng).min(65535));
                    v.push(match rng.below(3) {
                        0 => "startport none".into(),
                        1 => format!("startport single {a}"),
                        _ => format!("startport range {a} {b}"),
                    });
                }
                _ => {
                    let good = registry_json(rng.below(3) as u16);
                    let bytes: Vec<u8> = match rng.below(11) {
                        0 => vec![],
                        1 => good.clone().into_bytes(),
                        2 => good.as_bytes()[..rng.below(good.len() as u64) as usize].to_vec(),
                        3 => { let mut b = good.clone().into_bytes(); let i = rng.below(b.len() as u64) as usize; b[i] = *rng.pick(&[0xffu8, 0x00, b'"', b'}', b'9']); b }
                        4 => good.replace("65535", *rng.pick(&["65536", "-1", "4294967296", "\"x\"", "1e9"])).into_bytes(),
                        5 => { let gl = rng.below(10) as usize; rng.bytes(gl) }
                        6 => good.replace("\"peer_id\":null", "\"peer_id\":\"not-a-peer-id\"").into_bytes(),
                        7 => good.replace("\"connected_peers\":null", "\"connected_peers\":[\"\", \"12D3\"]").into_bytes(),
                        8 | 9 => { let nn = 1 + rng.below(2) as u16; numeric_edge(&mut rng, &registry_json(nn)).into_bytes() }
                        _ => b"{}".to_vec(),
                    };
                    if rng.chance(1, 12) {
                        v.push("registry missing x x".into());
                    } else {
                        v.push(format!("registry {} x x", hex(&bytes)));
                    }
                }
            }
        }
        v.extend(extra::generate(&mut rng, args.n));
        v.extend(consumers::generate(&mut rng, args.n));
        v
    };
    for l in &lines {
        let (op, r) = exec(l, tmp.path());
        oracle(&op, &r, &mut out);
        let name = op.split_whitespace().next().unwrap_or("").to_string();
        let class = if r.starts_with("ok") || r.starts_with("some") { "ok" } else { r.as_str() };
        out.count(&format!("{name}:{class}"));
        out.nontrivial_case(&op);
        out.line(op, r);
    }
    out.finish();
}
