//! Shared by `upgrade` and `antnode_accepts`: option records as key/value lines, generation,
//! and execution against the real `add_node` / `NodeService::build_upgrade_install_context`.
use ant_bootstrap::PeersArgs;
use ant_evm::{EvmNetwork, RewardsAddress};
use ant_logging::LogFormat;
use ant_node_manager::add_services::add_node;
use ant_node_manager::add_services::config::{AddNodeServiceOptions, PortRange};
use ant_node_manager::{ServiceManager, VerbosityLevel};
use ant_service_management::control::ServiceControl;
use ant_service_management::error::Error as SvcError;
use ant_service_management::rpc::{NetworkInfo, NodeInfo, RecordAddress, RpcActions};
use ant_service_management::{NatDetectionStatus, NodeRegistry, NodeService, NodeServiceData, ServiceStateActions, ServiceStatus, UpgradeOptions};
use async_trait::async_trait;
use common::Rng;
use libp2p::{Multiaddr, PeerId};
use service_manager::ServiceInstallCtx;
use std::collections::BTreeMap;
use std::net::{IpAddr, Ipv4Addr, SocketAddr};
use std::path::{Path, PathBuf};
use std::str::FromStr;
use std::sync::{Arc, Mutex};
use std::time::Duration;

pub const PEER_ID: &str = "12D3KooWS2tpXGGTmg2AHFiDh57yPQnat49YHnyqoggzXZWpqkCR";

/// An option record: ordered `key=value` words (see Driver/Upgrade.lean for the value syntax).
#[derive(Clone, Default)]
pub struct Rec(pub Vec<(String, String)>);

impl Rec {
    pub fn parse(words: &[&str]) -> Option<Rec> {
        let mut v = vec![];
        for w in words {
            let (k, val) = w.split_once('=')?;
            v.push((k.to_string(), val.to_string()));
        }
        Some(Rec(v))
    }
    pub fn set(&mut self, k: &str, v: impl Into<String>) {
        let v = v.into();
        if let Some(e) = self.0.iter_mut().find(|e| e.0 == k) {
            e.1 = v;
        } else {
            self.0.push((k.to_string(), v));
        }
    }
    pub fn get(&self, k: &str) -> Option<&str> {
        self.0.iter().find(|e| e.0 == k).map(|e| e.1.as_str())
    }
    pub fn flag(&self, k: &str) -> bool {
        self.get(k) == Some("T")
    }
    /// values are written with ` ` as `%20` and `%` as `%25`
    pub fn some(&self, k: &str) -> Option<String> {
        self.get(k).and_then(|v| v.strip_prefix("s:")).map(unesc)
    }
    pub fn set_some(&mut self, k: &str, v: &str) {
        self.set(k, format!("s:{}", esc(v)));
    }
    pub fn list(&self, k: &str) -> Vec<String> {
        match self.get(k).and_then(|v| v.strip_prefix("l:")) {
            Some("") | None => vec![],
            Some(r) => r.split(',').map(unesc).collect(),
        }
    }
    /// the record of the i-th service of the add: `key#i` overrides `key`
    pub fn for_service(&self, i: usize) -> Rec {
        let suffix = format!("#{i}");
        let mut out = Rec(self.0.iter().filter(|(k, _)| !k.contains('#')).cloned().collect());
        for (k, v) in &self.0 {
            if let Some(base) = k.strip_suffix(&suffix) {
                out.set(base, v.clone());
            }
        }
        out
    }
    pub fn line(&self, op: &str) -> String {
        let mut s = op.to_string();
        for (k, v) in &self.0 {
            s.push(' ');
            s.push_str(k);
            s.push('=');
            s.push_str(v);
        }
        s
    }
}

pub fn esc(s: &str) -> String {
    s.replace('%', "%25").replace(' ', "%20")
}
/// `%2C` = a `,` inside a list element (only written by the lex probes)
pub fn unesc(s: &str) -> String {
    s.replace("%20", " ").replace("%2C", ",").replace("%25", "%")
}

// ---------- simulated service manager and node RPC ----------
pub struct Ctl {
    pub installed: Mutex<Vec<(ServiceInstallCtx, bool)>>,
    pub free_port: u16,
    /// hand out free_port, free_port + 1, … (used when the RPC ports are looked up per service)
    pub free_port_counts_up: bool,
    pub install_calls: Mutex<usize>,
    pub port_calls: Mutex<usize>,
    pub fail_install_at: Option<usize>,
    pub fail_port_at: Option<usize>,
}
fn injected() -> SvcError {
    SvcError::Io(std::io::Error::new(std::io::ErrorKind::Other, "injected fault"))
}
impl ServiceControl for Ctl {
    fn create_service_user(&self, _u: &str) -> Result<(), SvcError> {
        Ok(())
    }
    fn get_available_port(&self) -> Result<u16, SvcError> {
        let mut n = self.port_calls.lock().unwrap();
        *n += 1;
        if self.fail_port_at == Some(*n) {
            return Err(injected());
        }
        Ok(if self.free_port_counts_up { self.free_port + (*n as u16 - 1) } else { self.free_port })
    }
    fn install(&self, ctx: ServiceInstallCtx, user_mode: bool) -> Result<(), SvcError> {
        let mut n = self.install_calls.lock().unwrap();
        *n += 1;
        if self.fail_install_at == Some(*n) {
            return Err(injected());
        }
        self.installed.lock().unwrap().push((ctx, user_mode));
        Ok(())
    }
    fn get_process_pid(&self, _p: &Path) -> Result<u32, SvcError> {
        Ok(1000)
    }
    fn start(&self, _n: &str, _u: bool) -> Result<(), SvcError> {
        Ok(())
    }
    fn stop(&self, _n: &str, _u: bool) -> Result<(), SvcError> {
        Ok(())
    }
    fn uninstall(&self, _n: &str, _u: bool) -> Result<(), SvcError> {
        Ok(())
    }
    fn wait(&self, _d: u64) {}
}

/// One call of the service manager that matters to C20: what was removed / written, and at which level.
#[derive(Clone)]
pub enum Call {
    Uninstall(String, bool),
    Install(ServiceInstallCtx, bool),
}
/// `ServiceControl` handed to the real `ServiceManager::upgrade` and (through the cfg-guarded stand-in of
/// `ant_node_manager::verif`) to the real `rpc::restart_node_service`: records uninstall / install with their level.
/// `start_fails`: `start` is refused, so that the code under test returns before it talks to a node RPC.
#[derive(Clone)]
pub struct RecCtl {
    pub calls: Arc<Mutex<Vec<Call>>>,
    pub start_fails: bool,
}
impl RecCtl {
    pub fn new(start_fails: bool) -> RecCtl {
        RecCtl { calls: Arc::new(Mutex::new(vec![])), start_fails }
    }
    pub fn take(&self) -> Vec<Call> {
        self.calls.lock().unwrap().drain(..).collect()
    }
}
impl ServiceControl for RecCtl {
    fn create_service_user(&self, _u: &str) -> Result<(), SvcError> {
        Ok(())
    }
    fn get_available_port(&self) -> Result<u16, SvcError> {
        Ok(1)
    }
    fn install(&self, ctx: ServiceInstallCtx, user_mode: bool) -> Result<(), SvcError> {
        self.calls.lock().unwrap().push(Call::Install(ctx, user_mode));
        Ok(())
    }
    fn get_process_pid(&self, _p: &Path) -> Result<u32, SvcError> {
        Ok(1000)
    }
    fn start(&self, _n: &str, _u: bool) -> Result<(), SvcError> {
        if self.start_fails {
            Err(injected())
        } else {
            Ok(())
        }
    }
    fn stop(&self, _n: &str, _u: bool) -> Result<(), SvcError> {
        Ok(())
    }
    fn uninstall(&self, n: &str, user_mode: bool) -> Result<(), SvcError> {
        self.calls.lock().unwrap().push(Call::Uninstall(n.to_string(), user_mode));
        Ok(())
    }
    fn wait(&self, _d: u64) {}
}

pub struct Rpc {
    pub listen: Option<u16>,
}
#[async_trait]
impl RpcActions for Rpc {
    async fn node_info(&self) -> Result<NodeInfo, SvcError> {
        Ok(NodeInfo {
            pid: 1000,
            peer_id: PeerId::from_str(PEER_ID).unwrap(),
            log_path: PathBuf::from("/l"),
            data_path: PathBuf::from("/d"),
            version: "0.1.0".into(),
            uptime: Duration::from_secs(1),
            wallet_balance: 0,
        })
    }
    async fn network_info(&self) -> Result<NetworkInfo, SvcError> {
        let listeners = match self.listen {
            Some(p) => vec![Multiaddr::from_str(&format!("/ip4/127.0.0.1/udp/{p}/quic-v1")).unwrap()],
            None => vec![],
        };
        Ok(NetworkInfo { connected_peers: vec![], listeners })
    }
    async fn record_addresses(&self) -> Result<Vec<RecordAddress>, SvcError> {
        Ok(vec![])
    }
    async fn node_restart(&self, _d: u64, _r: bool) -> Result<(), SvcError> {
        Ok(())
    }
    async fn node_stop(&self, _d: u64) -> Result<(), SvcError> {
        Ok(())
    }
    async fn node_update(&self, _d: u64) -> Result<(), SvcError> {
        Ok(())
    }
    async fn is_node_connected_to_network(&self, _t: Duration) -> Result<(), SvcError> {
        Ok(())
    }
    async fn update_log_level(&self, _l: String) -> Result<(), SvcError> {
        Ok(())
    }
}

fn env_pairs(s: &str) -> Vec<(String, String)> {
    s.split(',').filter(|p| !p.is_empty()).map(|p| { let (k, v) = p.split_once('=').unwrap_or((p, "")); (k.to_string(), v.to_string()) }).collect()
}
pub fn env_show(e: &Option<Vec<(String, String)>>) -> String {
    match e {
        None => "-".into(),
        Some(v) => v.iter().map(|(k, x)| format!("{k}={x}")).collect::<Vec<_>>().join(","),
    }
}

/// How `antctl upgrade` fills `UpgradeOptions.auto_restart`: read from the working tree's source so that
/// the harness follows the code under test (cmd::node::upgrade itself needs a real service manager).
pub fn upgrade_autostart_rule() -> String {
    let src = std::fs::read_to_string("/repo/ant-node-manager/src/cmd/node.rs").unwrap_or_default();
    let Some(i) = src.find("let options = UpgradeOptions {") else { return "?".into() };
    let tail = &src[i..];
    let Some(j) = tail.find("auto_restart:") else { return "?".into() };
    let rest = &tail[j + "auto_restart:".len()..];
    rest.split(',').next().unwrap_or("?").trim().to_string()
}

/// How `cmd::node::add` treats a `--bootstrap-cache-dir` given on antctl's command line: read from the working
/// tree's source (the function itself needs root / a real service manager / a release download).
pub fn cli_cache_rule() -> String {
    let src = std::fs::read_to_string("/repo/ant-node-manager/src/cmd/node.rs").unwrap_or_default();
    let c: String = src.chars().filter(|c| !c.is_whitespace()).collect();
    let c = {
        // drop `// …` comments (they were glued to the code by the white-space removal): work on the lines instead
        let _ = c;
        src.lines().map(|l| l.split("//").next().unwrap_or("")).collect::<String>().chars().filter(|c| !c.is_whitespace()).collect::<String>()
    };
    if c.contains("ifpeers_args.bootstrap_cache_dir.is_none(){peers_args.bootstrap_cache_dir=bootstrap_cache_dir;}") {
        "keep-given".into()
    } else if c.contains("peers_args.bootstrap_cache_dir=bootstrap_cache_dir;") {
        "overwrite".into()
    } else {
        "?".into()
    }
}

// ---------- the unit file of the shipped systemd backend, and systemd's reading of it ----------
/// The text `service-manager`'s OWN systemd backend writes for this definition. `SystemdServiceManager::install`
/// at user level writes `$XDG_CONFIG_HOME/systemd/user/<label>.service` and, with autostart off, never runs
/// `systemctl`; `make_service` (private) renders `ExecStart=` / `Environment=` the same at both levels.
pub fn render_systemd_unit(ctx: &ServiceInstallCtx, scratch: &Path) -> Result<String, String> {
    use service_manager::ServiceManager as _;
    let cfg = scratch.join("xdg-config");
    std::fs::create_dir_all(&cfg).map_err(|e| e.to_string())?;
    std::env::set_var("XDG_CONFIG_HOME", &cfg);
    let mut c = ctx.clone();
    c.autostart = false;
    let script = c.label.to_script_name();
    service_manager::SystemdServiceManager::user().install(c).map_err(|e| format!("systemd backend: {e}"))?;
    let path = cfg.join("systemd/user").join(format!("{script}.service"));
    let text = std::fs::read_to_string(&path).map_err(|e| format!("{}: {e}", path.display()))?;
    let _ = std::fs::remove_file(&path);
    Ok(text)
}

pub fn unit_exec_line(unit: &str) -> Option<&str> {
    unit.lines().find(|l| l.starts_with("ExecStart="))
}
pub fn unit_env_lines(unit: &str) -> Vec<&str> {
    unit.lines().filter(|l| l.starts_with("Environment=")).collect()
}

/// systemd's splitting of a command line (systemd.service(5) "Command lines"; `extract_first_word` with
/// EXTRACT_UNQUOTE): unquoted white space separates, `"…"` / `'…'` group and are removed. `None` = the line contains
/// a `\` escape, a `%` specifier, a `$` variable, an unbalanced quote or a lone `;`: not interpreted here.
pub fn systemd_split(s: &str) -> Option<Vec<String>> {
    let mut out: Vec<String> = vec![];
    let mut cur: Option<String> = None;
    let mut q: Option<char> = None;
    for c in s.chars() {
        match q {
            None => {
                if c == ' ' || c == '\t' || c == '\n' || c == '\r' {
                    if let Some(w) = cur.take() {
                        out.push(w);
                    }
                } else if c == '"' || c == '\'' {
                    cur.get_or_insert_with(String::new);
                    q = Some(c);
                } else if c == '\\' || c == '%' || c == '$' {
                    return None;
                } else {
                    cur.get_or_insert_with(String::new).push(c);
                }
            }
            Some(qc) => {
                if c == qc {
                    q = None;
                } else if c == '\\' || c == '%' || c == '$' {
                    return None;
                } else {
                    cur.get_or_insert_with(String::new).push(c);
                }
            }
        }
    }
    if q.is_some() {
        return None;
    }
    if let Some(w) = cur {
        out.push(w);
    }
    if out.iter().any(|w| w == ";") {
        return None;
    }
    Some(out)
}

/// non-empty, no white space / quote / backslash / `%` / `$`, not `;` alone (Lean: `wordSafe`)
pub fn word_safe(w: &str) -> bool {
    !w.is_empty() && w != ";" && !w.chars().any(|c| c == ' ' || c == '\t' || c == '\n' || c == '\r' || c == '"' || c == '\'' || c == '\\' || c == '%' || c == '$')
}
pub fn unit_safe(ctx: &ServiceInstallCtx) -> bool {
    word_safe(&ctx.program.to_string_lossy()) && argv(ctx).iter().all(|a| word_safe(a))
}

/// what the daemon's restart did
pub struct Restarted {
    pub kind: String,
    pub result: String,
    pub uninstall_level: Option<bool>,
    pub install: Option<(ServiceInstallCtx, bool)>,
    /// replacement only: the registry entry recorded for the new service and the definition its next upgrade writes
    pub replacement: Option<(NodeServiceData, ServiceInstallCtx, (bool, bool))>,
}

pub struct Built {
    /// position of the service in the add (1-based)
    pub index: usize,
    pub install: ServiceInstallCtx,
    pub install_user_mode: bool,
    pub upgrade: ServiceInstallCtx,
    /// levels `ServiceManager::upgrade` handed to uninstall / install
    pub upgrade_levels: (bool, bool),
    pub restart: Option<Restarted>,
    pub data: NodeServiceData,
}

/// the real `ServiceManager::upgrade` on one registry entry, against a recording service manager (the service is not
/// started afterwards: `start_service = false`): the definition it wrote, and the two levels
fn real_upgrade(data: &mut NodeServiceData, options: UpgradeOptions, rt: &tokio::runtime::Runtime) -> Result<(ServiceInstallCtx, (bool, bool)), String> {
    let ctl = RecCtl::new(false);
    let svc = NodeService::new(data, Box::new(Rpc { listen: None }));
    let mut mgr = ServiceManager::new(svc, Box::new(ctl.clone()), VerbosityLevel::Minimal);
    rt.block_on(mgr.upgrade(options)).map_err(|e| format!("ServiceManager::upgrade: {e}"))?;
    drop(mgr);
    let calls = ctl.take();
    match calls.as_slice() {
        [Call::Uninstall(_, ul), Call::Install(ctx, il)] => Ok((ctx.clone(), (*ul, *il))),
        other => Err(format!("ServiceManager::upgrade made {} uninstall/install calls in an unexpected order", other.len())),
    }
}

fn dummy_node(n: u16, root: &Path) -> NodeServiceData {
    NodeServiceData {
        antnode_path: root.join(format!("data/antnode{n}/antnode")),
        auto_restart: false,
        connected_peers: None,
        data_dir_path: root.join(format!("data/antnode{n}")),
        evm_network: EvmNetwork::ArbitrumOne,
        home_network: false,
        listen_addr: None,
        log_dir_path: root.join(format!("log/antnode{n}")),
        log_format: None,
        max_archived_log_files: None,
        max_log_files: None,
        metrics_port: None,
        network_id: None,
        node_ip: None,
        node_port: None,
        number: n,
        owner: None,
        peer_id: None,
        peers_args: PeersArgs::default(),
        pid: None,
        rewards_address: RewardsAddress::from_str("0x03B770D9cD32077cC0bF330c13C114a87643B124").unwrap(),
        reward_balance: None,
        rpc_socket_addr: SocketAddr::new(IpAddr::V4(Ipv4Addr::new(127, 0, 0, 1)), 20000 + n),
        service_name: format!("antnode{n}"),
        status: ServiceStatus::Added,
        upnp: false,
        user: None,
        user_mode: false,
        version: "0.1.0".into(),
    }
}

/// Run the real `add_node` (one add of `@count` services, with the fault `@fail` injected) against the
/// simulated service manager; then continue as `antctl upgrade` does: from the registry file as the add
/// left it (the caller saves once more only when `add_node` returned Ok), optionally the real `on_start`
/// refresh, then the real `build_upgrade_install_context` — for every service that did get installed.
pub fn build_real(rec: &Rec, root: &Path, rt: &tokio::runtime::Runtime, autostart_rule: &str) -> Result<Vec<Built>, String> {
    let _ = std::fs::remove_dir_all(root);
    std::fs::create_dir_all(root.join("src")).map_err(|e| e.to_string())?;
    let r = root.to_string_lossy().to_string();
    let sub = |s: String| s.replace("$R", &r);
    let src_bin = root.join("src/antnode");
    std::fs::write(&src_bin, b"fake antnode binary").map_err(|e| e.to_string())?;

    let count: u16 = rec.some("@count").and_then(|s| s.parse().ok()).unwrap_or(1);
    let fail: Option<(String, usize)> = rec.some("@fail").and_then(|f| {
        let (k, n) = f.split_once(':')?;
        Some((k.to_string(), n.parse().ok()?))
    });
    let rec1 = rec.for_service(1);
    let number: u16 = rec1.some("node_number").and_then(|s| s.parse().ok()).ok_or("node_number")?;
    let data_dir = PathBuf::from(sub(rec1.some("service_data_dir_path").ok_or("service_data_dir_path")?));
    let log_dir = PathBuf::from(sub(rec1.some("service_log_dir_path").ok_or("service_log_dir_path")?));
    let rpc: SocketAddr = rec1.some("rpc_socket_addr").ok_or("rpc_socket_addr")?.parse().map_err(|_| "rpc_socket_addr")?;
    let rpc_ip = match rpc.ip() {
        IpAddr::V4(a) => a,
        _ => return Err("rpc ip".into()),
    };
    let port = |k: &str| -> Option<u16> { rec1.some(k).and_then(|s| s.parse().ok()) };
    let range = |p: u16| if count > 1 { PortRange::Range(p, p + count - 1) } else { PortRange::Single(p) };
    let metrics = port("metrics_free_port");
    let via_server = rec.flag("@metrics_via_server");
    let rpc_auto = matches!(&fail, Some((k, _)) if k == "port");
    let evm = match rec.get("options.evm_network") {
        Some("e:ArbitrumOne") => EvmNetwork::ArbitrumOne,
        Some("e:ArbitrumSepolia") => EvmNetwork::ArbitrumSepolia,
        Some("e:Custom") => EvmNetwork::new_custom(
            &rec.some("options.evm_network.rpc_url_http").ok_or("rpc_url_http")?,
            &rec.some("options.evm_network.payment_token_address").ok_or("payment_token_address")?,
            &rec.some("options.evm_network.data_payments_address").ok_or("data_payments_address")?,
        ),
        _ => return Err("options.evm_network".into()),
    };
    let peers_args = PeersArgs {
        first: rec.flag("options.peers_args.first"),
        addrs: rec.list("options.peers_args.addrs").iter().map(|a| Multiaddr::from_str(a).map_err(|e| e.to_string())).collect::<Result<_, _>>()?,
        network_contacts_url: rec.list("options.peers_args.network_contacts_url"),
        local: rec.flag("options.peers_args.local"),
        disable_mainnet_contacts: rec.flag("options.peers_args.disable_mainnet_contacts"),
        ignore_cache: rec.flag("options.peers_args.ignore_cache"),
        bootstrap_cache_dir: rec.some("options.peers_args.bootstrap_cache_dir").map(|s| PathBuf::from(sub(s))),
    };
    let nat = match rec.some("@nat").as_deref() {
        Some("Public") => Some(NatDetectionStatus::Public),
        Some("UPnP") => Some(NatDetectionStatus::UPnP),
        Some("Private") => Some(NatDetectionStatus::Private),
        _ => None,
    };
    // with auto_set_nat_flags the flags given on the command line are overwritten: hand in the opposite
    let (upnp_in, home_in) = if nat.is_some() { (!rec.flag("options.upnp"), !rec.flag("options.home_network")) } else { (rec.flag("options.upnp"), rec.flag("options.home_network")) };
    let log_format = match rec.some("options.log_format").as_deref() {
        Some("json") => Some(LogFormat::Json),
        Some("default") => Some(LogFormat::Default),
        Some(_) => return Err("log_format".into()),
        None => None,
    };
    let rewards_address = RewardsAddress::from_str(&rec.some("options.rewards_address").ok_or("rewards")?).map_err(|e| e.to_string())?;
    // `cmd::node::add`: a `--bootstrap-cache-dir` given on antctl's command line (`@cli_cache`) against the service
    // user's default (the record's `options.peers_args.bootstrap_cache_dir`), by the rule the source has
    let mut peers_args = peers_args;
    if let Some(given) = rec.some("@cli_cache") {
        match cli_cache_rule().as_str() {
            "keep-given" => peers_args.bootstrap_cache_dir = Some(PathBuf::from(sub(given))),
            "overwrite" => {}
            other => return Err(format!("unknown-add-shape bootstrap_cache_dir: {other}")),
        }
    }
    let data_parent = data_dir.parent().ok_or("data dir parent")?.to_path_buf();
    let log_parent = {
        // the user-mode default: `<data dir>/node/<service>/logs`
        let p = log_dir.parent().ok_or("log dir parent")?;
        if log_dir.file_name().map(|f| f == "logs").unwrap_or(false) && rec.flag("options.user_mode") { p.parent().ok_or("log dir parent")?.to_path_buf() } else { p.to_path_buf() }
    };
    let make_options = |later: Option<Vec<(String, String)>>| AddNodeServiceOptions {
        antnode_dir_path: data_parent.clone(),
        antnode_src_path: src_bin.clone(),
        auto_restart: rec.flag("options.auto_restart"),
        auto_set_nat_flags: nat.is_some(),
        count: Some(if later.is_some() { 1 } else { count }),
        delete_antnode_src: false,
        enable_metrics_server: via_server,
        env_variables: if later.is_some() { later.clone() } else { rec.some("options.env_variables").map(|s| env_pairs(&s)) },
        evm_network: evm.clone(),
        home_network: home_in,
        log_format,
        max_archived_log_files: rec.some("options.max_archived_log_files").and_then(|s| s.parse().ok()),
        max_log_files: rec.some("options.max_log_files").and_then(|s| s.parse().ok()),
        metrics_port: if via_server || later.is_some() { None } else { metrics.map(range) },
        network_id: rec.some("options.network_id").and_then(|s| s.parse().ok()),
        node_ip: rec.some("options.node_ip").and_then(|s| s.parse().ok()),
        node_port: if later.is_some() { None } else { port("node_port").map(range) },
        owner: rec.some("options.owner"),
        peers_args: PeersArgs { first: peers_args.first && later.is_none(), ..peers_args.clone() },
        rewards_address,
        rpc_address: if rec.flag("@rpc_default_ip") { None } else { Some(rpc_ip) },
        rpc_port: if rpc_auto || later.is_some() { None } else { Some(range(rpc.port())) },
        service_data_dir_path: data_parent.clone(),
        service_log_dir_path: log_parent.clone(),
        upnp: upnp_in,
        user: rec.some("options.user"),
        user_mode: rec.flag("options.user_mode"),
        version: rec.some("options.version").unwrap_or_else(|| "0.1.0".into()),
    };
    let options = make_options(None);
    let reg_path = root.join("node_registry.json");
    let mut reg = NodeRegistry {
        auditor: None,
        daemon: None,
        environment_variables: rec.some("@prev").map(|s| env_pairs(&s)),
        faucet: None,
        nat_status: nat.clone(),
        nodes: (1..number).map(|n| dummy_node(n, root)).collect(),
        save_path: reg_path.clone(),
    };
    // the registry as it is on disk before this add (an earlier add saved it)
    reg.save().map_err(|e| format!("registry save: {e}"))?;
    let ctl = Ctl {
        installed: Mutex::new(vec![]),
        free_port: if rpc_auto { rpc.port() } else { metrics.unwrap_or(1) },
        free_port_counts_up: rpc_auto,
        install_calls: Mutex::new(0),
        port_calls: Mutex::new(0),
        fail_install_at: fail.as_ref().filter(|(k, _)| k == "install").map(|(_, n)| *n),
        fail_port_at: fail.as_ref().filter(|(k, _)| k == "port").map(|(_, n)| *n),
    };
    let result = rt.block_on(add_node(options, &mut reg, &ctl, VerbosityLevel::Minimal));
    match (&result, &fail) {
        (Ok(_), Some(_)) => return Err("add_node succeeded although a fault was injected".into()),
        (Err(e), None) => return Err(format!("add_node: {e}")),
        _ => {}
    }
    if result.is_ok() {
        // `cmd::node::add` saves the registry once more after a successful add_node
        reg.save().map_err(|e| format!("registry save: {e}"))?;
    }
    // a LATER `antctl add --env ..` of one more service (other settings as this add, ports looked up)
    if let Some(later) = rec.some("@later") {
        let ctl2 = Ctl {
            installed: Mutex::new(vec![]),
            free_port: 30000,
            free_port_counts_up: true,
            install_calls: Mutex::new(0),
            port_calls: Mutex::new(0),
            fail_install_at: None,
            fail_port_at: None,
        };
        rt.block_on(add_node(make_options(Some(env_pairs(&later))), &mut reg, &ctl2, VerbosityLevel::Minimal)).map_err(|e| format!("later add_node: {e}"))?;
        reg.save().map_err(|e| format!("registry save: {e}"))?;
    }
    drop(reg);
    // `antctl upgrade` starts from the registry file
    let mut reg = NodeRegistry::load(&reg_path).map_err(|e| format!("registry load: {e}"))?;
    let installed: Vec<(ServiceInstallCtx, bool)> = ctl.installed.lock().unwrap().drain(..).collect();
    let mut out = vec![];
    for (install, install_user_mode) in installed {
        let label = install.label.to_string();
        let n: u16 = label.trim_start_matches("antnode").parse().map_err(|_| format!("service label {label}"))?;
        let index = (n + 1 - number) as usize;
        let reci = rec.for_service(index);
        if reci.some("service_name").as_deref() != Some(label.as_str()) {
            return Err(format!("add_node named service {index} {label}, the record says {:?}", reci.some("service_name")));
        }
        let Some(pos) = reg.nodes.iter().position(|d| d.service_name == label) else {
            return Err(format!("service {label} was installed but is not in the saved registry"));
        };
        let mut data = reg.nodes[pos].clone();
        if let Some(p) = port("@listen") {
            let mut svc = NodeService::new(&mut data, Box::new(Rpc { listen: Some(p) }));
            rt.block_on(svc.on_start(Some(1000), true)).map_err(|e| format!("on_start: {e}"))?;
        }
        let upgrade_options = |data: &NodeServiceData, env_variables: Option<Vec<(String, String)>>| -> Result<UpgradeOptions, String> {
            let auto_restart = match autostart_rule {
                "node.auto_restart" => data.auto_restart,
                "false" => false,
                "true" => true,
                other => return Err(format!("unknown-upgrade-literal auto_restart: {other}")),
            };
            Ok(UpgradeOptions {
                auto_restart,
                env_variables,
                force: false,
                start_service: false,
                target_bin_path: root.join("src/antnode"),
                target_version: semver::Version::parse("0.2.0").unwrap(),
            })
        };
        // the daemon's restart of this service (on a copy of the registry: the upgrade below starts from the same state)
        let restart = match rec.some("@drestart") {
            None => None,
            Some(kind) => {
                let mut reg2 = reg.clone();
                reg2.nodes[pos] = data.clone();
                let peer = data.peer_id.ok_or("@drestart needs @listen: the daemon addresses a service by the peer id it reported")?;
                let rctl = RecCtl::new(true);
                ant_node_manager::verif::set_service_control(Arc::new(rctl.clone()));
                let r = rt.block_on(ant_node_manager::rpc::restart_node_service(&mut reg2, peer, kind == "retain"));
                ant_node_manager::verif::clear_service_control();
                let calls = rctl.take();
                let mut uninstall_level = None;
                let mut inst = None;
                for c in calls {
                    match c {
                        Call::Uninstall(_, l) => uninstall_level = Some(l),
                        Call::Install(ctx, l) => inst = Some((ctx, l)),
                    }
                }
                let result = match (&inst, &r) {
                    (Some(_), _) => "installed".to_string(),
                    (None, Err(e)) if e.to_string().contains("The user must be set") => "err:no-user".to_string(),
                    (None, Err(e)) => format!("err:other:{}", e.to_string().replace(' ', "_")),
                    (None, Ok(())) => "err:nothing-installed".to_string(),
                };
                let replacement = if kind != "retain" && inst.is_some() {
                    let mut nd = reg2.nodes.last().cloned().ok_or("replacement not recorded")?;
                    if nd.service_name == label {
                        return Err("the replacement service was not recorded in the registry".into());
                    }
                    let o = upgrade_options(&nd, reg2.environment_variables.clone())?;
                    let (uctx, levels) = real_upgrade(&mut nd, o, rt)?;
                    Some((nd, uctx, levels))
                } else {
                    None
                };
                Some(Restarted { kind, result, uninstall_level, install: inst, replacement })
            }
        };
        let provided = rec.some("@provided").map(|s| env_pairs(&s));
        let env_variables = if provided.is_some() { provided } else { reg.environment_variables.clone() };
        let options = upgrade_options(&data, env_variables)?;
        // the real `ServiceManager::upgrade`: uninstall, `build_upgrade_install_context`, install
        let (upgrade, upgrade_levels) = real_upgrade(&mut data, options, rt)?;
        reg.nodes[pos] = data.clone();
        out.push(Built { index, install, install_user_mode, upgrade, upgrade_levels, restart, data });
    }
    Ok(out)
}

pub fn argv(ctx: &ServiceInstallCtx) -> Vec<String> {
    ctx.args.iter().map(|a| a.to_string_lossy().to_string()).collect()
}

pub fn show_ctx(ctx: &ServiceInstallCtx, root: &Path) -> String {
    let r = root.to_string_lossy().to_string();
    let e = |x: &str| esc(&x.replace(&r, "$R"));
    format!(
        "{} | autostart={} environment={} label={} program={} username={}",
        argv(ctx).iter().map(|a| e(a)).collect::<Vec<_>>().join(" "),
        ctx.autostart,
        match &ctx.environment { None => "-".to_string(), some => e(&env_show(some)) },
        ctx.label,
        e(&ctx.program.to_string_lossy()),
        ctx.username.clone().map(|u| e(&u)).unwrap_or_else(|| "-".into())
    )
}

pub fn level(user: bool) -> &'static str {
    if user { "user" } else { "system" }
}

/// `X: <ExecStart line> E: <Environment line>,..` of the unit file the shipped systemd backend writes
pub fn show_unit(ctx: &ServiceInstallCtx, root: &Path, scratch: &Path) -> String {
    let r = root.to_string_lossy().to_string();
    let e = |x: &str| esc(&x.replace(&r, "$R"));
    match render_systemd_unit(ctx, scratch) {
        Err(er) => format!("X: error {}", e(&er)),
        Ok(unit) => {
            let envs = unit_env_lines(&unit);
            format!(
                "X: {} E: {}",
                unit_exec_line(&unit).map(|l| e(l)).unwrap_or_else(|| "-".into()),
                if envs.is_empty() { "-".to_string() } else { envs.iter().map(|l| e(l)).collect::<Vec<_>>().join(",") }
            )
        }
    }
}

// ---------- generation ----------
pub const BOOLS: &[&str] = &[
    "options.auto_restart",
    "options.home_network",
    "options.upnp",
    "options.peers_args.first",
    "options.peers_args.local",
    "options.peers_args.disable_mainnet_contacts",
    "options.peers_args.ignore_cache",
    "options.user_mode",
];
pub const OPTS: &[&str] = &[
    "options.env_variables",
    "options.user",
    "options.log_format",
    "options.network_id",
    "options.node_ip",
    "node_port",
    "metrics_free_port",
    "options.owner",
    "options.max_archived_log_files",
    "options.max_log_files",
    "options.peers_args.bootstrap_cache_dir",
];
pub const LISTS: &[&str] = &["options.peers_args.addrs", "options.peers_args.network_contacts_url"];

const ADDRS: &[&str] = &[
    "/ip4/10.0.0.1/udp/1200/quic-v1/p2p/12D3KooWRi6wF7yxWLuPSNskXc6kQ5cJ6eaymeMbCRdTnMesPgFx",
    "/ip4/127.0.0.1/tcp/8080/ws/p2p/12D3KooWS2tpXGGTmg2AHFiDh57yPQnat49YHnyqoggzXZWpqkCR",
    "/ip4/192.168.1.7/udp/65535/quic-v1",
];
const URLS: &[&str] = &[
    "http://localhost:8080/contacts",
    "https://sn-testnet.s3.eu-west-2.amazonaws.com/network-contacts",
    "http://10.1.1.1/bootstrap_cache.json",
    "HTTPS://EXAMPLE.ORG/ÜPPER/Ünïcode?a=b&c=d",
    "http://host/path with space/ДАННЫЕ.json",
];
const REWARDS: &[&str] = &["0x03B770D9cD32077cC0bF330c13C114a87643B124", "0x1111111111111111111111111111111111111111", "0xd8dA6BF26964aF9D7eEd9e03E53415D37aA96045"];
/// owner names: plain, ASCII capitals, non-ASCII capitals (Latin, Cyrillic, Greek, a capital whose
/// lower-case form is two code points), already lower-case non-ASCII, spaces, `=`, very long
const OWNERS: &[&str] = &[
    "discord_user",
    "bob",
    "a.b_c9",
    "Bob",
    "MiXeD_Case99",
    "Ünal_Çelik",
    "ÀÉÎÕÜ",
    "ünal çelik",
    "ДМИТРИЙ иван",
    "ΑΘΗΝΑ_αβγ",
    "İstanbul",
    "straße=ẞ",
    "x",
];
const DIR_PARENTS: &[&str] = &["$R/data", "$R/dätä dir", "$R/ДАННЫЕ=x/Nodes", "$R/d"];
/// the user-mode default log directory (`get_user_antnode_data_dir()` with HOME = `$R/home`): `add_node` appends `<service>/logs`
pub const USER_DEFAULT_LOG_PARENT: &str = "$R/home/.local/share/autonomi/node";
const LOG_PARENTS: &[&str] = &["$R/log", "$R/Lög Files", "$R/l=o=g", USER_DEFAULT_LOG_PARENT];
const ENVS: &[&str] = &["ANT_LOG=all", "ANT_LOG=all,RUST_LOG=libp2p=debug", "X=1", "ÄNV=Wert mit Leerzeichen,B=x=y", "PATH_EXTRA=/opt/Ünïcode dir/bin"];

pub fn gen_value(key: &str, rng: &mut Rng, multi: bool) -> String {
    let port = |rng: &mut Rng| -> String {
        if multi {
            (*rng.pick(&[1u16, 1024, 12000, 40000, 65000]) as u32 + rng.below(3) as u32).to_string()
        } else {
            (*rng.pick(&[1u16, 1024, 12000, 40000, 65535]) as u32 + rng.below(3) as u32).min(65535).to_string()
        }
    };
    match key {
        "options.env_variables" => rng.pick(ENVS).to_string(),
        "options.user" => rng.pick(&["root", "root", "daemon", "nobody"]).to_string(),
        "options.log_format" => rng.pick(&["json", "default"]).to_string(),
        "options.network_id" => rng.pick(&["0", "1", "7", "255"]).to_string(),
        "options.node_ip" => rng.pick(&["10.0.0.7", "0.0.0.0", "255.255.255.255", "192.168.1.20"]).to_string(),
        "node_port" => port(rng),
        "metrics_free_port" => port(rng),
        "options.owner" => {
            if rng.chance(1, 12) {
                format!("{}_Ω", "LongOwnerName".repeat(24))
            } else {
                rng.pick(OWNERS).to_string()
            }
        }
        "options.max_archived_log_files" | "options.max_log_files" => rng.pick(&["0", "1", "5", "1000000"]).to_string(),
        "options.peers_args.bootstrap_cache_dir" => rng.pick(&["$R/cache", "$R/home/ant/.local/share/autonomi/bootstrap_cache", "$R/Çache dir/x=y"]).to_string(),
        _ => "x".to_string(),
    }
}

pub fn gen_list(key: &str, rng: &mut Rng) -> String {
    let pool: &[&str] = if key.ends_with("addrs") { ADDRS } else { URLS };
    let n = rng.range(1, 3) as usize;
    let mut v: Vec<String> = vec![];
    for _ in 0..n {
        let c = rng.pick(pool).to_string();
        let c = if key.ends_with("addrs") { Multiaddr::from_str(&c).unwrap().to_string() } else { c };
        v.push(esc(&c));
    }
    v.join(",")
}

/// the `@case` table of a record: non-ASCII characters of its owner that `to_lowercase` changes
pub fn case_table(owner: &str) -> Option<String> {
    let mut pairs: Vec<String> = vec![];
    for c in owner.chars() {
        if c.is_ascii() {
            continue;
        }
        let l: String = c.to_lowercase().collect();
        if l != c.to_string() {
            let p = format!("{c}:{l}");
            if !pairs.contains(&p) {
                pairs.push(p);
            }
        }
    }
    if pairs.is_empty() { None } else { Some(format!("l:{}", pairs.join(","))) }
}

/// the derived locals of the i-th service of an add whose first service has number `number`
fn service_keys(r: &mut Rec, i: u64, number: u64, dparent: &str, lparent: &str, rpc_ip: &str, rpc_port: u64, user_mode: bool) {
    let n = number + i - 1;
    let logs = if user_mode && lparent == USER_DEFAULT_LOG_PARENT { "/logs" } else { "" };
    let sfx = if i == 1 { String::new() } else { format!("#{i}") };
    r.set_some(&format!("node_number{sfx}"), &n.to_string());
    r.set_some(&format!("service_name{sfx}"), &format!("antnode{n}"));
    r.set_some(&format!("service_data_dir_path{sfx}"), &format!("{dparent}/antnode{n}"));
    r.set_some(&format!("service_log_dir_path{sfx}"), &format!("{lparent}/antnode{n}{logs}"));
    r.set_some(&format!("service_antnode_path{sfx}"), &format!("{dparent}/antnode{n}/antnode"));
    r.set_some(&format!("rpc_socket_addr{sfx}"), &format!("{rpc_ip}:{}", rpc_port + i - 1));
}

/// A record from a presence pattern (bit i of `bits` = i-th optional setting switched on) and value choices.
/// `multi` = (count, fault): an add of several services with an injected fault.
pub fn gen_record_with(bits: u64, evm: u64, rng: &mut Rng, multi: Option<(u64, Option<(&str, u64)>)>) -> Rec {
    let mut r = Rec::default();
    let count = multi.map(|m| m.0).unwrap_or(1);
    let number = if rng.chance(1, 3) { rng.range(2, 4) } else { 1 };
    let dparent = if rng.chance(1, 2) { DIR_PARENTS[0] } else { *rng.pick(DIR_PARENTS) };
    let lparent = if rng.chance(1, 2) { LOG_PARENTS[0] } else { *rng.pick(LOG_PARENTS) };
    let rpc_default = rng.chance(1, 2);
    let rpc_ip = if rpc_default { "127.0.0.1" } else { *rng.pick(&["127.0.0.1", "10.0.0.9", "0.0.0.0"]) };
    let rpc_port = rng.range(12100, 12200); // clear of the generated node / metrics ports (12000..12004)
    let user_mode = bits >> 7 & 1 == 1; // BOOLS[7] = options.user_mode
    service_keys(&mut r, 1, number, dparent, lparent, rpc_ip, rpc_port, user_mode);
    r.set("@rpc_default_ip", if rpc_default { "T" } else { "F" });
    r.set("options.rewards_address", format!("s:{}", RewardsAddress::from_str(*rng.pick(REWARDS)).unwrap()));
    r.set("options.version", "s:0.1.0");
    let mut i = 0;
    for k in BOOLS {
        r.set(k, if bits >> i & 1 == 1 { "T" } else { "F" });
        i += 1;
    }
    for k in OPTS {
        if bits >> i & 1 == 1 {
            let v = gen_value(k, rng, count > 1);
            r.set_some(k, &v);
        } else {
            r.set(k, "-");
        }
        i += 1;
    }
    for k in LISTS {
        if bits >> i & 1 == 1 {
            r.set(k, format!("l:{}", gen_list(k, rng)));
        } else {
            r.set(k, "l:");
        }
        i += 1;
    }
    match evm % 3 {
        0 => r.set("options.evm_network", "e:ArbitrumOne"),
        1 => r.set("options.evm_network", "e:ArbitrumSepolia"),
        _ => {
            r.set("options.evm_network", "e:Custom");
            let url = *rng.pick(&["http://localhost:8545/", "https://rpc.example.org/v1?key=abc", "http://10.0.0.1:61611/"]);
            r.set("options.evm_network.rpc_url_http", format!("s:{url}"));
            let norm = |a: &str| RewardsAddress::from_str(a).unwrap().to_string();
            r.set("options.evm_network.payment_token_address", format!("s:{}", norm(*rng.pick(&["0x5FbDB2315678afecb367f032d93F642f64180aa3", "0xBE1802c27C324a28aeBcd7eeC7D734246C807194"]))));
            r.set("options.evm_network.data_payments_address", format!("s:{}", norm(*rng.pick(&["0x8464135c8F25Da09e49BC8782676a84730C318bC", "0x7f90A89A5B15D0A3bE7F3F3F7F4B2c1E7b6eF1a2"]))));
        }
    }
    // one port cannot be requested for two purposes (`add_node` refuses that): keep the metrics range clear of the node range
    if let (Some(np), Some(mp)) = (r.some("node_port").and_then(|p| p.parse::<i64>().ok()), r.some("metrics_free_port").and_then(|p| p.parse::<i64>().ok())) {
        if (np - mp).abs() < count as i64 {
            let moved = if np > 60000 { np - 100 } else { np + 100 };
            r.set_some("metrics_free_port", &moved.to_string());
        }
    }
    // ... and clear of the RPC range (a metrics range moved by +100 from 12001 lands on 12101.. and met an RPC range
    // starting at 12103 once three services were added: refused by the real add_node, a thorough-tier-only difference)
    if let Some(mp) = r.some("metrics_free_port").and_then(|p| p.parse::<i64>().ok()) {
        let rp = rpc_port as i64;
        if mp < rp + count as i64 && rp < mp + count as i64 {
            r.set_some("metrics_free_port", &(rp + 300).to_string());
        }
    }
    if let Some(o) = r.some("options.owner") {
        if let Some(t) = case_table(&o) {
            r.set("@case", t);
        }
    }
    if count == 1 && r.get("metrics_free_port") != Some("-") && rng.chance(1, 3) {
        r.set("@metrics_via_server", "T");
    }
    if rng.chance(1, 5) {
        // NAT auto-detection result decides upnp / home_network
        let (nat, upnp, home) = *rng.pick(&[("Public", "F", "F"), ("UPnP", "T", "F"), ("Private", "F", "T")]);
        r.set("@nat", format!("s:{nat}"));
        r.set("options.upnp", upnp);
        r.set("options.home_network", home);
    }
    // circumstances of the upgrade
    if rng.chance(1, 4) {
        r.set_some("@provided", *rng.pick(&["ANT_LOG=v", "A=1,B=2", "Ü=ö ä"]));
    }
    if rng.chance(1, 5) {
        r.set_some("@prev", *rng.pick(&["OLD=1", "ANT_LOG=all"]));
    }
    if count == 1 && rng.chance(1, 3) {
        let p = match r.some("node_port") {
            Some(p) if rng.chance(3, 4) => p,
            _ => rng.range(1025, 65535).to_string(),
        };
        r.set("@listen", format!("s:{p}"));
    }
    // `--bootstrap-cache-dir` given on antctl's own command line (the record's value is the service user's default)
    if rng.chance(1, 6) {
        r.set_some("@cli_cache", *rng.pick(&["$R/my-cache", "$R/Çache dir/x=y", "$R/srv/bootstrap"]));
    }
    if count == 1 && rng.chance(1, 5) {
        // the daemon restarts the started service: peer id retained, or (a service user is needed) a replacement
        if r.get("@listen").is_none() {
            let p = r.some("node_port").unwrap_or_else(|| rng.range(1025, 65535).to_string());
            r.set("@listen", format!("s:{p}"));
        }
        let replace = r.some("options.user").is_some() && rng.chance(1, 2);
        r.set("@drestart", if replace { "s:replace" } else { "s:retain" });
        if replace {
            let nn = number + 1;
            let parent = |p: String| p.rsplit_once('/').map(|x| x.0.to_string()).unwrap_or_default();
            let d = parent(r.some("service_data_dir_path").unwrap_or_default());
            let l = parent(r.some("service_log_dir_path").unwrap_or_default());
            r.set_some("~.new.new_node_number", &nn.to_string());
            r.set_some("~.new.new_service_name", &format!("antnode{nn}"));
            r.set_some("~.new.data_dir_path", &format!("{d}/antnode{nn}"));
            r.set_some("~.new.log_dir_path", &format!("{l}/antnode{nn}"));
            r.set_some("~.new.antnode_path", &format!("{d}/antnode{nn}/antnode"));
        }
    } else if rng.chance(1, 8) {
        // a later `antctl add --env ..` of one more service
        r.set_some("@later", *rng.pick(&["B=2", "ANT_LOG=later,RUST_LOG=debug"]));
    }
    if let Some((count, fault)) = multi {
        r.set("options.peers_args.first", "F"); // a genesis node can only be added alone
        r.set("@count", format!("s:{count}"));
        if let Some((kind, k)) = fault {
            r.set("@fail", format!("s:{kind}:{k}"));
        }
        let np: Option<u64> = r.some("node_port").and_then(|p| p.parse().ok());
        let mp: Option<u64> = r.some("metrics_free_port").and_then(|p| p.parse().ok());
        for i in 2..=count {
            service_keys(&mut r, i, number, dparent, lparent, rpc_ip, rpc_port, user_mode);
            if let Some(p) = np {
                r.set(&format!("node_port#{i}"), format!("s:{}", p + i - 1));
            }
            if let Some(p) = mp {
                r.set(&format!("metrics_free_port#{i}"), format!("s:{}", p + i - 1));
            }
        }
    }
    r
}

pub fn gen_record(bits: u64, evm: u64, rng: &mut Rng) -> Rec {
    gen_record_with(bits, evm, rng, None)
}

pub const N_BITS: usize = 8 + 11 + 2; // BOOLS + OPTS + LISTS

/// number of (i, j, vi, vj) presence combinations covered by a set of bit patterns
pub fn pairwise(cov: &BTreeMap<(usize, usize, bool, bool), u64>) -> (usize, usize) {
    (cov.len(), N_BITS * (N_BITS - 1) / 2 * 4)
}
