//! Shared by `upgrade` and `antnode_accepts`: option records as key/value lines, generation,
//! and execution against the real `add_node` / `NodeService::build_upgrade_install_context`.
use ant_bootstrap::PeersArgs;
use ant_evm::{EvmNetwork, RewardsAddress};
use ant_logging::LogFormat;
use ant_node_manager::add_services::add_node;
use ant_node_manager::add_services::config::{AddNodeServiceOptions, PortRange};
use ant_node_manager::VerbosityLevel;
use ant_service_management::control::ServiceControl;
use ant_service_management::error::Error as SvcError;
use ant_service_management::rpc::{NetworkInfo, NodeInfo, RecordAddress, RpcActions};
use ant_service_management::{NatDetectionStatus, NodeRegistry, NodeService, NodeServiceData, ServiceStateActions, ServiceStatus, UpgradeOptions};
use async_trait::async_trait;
use common::Rng;
use libp2p::{Multiaddr, PeerId};
use service_manager::ServiceInstallCtx;
use std::collections::BTreeMap;
use std::net::{IpAddr, Ipv4Addr, SocketAddr};
use std::path::{Path, PathBuf};
use std::str::FromStr;
use std::sync::Mutex;
use std::time::Duration;

pub const PEER_ID: &str = "12D3KooWS2tpXGGTmg2AHFiDh57yPQnat49YHnyqoggzXZWpqkCR";

/// An option record: ordered `key=value` words (see Driver/Upgrade.lean for the value syntax).
#[derive(Clone, Default)]
pub struct Rec(pub Vec<(String, String)>);

impl Rec {
    pub fn parse(words: &[&str]) -> Option<Rec> {
        let mut v = vec![];
        for w in words {
            let (k, val) = w.split_once('=')?;
            v.push((k.to_string(), val.to_string()));
        }
        Some(Rec(v))
    }
    pub fn set(&mut self, k: &str, v: impl Into<String>) {
        let v = v.into();
        if let Some(e) = self.0.iter_mut().find(|e| e.0 == k) {
            e.1 = v;
        } else {
            self.0.push((k.to_string(), v));
        }
    }
    pub fn get(&self, k: &str) -> Option<&str> {
        self.0.iter().find(|e| e.0 == k).map(|e| e.1.as_str())
    }
    pub fn flag(&self, k: &str) -> bool {
        self.get(k) == Some("T")
    }
    pub fn some(&self, k: &str) -> Option<String> {
        self.get(k).and_then(|v| v.strip_prefix("s:")).map(|s| s.to_string())
    }
    pub fn list(&self, k: &str) -> Vec<String> {
        match self.get(k).and_then(|v| v.strip_prefix("l:")) {
            Some("") | None => vec![],
            Some(r) => r.split(',').map(|s| s.to_string()).collect(),
        }
    }
    pub fn line(&self, op: &str) -> String {
        let mut s = op.to_string();
        for (k, v) in &self.0 {
            s.push(' ');
            s.push_str(k);
            s.push('=');
            s.push_str(v);
        }
        s
    }
}

// ---------- simulated service manager and node RPC ----------
pub struct Ctl {
    pub installed: Mutex<Vec<(ServiceInstallCtx, bool)>>,
    pub free_port: u16,
}
impl ServiceControl for Ctl {
    fn create_service_user(&self, _u: &str) -> Result<(), SvcError> {
        Ok(())
    }
    fn get_available_port(&self) -> Result<u16, SvcError> {
        Ok(self.free_port)
    }
    fn install(&self, ctx: ServiceInstallCtx, user_mode: bool) -> Result<(), SvcError> {
        self.installed.lock().unwrap().push((ctx, user_mode));
        Ok(())
    }
    fn get_process_pid(&self, _p: &Path) -> Result<u32, SvcError> {
        Ok(1000)
    }
    fn start(&self, _n: &str, _u: bool) -> Result<(), SvcError> {
        Ok(())
    }
    fn stop(&self, _n: &str, _u: bool) -> Result<(), SvcError> {
        Ok(())
    }
    fn uninstall(&self, _n: &str, _u: bool) -> Result<(), SvcError> {
        Ok(())
    }
    fn wait(&self, _d: u64) {}
}

pub struct Rpc {
    pub listen: Option<u16>,
}
#[async_trait]
impl RpcActions for Rpc {
    async fn node_info(&self) -> Result<NodeInfo, SvcError> {
        Ok(NodeInfo {
            pid: 1000,
            peer_id: PeerId::from_str(PEER_ID).unwrap(),
            log_path: PathBuf::from("/l"),
            data_path: PathBuf::from("/d"),
            version: "0.1.0".into(),
            uptime: Duration::from_secs(1),
            wallet_balance: 0,
        })
    }
    async fn network_info(&self) -> Result<NetworkInfo, SvcError> {
        let listeners = match self.listen {
            Some(p) => vec![Multiaddr::from_str(&format!("/ip4/127.0.0.1/udp/{p}/quic-v1")).unwrap()],
            None => vec![],
        };
        Ok(NetworkInfo { connected_peers: vec![], listeners })
    }
    async fn record_addresses(&self) -> Result<Vec<RecordAddress>, SvcError> {
        Ok(vec![])
    }
    async fn node_restart(&self, _d: u64, _r: bool) -> Result<(), SvcError> {
        Ok(())
    }
    async fn node_stop(&self, _d: u64) -> Result<(), SvcError> {
        Ok(())
    }
    async fn node_update(&self, _d: u64) -> Result<(), SvcError> {
        Ok(())
    }
    async fn is_node_connected_to_network(&self, _t: Duration) -> Result<(), SvcError> {
        Ok(())
    }
    async fn update_log_level(&self, _l: String) -> Result<(), SvcError> {
        Ok(())
    }
}

fn env_pairs(s: &str) -> Vec<(String, String)> {
    s.split(',').filter(|p| !p.is_empty()).map(|p| { let (k, v) = p.split_once('=').unwrap_or((p, "")); (k.to_string(), v.to_string()) }).collect()
}
pub fn env_show(e: &Option<Vec<(String, String)>>) -> String {
    match e {
        None => "-".into(),
        Some(v) => v.iter().map(|(k, x)| format!("{k}={x}")).collect::<Vec<_>>().join(","),
    }
}

/// How `antctl upgrade` fills `UpgradeOptions.auto_restart`: read from the working tree's source so that
/// the harness follows the code under test (cmd::node::upgrade itself needs a real service manager).
pub fn upgrade_autostart_rule() -> String {
    let src = std::fs::read_to_string("/repo/ant-node-manager/src/cmd/node.rs").unwrap_or_default();
    let Some(i) = src.find("let options = UpgradeOptions {") else { return "?".into() };
    let tail = &src[i..];
    let Some(j) = tail.find("auto_restart:") else { return "?".into() };
    let rest = &tail[j + "auto_restart:".len()..];
    rest.split(',').next().unwrap_or("?").trim().to_string()
}

pub struct Built {
    pub install: ServiceInstallCtx,
    pub install_user_mode: bool,
    pub upgrade: ServiceInstallCtx,
    pub data: NodeServiceData,
}

fn dummy_node(n: u16, root: &Path) -> NodeServiceData {
    NodeServiceData {
        antnode_path: root.join(format!("data/antnode{n}/antnode")),
        auto_restart: false,
        connected_peers: None,
        data_dir_path: root.join(format!("data/antnode{n}")),
        evm_network: EvmNetwork::ArbitrumOne,
        home_network: false,
        listen_addr: None,
        log_dir_path: root.join(format!("log/antnode{n}")),
        log_format: None,
        max_archived_log_files: None,
        max_log_files: None,
        metrics_port: None,
        network_id: None,
        node_ip: None,
        node_port: None,
        number: n,
        owner: None,
        peer_id: None,
        peers_args: PeersArgs::default(),
        pid: None,
        rewards_address: RewardsAddress::from_str("0x03B770D9cD32077cC0bF330c13C114a87643B124").unwrap(),
        reward_balance: None,
        rpc_socket_addr: SocketAddr::new(IpAddr::V4(Ipv4Addr::new(127, 0, 0, 1)), 20000 + n),
        service_name: format!("antnode{n}"),
        status: ServiceStatus::Added,
        upnp: false,
        user: None,
        user_mode: false,
        version: "0.1.0".into(),
    }
}

/// Run the real `add_node` against the simulated service manager, optionally the real `on_start`
/// refresh, then the real `build_upgrade_install_context`.
pub fn build_real(rec: &Rec, root: &Path, rt: &tokio::runtime::Runtime, autostart_rule: &str) -> Result<Built, String> {
    let _ = std::fs::remove_dir_all(root);
    std::fs::create_dir_all(root.join("src")).map_err(|e| e.to_string())?;
    let r = root.to_string_lossy().to_string();
    let sub = |s: String| s.replace("$R", &r);
    let src_bin = root.join("src/antnode");
    std::fs::write(&src_bin, b"fake antnode binary").map_err(|e| e.to_string())?;

    let number: u16 = rec.some("node_number").and_then(|s| s.parse().ok()).ok_or("node_number")?;
    let name = rec.some("service_name").ok_or("service_name")?;
    let data_dir = PathBuf::from(sub(rec.some("service_data_dir_path").ok_or("service_data_dir_path")?));
    let log_dir = PathBuf::from(sub(rec.some("service_log_dir_path").ok_or("service_log_dir_path")?));
    let rpc: SocketAddr = rec.some("rpc_socket_addr").ok_or("rpc_socket_addr")?.parse().map_err(|_| "rpc_socket_addr")?;
    let rpc_ip = match rpc.ip() {
        IpAddr::V4(a) => a,
        _ => return Err("rpc ip".into()),
    };
    let port = |k: &str| -> Option<u16> { rec.some(k).and_then(|s| s.parse().ok()) };
    let metrics = port("metrics_free_port");
    let via_server = rec.flag("@metrics_via_server");
    let evm = match rec.get("options.evm_network") {
        Some("e:ArbitrumOne") => EvmNetwork::ArbitrumOne,
        Some("e:ArbitrumSepolia") => EvmNetwork::ArbitrumSepolia,
        Some("e:Custom") => EvmNetwork::new_custom(
            &rec.some("options.evm_network.rpc_url_http").ok_or("rpc_url_http")?,
            &rec.some("options.evm_network.payment_token_address").ok_or("payment_token_address")?,
            &rec.some("options.evm_network.data_payments_address").ok_or("data_payments_address")?,
        ),
        _ => return Err("options.evm_network".into()),
    };
    let peers_args = PeersArgs {
        first: rec.flag("options.peers_args.first"),
        addrs: rec.list("options.peers_args.addrs").iter().map(|a| Multiaddr::from_str(a).map_err(|e| e.to_string())).collect::<Result<_, _>>()?,
        network_contacts_url: rec.list("options.peers_args.network_contacts_url"),
        local: rec.flag("options.peers_args.local"),
        disable_mainnet_contacts: rec.flag("options.peers_args.disable_mainnet_contacts"),
        ignore_cache: rec.flag("options.peers_args.ignore_cache"),
        bootstrap_cache_dir: rec.some("options.peers_args.bootstrap_cache_dir").map(|s| PathBuf::from(sub(s))),
    };
    let nat = match rec.some("@nat").as_deref() {
        Some("Public") => Some(NatDetectionStatus::Public),
        Some("UPnP") => Some(NatDetectionStatus::UPnP),
        Some("Private") => Some(NatDetectionStatus::Private),
        _ => None,
    };
    // with auto_set_nat_flags the flags given on the command line are overwritten: hand in the opposite
    let (upnp_in, home_in) = if nat.is_some() { (!rec.flag("options.upnp"), !rec.flag("options.home_network")) } else { (rec.flag("options.upnp"), rec.flag("options.home_network")) };
    let options = AddNodeServiceOptions {
        antnode_dir_path: data_dir.parent().ok_or("data dir parent")?.to_path_buf(),
        antnode_src_path: src_bin,
        auto_restart: rec.flag("options.auto_restart"),
        auto_set_nat_flags: nat.is_some(),
        count: Some(1),
        delete_antnode_src: false,
        enable_metrics_server: via_server,
        env_variables: rec.some("options.env_variables").map(|s| env_pairs(&s)),
        evm_network: evm,
        home_network: home_in,
        log_format: match rec.some("options.log_format").as_deref() {
            Some("json") => Some(LogFormat::Json),
            Some("default") => Some(LogFormat::Default),
            Some(_) => return Err("log_format".into()),
            None => None,
        },
        max_archived_log_files: rec.some("options.max_archived_log_files").and_then(|s| s.parse().ok()),
        max_log_files: rec.some("options.max_log_files").and_then(|s| s.parse().ok()),
        metrics_port: if via_server { None } else { metrics.map(PortRange::Single) },
        network_id: rec.some("options.network_id").and_then(|s| s.parse().ok()),
        node_ip: rec.some("options.node_ip").and_then(|s| s.parse().ok()),
        node_port: port("node_port").map(PortRange::Single),
        owner: rec.some("@owner_raw").or_else(|| rec.some("owner")),
        peers_args,
        rewards_address: RewardsAddress::from_str(&rec.some("options.rewards_address").ok_or("rewards")?).map_err(|e| e.to_string())?,
        rpc_address: if rec.flag("@rpc_default_ip") { None } else { Some(rpc_ip) },
        rpc_port: Some(PortRange::Single(rpc.port())),
        service_data_dir_path: data_dir.parent().ok_or("data dir parent")?.to_path_buf(),
        service_log_dir_path: log_dir.parent().ok_or("log dir parent")?.to_path_buf(),
        upnp: upnp_in,
        user: rec.some("options.user"),
        user_mode: rec.flag("options.user_mode"),
        version: rec.some("options.version").unwrap_or_else(|| "0.1.0".into()),
    };
    let mut reg = NodeRegistry {
        auditor: None,
        daemon: None,
        environment_variables: rec.some("@prev").map(|s| env_pairs(&s)),
        faucet: None,
        nat_status: nat,
        nodes: (1..number).map(|n| dummy_node(n, root)).collect(),
        save_path: root.join("node_registry.json"),
    };
    let ctl = Ctl { installed: Mutex::new(vec![]), free_port: metrics.unwrap_or(1) };
    let names = rt.block_on(add_node(options, &mut reg, &ctl, VerbosityLevel::Minimal)).map_err(|e| format!("add_node: {e}"))?;
    if names != vec![name.clone()] {
        return Err(format!("add_node named the service {names:?}, the record says {name}"));
    }
    let (install, install_user_mode) = ctl.installed.lock().unwrap().pop().ok_or("nothing installed")?;
    let mut data = reg.nodes.last().cloned().ok_or("no registry entry")?;

    if let Some(p) = port("@listen") {
        let mut svc = NodeService::new(&mut data, Box::new(Rpc { listen: Some(p) }));
        rt.block_on(svc.on_start(Some(1000), true)).map_err(|e| format!("on_start: {e}"))?;
    }
    let provided = rec.some("@provided").map(|s| env_pairs(&s));
    let env_variables = if provided.is_some() { provided } else { reg.environment_variables.clone() };
    let auto_restart = match autostart_rule {
        "node.auto_restart" => data.auto_restart,
        "false" => false,
        "true" => true,
        other => return Err(format!("unknown-upgrade-literal auto_restart: {other}")),
    };
    let options = UpgradeOptions {
        auto_restart,
        env_variables,
        force: false,
        start_service: true,
        target_bin_path: root.join("src/antnode"),
        target_version: semver::Version::parse("0.2.0").unwrap(),
    };
    let svc = NodeService::new(&mut data, Box::new(Rpc { listen: None }));
    let upgrade = svc.build_upgrade_install_context(options).map_err(|e| format!("upgrade ctx: {e}"))?;
    drop(svc);
    Ok(Built { install, install_user_mode, upgrade, data })
}

pub fn argv(ctx: &ServiceInstallCtx) -> Vec<String> {
    ctx.args.iter().map(|a| a.to_string_lossy().to_string()).collect()
}

pub fn show_ctx(ctx: &ServiceInstallCtx, root: &Path) -> String {
    let r = root.to_string_lossy().to_string();
    let s = format!(
        "{} | autostart={} environment={} label={} program={} username={}",
        argv(ctx).join(" "),
        ctx.autostart,
        env_show(&ctx.environment),
        ctx.label,
        ctx.program.to_string_lossy(),
        ctx.username.clone().unwrap_or_else(|| "-".into())
    );
    s.replace(&r, "$R")
}

// ---------- generation ----------
pub const BOOLS: &[&str] = &[
    "options.auto_restart",
    "options.home_network",
    "options.upnp",
    "options.peers_args.first",
    "options.peers_args.local",
    "options.peers_args.disable_mainnet_contacts",
    "options.peers_args.ignore_cache",
    "options.user_mode",
];
pub const OPTS: &[&str] = &[
    "options.env_variables",
    "options.user",
    "options.log_format",
    "options.network_id",
    "options.node_ip",
    "node_port",
    "metrics_free_port",
    "owner",
    "options.max_archived_log_files",
    "options.max_log_files",
    "options.peers_args.bootstrap_cache_dir",
];
pub const LISTS: &[&str] = &["options.peers_args.addrs", "options.peers_args.network_contacts_url"];

const ADDRS: &[&str] = &[
    "/ip4/10.0.0.1/udp/1200/quic-v1/p2p/12D3KooWRi6wF7yxWLuPSNskXc6kQ5cJ6eaymeMbCRdTnMesPgFx",
    "/ip4/127.0.0.1/tcp/8080/ws/p2p/12D3KooWS2tpXGGTmg2AHFiDh57yPQnat49YHnyqoggzXZWpqkCR",
    "/ip4/192.168.1.7/udp/65535/quic-v1",
];
const URLS: &[&str] = &["http://localhost:8080/contacts", "https://sn-testnet.s3.eu-west-2.amazonaws.com/network-contacts", "http://10.1.1.1/bootstrap_cache.json"];
const REWARDS: &[&str] = &["0x03B770D9cD32077cC0bF330c13C114a87643B124", "0x1111111111111111111111111111111111111111", "0xd8dA6BF26964aF9D7eEd9e03E53415D37aA96045"];

pub fn gen_value(key: &str, rng: &mut Rng) -> String {
    let port = |rng: &mut Rng| -> String { (*rng.pick(&[1u16, 1024, 12000, 40000, 65535]) as u32 + rng.below(3) as u32).min(65535).to_string() };
    match key {
        "options.env_variables" => rng.pick(&["ANT_LOG=all", "ANT_LOG=all,RUST_LOG=libp2p=debug", "X=1"]).to_string(),
        "options.user" => "root".to_string(),
        "options.log_format" => rng.pick(&["json", "default"]).to_string(),
        "options.network_id" => rng.pick(&["0", "1", "7", "255"]).to_string(),
        "options.node_ip" => rng.pick(&["10.0.0.7", "0.0.0.0", "255.255.255.255", "192.168.1.20"]).to_string(),
        "node_port" => port(rng),
        "metrics_free_port" => port(rng),
        "owner" => rng.pick(&["discord_user", "bob", "a.b_c9", "x"]).to_string(),
        "options.max_archived_log_files" | "options.max_log_files" => rng.pick(&["0", "1", "5", "1000000"]).to_string(),
        "options.peers_args.bootstrap_cache_dir" => rng.pick(&["$R/cache", "$R/home/ant/.local/share/autonomi/bootstrap_cache"]).to_string(),
        _ => "x".to_string(),
    }
}

pub fn gen_list(key: &str, rng: &mut Rng) -> String {
    let pool: &[&str] = if key.ends_with("addrs") { ADDRS } else { URLS };
    let n = rng.range(1, 3) as usize;
    let mut v: Vec<String> = vec![];
    for _ in 0..n {
        let c = rng.pick(pool).to_string();
        let c = if key.ends_with("addrs") { Multiaddr::from_str(&c).unwrap().to_string() } else { c };
        v.push(c);
    }
    v.join(",")
}

/// A record from a presence pattern (bit i of `bits` = i-th optional setting switched on) and value choices.
pub fn gen_record(bits: u64, evm: u64, rng: &mut Rng) -> Rec {
    let mut r = Rec::default();
    let number = if rng.chance(1, 3) { rng.range(2, 4) } else { 1 };
    r.set("node_number", format!("s:{number}"));
    r.set("service_name", format!("s:antnode{number}"));
    r.set("service_data_dir_path", format!("s:$R/data/antnode{number}"));
    r.set("service_log_dir_path", format!("s:$R/log/antnode{number}"));
    r.set("service_antnode_path", format!("s:$R/data/antnode{number}/antnode"));
    let rpc_default = rng.chance(1, 2);
    r.set("rpc_socket_addr", format!("s:{}:{}", if rpc_default { "127.0.0.1" } else { *rng.pick(&["127.0.0.1", "10.0.0.9", "0.0.0.0"]) }, rng.range(12000, 12100)));
    r.set("@rpc_default_ip", if rpc_default { "T" } else { "F" });
    r.set("options.rewards_address", format!("s:{}", RewardsAddress::from_str(*rng.pick(REWARDS)).unwrap()));
    r.set("options.version", "s:0.1.0");
    let mut i = 0;
    for k in BOOLS {
        r.set(k, if bits >> i & 1 == 1 { "T" } else { "F" });
        i += 1;
    }
    for k in OPTS {
        if bits >> i & 1 == 1 {
            r.set(k, format!("s:{}", gen_value(k, rng)));
        } else {
            r.set(k, "-");
        }
        i += 1;
    }
    for k in LISTS {
        if bits >> i & 1 == 1 {
            r.set(k, format!("l:{}", gen_list(k, rng)));
        } else {
            r.set(k, "l:");
        }
        i += 1;
    }
    match evm % 3 {
        0 => r.set("options.evm_network", "e:ArbitrumOne"),
        1 => r.set("options.evm_network", "e:ArbitrumSepolia"),
        _ => {
            r.set("options.evm_network", "e:Custom");
            let url = *rng.pick(&["http://localhost:8545/", "https://rpc.example.org/v1?key=abc", "http://10.0.0.1:61611/"]);
            r.set("options.evm_network.rpc_url_http", format!("s:{url}"));
            let norm = |a: &str| RewardsAddress::from_str(a).unwrap().to_string();
            r.set("options.evm_network.payment_token_address", format!("s:{}", norm(*rng.pick(&["0x5FbDB2315678afecb367f032d93F642f64180aa3", "0xBE1802c27C324a28aeBcd7eeC7D734246C807194"]))));
            r.set("options.evm_network.data_payments_address", format!("s:{}", norm(*rng.pick(&["0x8464135c8F25Da09e49BC8782676a84730C318bC", "0x7f90A89A5B15D0A3bE7F3F3F7F4B2c1E7b6eF1a2"]))));
        }
    }
    // derived inputs of add_node
    if r.get("owner") != Some("-") && rng.chance(1, 3) {
        let o = r.some("owner").unwrap();
        let mut c = o.chars();
        let raw: String = c.next().map(|f| f.to_uppercase().collect::<String>() + c.as_str()).unwrap_or_default();
        r.set("@owner_raw", format!("s:{raw}"));
    }
    if r.get("metrics_free_port") != Some("-") && rng.chance(1, 3) {
        r.set("@metrics_via_server", "T");
    }
    if rng.chance(1, 5) {
        // NAT auto-detection result decides upnp / home_network
        let (nat, upnp, home) = *rng.pick(&[("Public", "F", "F"), ("UPnP", "T", "F"), ("Private", "F", "T")]);
        r.set("@nat", format!("s:{nat}"));
        r.set("options.upnp", upnp);
        r.set("options.home_network", home);
    }
    // circumstances of the upgrade
    if rng.chance(1, 4) {
        r.set("@provided", format!("s:{}", rng.pick(&["ANT_LOG=v", "A=1,B=2"])));
    }
    if rng.chance(1, 5) {
        r.set("@prev", format!("s:{}", rng.pick(&["OLD=1", "ANT_LOG=all"])));
    }
    if rng.chance(1, 3) {
        let p = match r.some("node_port") {
            Some(p) if rng.chance(3, 4) => p,
            _ => rng.range(1025, 65535).to_string(),
        };
        r.set("@listen", format!("s:{p}"));
    }
    r
}

pub const N_BITS: usize = 8 + 11 + 2; // BOOLS + OPTS + LISTS

/// number of (i, j, vi, vj) presence combinations covered by a set of bit patterns
pub fn pairwise(cov: &BTreeMap<(usize, usize, bool, bool), u64>) -> (usize, usize) {
    (cov.len(), N_BITS * (N_BITS - 1) / 2 * 4)
}
