//! C17, audit round 6 (node-manager side): a value its parser ACCEPTS must not crash the routine that consumes it.
//!   addnum <max|-> <count|none>   the real `add_node` on a registry whose highest recorded service number is <max> (`-`: no
//!                                 services; the number comes from the registry FILE, loaded with NodeRegistry::load) with
//!                                 `--count <count>`, against a simulated service manager -> ok <first>-<last> | ok none | err | panic
//!                                 (u16 numbering arithmetic: current + count, current + 1, number += 1)
//!   logfiles <u|none> <c|none>    ant_logging::LogBuilder with `--max-log-files <u>` / `--max-archived-log-files <c>` (usize, also
//!                                 stored in the registry) and a directory destination: `initialize()` -> ok | err | panic
//!   logdestrt <stderr|stdout|p:<s>>  LogOutputDest: `parse_from_str(d.to_string())` compared with d -> same | differs | err
//!   killfaucet <pid|null|nofaucet>  `ant_node_manager::local::kill_network` on a registry FILE (no nodes) holding a faucet entry
//!                                 with that `pid` field (`antctl local kill`); pids are above the kernel's pid_max, so
//!                                 no process is ever found -> ok | err | panic
//!   upgrade0 <b> <tp>             `ant_node_manager::cmd::node::upgrade` with a custom binary printing the version text <b>, on
//!                                 this machine's node registry — run only while that registry holds no services (the case
//!                                 in question; otherwise tp = `skipped`); tp = v1 | v0: get_bin_version + semver::Version::parse
//!                                 called directly -> ok | err | panic
use ant_bootstrap::PeersArgs;
use ant_node_manager::add_services::add_node;
use ant_node_manager::add_services::config::AddNodeServiceOptions;
use ant_node_manager::VerbosityLevel;
use ant_service_management::control::ServiceControl;
use ant_service_management::error::Error as SvcError;
use ant_service_management::NodeRegistry;
use common::{hex, unhex, Out, Rng};
use service_manager::ServiceInstallCtx;
use std::os::unix::fs::PermissionsExt;
use std::path::Path;

struct Ctl;
impl ServiceControl for Ctl {
    fn create_service_user(&self, _u: &str) -> Result<(), SvcError> {
        Ok(())
    }
    fn get_available_port(&self) -> Result<u16, SvcError> {
        Ok(40000)
    }
    fn install(&self, _ctx: ServiceInstallCtx, _user_mode: bool) -> Result<(), SvcError> {
        Ok(())
    }
    fn get_process_pid(&self, _p: &Path) -> Result<u32, SvcError> {
        Ok(4_194_999)
    }
    fn start(&self, _n: &str, _u: bool) -> Result<(), SvcError> {
        Ok(())
    }
    fn stop(&self, _n: &str, _u: bool) -> Result<(), SvcError> {
        Ok(())
    }
    fn uninstall(&self, _n: &str, _u: bool) -> Result<(), SvcError> {
        Ok(())
    }
    fn wait(&self, _d: u64) {}
}

/// how many services the harness lets one `addnum` really install
const MAX_ADDS: u32 = 40;

fn quiet<T>(f: impl FnOnce() -> T) -> T {
    use std::io::Write;
    use std::os::fd::AsRawFd;
    extern "C" {
        fn dup(fd: i32) -> i32;
        fn dup2(a: i32, b: i32) -> i32;
        fn close(fd: i32) -> i32;
    }
    let _ = std::io::stdout().flush();
    let null = std::fs::OpenOptions::new().write(true).open("/dev/null").ok();
    let (saved1, saved2) = unsafe { (dup(1), dup(2)) };
    if let Some(n) = &null {
        unsafe {
            dup2(n.as_raw_fd(), 1);
            dup2(n.as_raw_fd(), 2);
        }
    }
    let r = std::panic::catch_unwind(std::panic::AssertUnwindSafe(f));
    let _ = std::io::stdout().flush();
    unsafe {
        if saved1 >= 0 {
            dup2(saved1, 1);
            close(saved1);
        }
        if saved2 >= 0 {
            dup2(saved2, 2);
            close(saved2);
        }
    }
    match r {
        Ok(v) => v,
        Err(e) => std::panic::resume_unwind(e),
    }
}

pub fn exec(ws: &[&str], tmp: &Path, op: &mut String) -> Option<String> {
    Some(match ws {
        ["addnum", max, count] => {
            let max: Option<u16> = if *max == "-" { None } else { let Ok(m) = max.parse::<u16>() else { return Some("bad-op".into()) }; Some(m) };
            let count: Option<u16> = if *count == "none" { None } else { let Ok(c) = count.parse::<u16>() else { return Some("bad-op".into()) }; Some(c) };
            let (m, c) = (max.unwrap_or(0) as u32, count.unwrap_or(1) as u32);
            if max == Some(0) || (c > MAX_ADDS && m + c <= 65535) {
                return Some("bad-op".into()); // would really install that many services (on either side of the repair)
            }
            let root = tmp.join("addnum");
            let _ = std::fs::remove_dir_all(&root);
            std::fs::create_dir_all(root.join("src")).expect("dir");
            let src = root.join("src/antnode");
            std::fs::write(&src, b"fake antnode binary").expect("src");
            // the registry as a FILE: the highest number is stored text
            let reg_path = root.join("node_registry.json");
            let mut reg0 = NodeRegistry { auditor: None, daemon: None, environment_variables: None, faucet: None, nat_status: None, nodes: vec![], save_path: reg_path.clone() };
            if let Some(m) = max {
                let mut n = super::sample_node(m);
                n.metrics_port = None;
                n.node_port = None;
                reg0.nodes.push(n);
            }
            reg0.save().expect("save registry");
            let Ok(mut reg) = NodeRegistry::load(&reg_path) else { return Some("bad-op".into()) };
            let options = AddNodeServiceOptions {
                antnode_dir_path: root.join("services"),
                antnode_src_path: src,
                auto_restart: false,
                auto_set_nat_flags: false,
                count,
                delete_antnode_src: false,
                enable_metrics_server: false,
                env_variables: None,
                evm_network: Default::default(),
                home_network: false,
                log_format: None,
                max_archived_log_files: None,
                max_log_files: None,
                metrics_port: None,
                network_id: None,
                node_ip: None,
                node_port: None,
                owner: None,
                peers_args: PeersArgs::default(),
                rewards_address: Default::default(),
                rpc_address: None,
                rpc_port: None,
                service_data_dir_path: root.join("services"),
                service_log_dir_path: root.join("logs"),
                upnp: false,
                user: None,
                user_mode: false,
                version: "0.1.0".into(),
            };
            let rt = tokio::runtime::Builder::new_current_thread().enable_all().build().expect("runtime");
            let r = quiet(|| rt.block_on(add_node(options, &mut reg, &Ctl, VerbosityLevel::Minimal)));
            match r {
                Ok(names) => {
                    let nums: Vec<u32> = names.iter().filter_map(|n| n.strip_prefix("antnode").and_then(|x| x.parse().ok())).collect();
                    match (nums.first(), nums.last()) {
                        (Some(a), Some(b)) if nums.len() == names.len() => format!("ok {a}-{b}"),
                        (None, None) => "ok none".into(),
                        _ => "ok ?".into(),
                    }
                }
                Err(_) => "err".into(),
            }
        }
        ["logfiles", u, c] => {
            let parse = |s: &str| -> Option<Option<usize>> { if s == "none" { Some(None) } else { s.parse::<usize>().ok().map(Some) } };
            let (Some(u), Some(c)) = (parse(u), parse(c)) else { return Some("bad-op".into()) };
            let dir = tmp.join("logfiles");
            let mut b = ant_logging::LogBuilder::new(vec![]);
            b.output_dest(ant_logging::LogOutputDest::Path(dir));
            b.print_updates_to_stdout(false);
            if let Some(u) = u {
                b.max_log_files(u);
            }
            if let Some(c) = c {
                b.max_archived_log_files(c);
            }
            // a second `initialize()` in one process only reports (stderr) that a subscriber is installed already
            match quiet(|| b.initialize()) {
                Ok(_) => "ok".into(),
                Err(_) => "err".into(),
            }
        }
        ["logdestrt", d] => {
            use ant_logging::LogOutputDest;
            let dest = match *d {
                "stderr" => LogOutputDest::Stderr,
                "stdout" => LogOutputDest::Stdout,
                p => {
                    let Some(Ok(p)) = p.strip_prefix("p:").and_then(unhex).map(String::from_utf8) else { return Some("bad-op".into()) };
                    LogOutputDest::Path(std::path::PathBuf::from(p))
                }
            };
            let same = |a: &LogOutputDest, b: &LogOutputDest| match (a, b) {
                (LogOutputDest::Stderr, LogOutputDest::Stderr) | (LogOutputDest::Stdout, LogOutputDest::Stdout) => true,
                (LogOutputDest::Path(x), LogOutputDest::Path(y)) => x == y,
                _ => false,
            };
            match LogOutputDest::parse_from_str(&dest.to_string()) {
                Ok(back) => if same(&dest, &back) { "same".into() } else { "differs".into() },
                Err(_) => "err".into(),
            }
        }
        ["killfaucet", pid] => {
            let faucet = match *pid {
                "nofaucet" => "null".to_string(),
                p => {
                    let pid_json = if p == "null" { "null".to_string() } else {
                        let Ok(n) = p.parse::<u32>() else { return Some("bad-op".into()) };
                        if n <= 4_194_304 {
                            return Some("bad-op".into()); // never a pid that could exist
                        }
                        n.to_string()
                    };
                    format!("{{\"faucet_path\":\"/bin/faucet\",\"local\":true,\"log_dir_path\":\"/tmp/faucet-logs\",\"pid\":{pid_json},\"service_name\":\"faucet\",\"status\":\"Running\",\"user\":\"u\",\"version\":\"0.1.0\"}}")
                }
            };
            let path = tmp.join("local_node_registry.json");
            let text = format!("{{\"auditor\":null,\"daemon\":null,\"environment_variables\":null,\"faucet\":{faucet},\"nat_status\":null,\"nodes\":[],\"save_path\":\"{}\"}}", path.display());
            std::fs::write(&path, text).expect("write registry");
            let Ok(reg) = NodeRegistry::load(&path) else { return Some("bad-op".into()) };
            if !reg.nodes.is_empty() || (*pid != "nofaucet") != reg.faucet.is_some() {
                return Some("bad-op".into());
            }
            match quiet(|| ant_node_manager::local::kill_network(&reg, true)) {
                Ok(()) => "ok".into(),
                Err(_) => "err".into(),
            }
        }
        ["upgrade0", b, ..] => {
            let Some(bytes) = unhex(b) else { return Some("bad-op".into()) };
            // the machine's registry (a fixed system path when running as root): only the zero-services case is driven
            *op = format!("upgrade0 {b} skipped");
            let Ok(path) = ant_node_manager::config::get_node_registry_path() else { return Some("skipped".into()) };
            match NodeRegistry::load(&path) {
                Ok(r) if r.nodes.is_empty() => {}
                _ => return Some("skipped".into()),
            }
            let data = tmp.join("upgrade-verout.bin");
            let script = tmp.join("upgrade-fakebin.sh");
            std::fs::write(&data, &bytes).expect("write version output");
            std::fs::write(&script, format!("#!/bin/sh\nexec cat \"{}\"\n", data.display())).expect("write script");
            std::fs::set_permissions(&script, std::fs::Permissions::from_mode(0o755)).expect("chmod");
            // third-party verdict: the version text the program prints, as a semantic version
            let v_ok = ant_node_manager::helpers::get_bin_version(&script).ok().map(|v| semver::Version::parse(&v).is_ok()).unwrap_or(false);
            *op = format!("upgrade0 {b} {}", if v_ok { "v1" } else { "v0" });
            let rt = tokio::runtime::Builder::new_current_thread().enable_all().build().expect("runtime");
            let r = quiet(|| {
                rt.block_on(ant_node_manager::cmd::node::upgrade(
                    1,
                    true,
                    Some(script.clone()),
                    false,
                    None,
                    vec![],
                    None,
                    vec![],
                    None,
                    None,
                    VerbosityLevel::Minimal,
                ))
            });
            match r {
                Ok(()) => "ok".into(),
                Err(_) => "err".into(),
            }
        }
        _ => return None,
    })
}

pub fn oracle(ws: &[&str], res: &str, line: &str, out: &mut Out) {
    if let ["logdestrt", d] = ws {
        // the round trip holds wherever `log_dest_roundtrip_partial` says it does: Stdout, and every path that is not one of
        // the parser's keywords (Stderr and the paths `stdout` / `data-dir` are the declared exception)
        let keyword = ["p:7374646f7574", "p:646174612d646972", "stderr"].contains(d);
        if !keyword && res != "same" {
            out.oracle_fail("roundtrip", line, &format!("LogOutputDest::parse_from_str(d.to_string()) = {res}"));
        }
    }
    if let ["addnum", max, count] = ws {
        // numbers handed out are max+1 ..= max+count, all within u16 — stated with wide integers
        let m: u64 = max.parse().unwrap_or(0);
        let c: u64 = if *count == "none" { 1 } else { count.parse().unwrap_or(0) };
        if let Some(r) = res.strip_prefix("ok ") {
            let want = if c == 0 { "none".to_string() } else { format!("{}-{}", m + 1, m + c) };
            if r != want || m + c > 65535 {
                out.oracle_fail("numbering-exact", line, &format!("services were numbered {r}, expected {want} within 1..=65535"));
            }
        }
    }
}

pub fn generate(rng: &mut Rng, n: u64) -> Vec<String> {
    let mut v: Vec<String> = vec![];
    // minimal failures first
    v.push("addnum 65535 none".into());
    v.push("addnum 65534 none".into());
    v.push("addnum 1 65535".into());
    v.push("addnum 65535 0".into());
    v.push("addnum 65533 none".into());
    v.push("addnum 65533 2".into());
    v.push("addnum 65530 4".into());
    v.push("addnum 65530 5".into());
    v.push("addnum 65530 6".into());
    v.push("addnum - none".into());
    v.push("addnum - 0".into());
    v.push("addnum - 3".into());
    v.push("addnum 7 2".into());
    v.push("addnum 40000 25536".into());
    v.push(format!("logfiles {} 1", usize::MAX));
    v.push(format!("logfiles 1 {}", usize::MAX));
    v.push(format!("logfiles {} {}", usize::MAX, usize::MAX));
    v.push(format!("logfiles {} 0", usize::MAX));
    v.push(format!("logfiles none {}", usize::MAX));
    v.push(format!("logfiles {} none", usize::MAX));
    v.push("logfiles none none".into());
    v.push("logfiles 0 0".into());
    v.push("logfiles 5 3".into());
    for d in ["stderr", "stdout", "p:7374646f7574", "p:646174612d646972", "p:737464657272", "p:2f7661722f6c6f67", "p:-", "p:c3a9"] {
        v.push(format!("logdestrt {d}"));
    }
    v.push("killfaucet null".into());
    v.push("killfaucet nofaucet".into());
    v.push("killfaucet 4194999".into());
    v.push(format!("killfaucet {}", u32::MAX));
    v.push(format!("upgrade0 {} x", hex(b"antnode 0.112.6\n")));
    v.push(format!("upgrade0 {} x", hex(b"garbage")));
    for _ in 0..(n / 100).clamp(10, 60) {
        match rng.below(3) {
            0 => {
                let max = *rng.pick(&[1u32, 2, 100, 32767, 32768, 65500, 65530, 65533, 65534, 65535]);
                let count = match rng.below(6) {
                    0 => 65535 - max,
                    1 => 65536 - max,
                    2 => (65534u32).saturating_sub(max),
                    3 => *rng.pick(&[0u32, 1, 2, 3]),
                    4 => *rng.pick(&[65535u32, 65534, 32768]),
                    _ => rng.below(6) as u32,
                }
                .min(65535);
                if count > MAX_ADDS && max + count <= 65535 {
                    continue;
                }
                if rng.chance(1, 6) {
                    v.push(format!("addnum {max} none"));
                } else {
                    v.push(format!("addnum {max} {count}"));
                }
            }
            1 => {
                let edge = |rng: &mut Rng| -> String {
                    match rng.below(6) {
                        0 => "none".into(),
                        1 => usize::MAX.to_string(),
                        2 => (usize::MAX - rng.below(3) as usize).to_string(),
                        3 => (usize::MAX / 2 + rng.below(3) as usize).to_string(),
                        _ => rng.below(20).to_string(),
                    }
                };
                v.push(format!("logfiles {} {}", edge(rng), edge(rng)));
            }
            _ => {
                v.push(format!("killfaucet {}", rng.pick(&["null", "nofaucet", "4194305", "4294967295", "2147483648"])));
            }
        }
    }
    v
}
