//! C17, coverage round 2 (node-manager side): routines that parse text of programs, the environment and config files.
//!   binversion <b>            ant_node_manager::helpers::get_bin_version on a program whose `--version` prints the bytes <b>
//!                             -> ok <version text> | err | panic
//!   envvar <s>                antctl's `--env` value parser `parse_environment_variables` (bin-private: its source text is
//!                             compiled in from /repo/ant-node-manager/src/bin/cli/main.rs by the build script) -> ok <k> <v> | err | panic
//!   logtargets <s>            ant_logging `get_logging_targets` (ANT_LOG / the node RPC's log-level text) through
//!                             `ReloadHandle::modify_log_level` -> ok | err | panic
//!   lpkeys <s>                node_launchpad::config::parse_key_sequence (key-binding strings of the launchpad config file)
//!                             -> ok <code>:<mods>,… | err | panic      (mods: SHIFT 1, CONTROL 2, ALT 4)
//!   lpstyle <s>               node_launchpad::config::parse_style (style strings of the config file) -> ok fg=<n|-> bg=<n|-> mod=<bits> | panic
//!   lpconfig <fmt> <b> <tp>   node_launchpad::config::Config::new() with <b> as config.<fmt> in the launchpad config directory
//!                             (fmt = json5|json|yaml|toml|ini); tp = err | k:<s>,…;s:<s>,… — the key-binding strings and style
//!                             strings the `config` crate hands to the deserialisers (obtained through a mirror struct) -> ok | err | panic
//!   appdata <missing|b> <tp>  node_launchpad::config::AppData::load(path); tp = na | err | ok (serde_json + UTF-8 called directly) -> ok | err | panic
use common::{hex, unhex, Out, Rng};
use std::collections::HashMap;
use std::os::unix::fs::PermissionsExt;
use std::path::{Path, PathBuf};
use std::sync::OnceLock;

#[allow(dead_code)]
mod antctl {
    use color_eyre::{eyre::eyre, Result};
    include!(concat!(env!("OUT_DIR"), "/antctl_parse_environment_variables.rs"));
    pub fn call(s: &str) -> Result<(String, String)> {
        parse_environment_variables(s)
    }
}

pub static RELOAD: OnceLock<ant_logging::ReloadHandle> = OnceLock::new();
static GUARD: OnceLock<Option<ant_logging::WorkerGuard>> = OnceLock::new();

/// The process-wide subscriber is ant-logging's own (its `LogFormatter` formats every event of every target into
/// rotated files under `dir`): this gives the `ReloadHandle` whose `modify_log_level` is the public door to
/// `get_logging_targets`, and keeps the "every log statement is really formatted" guarantee of the other binaries.
pub fn init_logging(dir: &Path) {
    std::env::remove_var("ANT_LOG");
    let mut b = ant_logging::LogBuilder::new(vec![(String::new(), ant_logging::Level::TRACE)]);
    b.output_dest(ant_logging::LogOutputDest::Path(dir.to_path_buf()));
    b.print_updates_to_stdout(false);
    if let Ok((h, g)) = b.initialize() {
        let _ = RELOAD.set(h);
        let _ = GUARD.set(g);
    }
}

fn s_of(h: &str) -> Option<String> {
    String::from_utf8(unhex(h)?).ok()
}

fn hx(s: &str) -> String {
    hex(s.as_bytes())
}

fn key_code_name(c: &crossterm::event::KeyCode) -> String {
    use crossterm::event::KeyCode::*;
    match c {
        Esc => "esc".into(),
        Enter => "enter".into(),
        Left => "left".into(),
        Right => "right".into(),
        Up => "up".into(),
        Down => "down".into(),
        Home => "home".into(),
        End => "end".into(),
        PageUp => "pageup".into(),
        PageDown => "pagedown".into(),
        BackTab => "backtab".into(),
        Backspace => "backspace".into(),
        Delete => "delete".into(),
        Insert => "insert".into(),
        Tab => "tab".into(),
        F(n) => format!("f{n}"),
        Char(ch) => format!("c{}", *ch as u32),
        other => format!("other({other:?})"),
    }
}

fn color_name(c: Option<ratatui::style::Color>) -> String {
    match c {
        None => "-".into(),
        Some(ratatui::style::Color::Indexed(i)) => i.to_string(),
        Some(other) => format!("other({other:?})"),
    }
}

#[derive(serde::Deserialize, Default)]
struct MirrorConfig {
    #[serde(default)]
    keybindings: HashMap<node_launchpad::mode::Scene, HashMap<String, node_launchpad::action::Action>>,
    #[serde(default)]
    styles: HashMap<node_launchpad::mode::Scene, HashMap<String, String>>,
}

const CONFIG_FORMATS: &[(&str, config::FileFormat)] = &[
    ("json5", config::FileFormat::Json5),
    ("json", config::FileFormat::Json),
    ("yaml", config::FileFormat::Yaml),
    ("toml", config::FileFormat::Toml),
    ("ini", config::FileFormat::Ini),
];

fn launchpad_config_dir() -> Option<PathBuf> {
    node_launchpad::config::get_config_dir().ok()
}

/// what the `config` crate hands to the `KeyBindings` / `Styles` deserialisers (same builder as `Config::new`)
fn config_verdict(dir: &Path) -> String {
    let mut b = config::Config::builder();
    b = match b.set_default("_data_dir", "x").and_then(|b| b.set_default("_config_dir", "x")) {
        Ok(b) => b,
        Err(_) => return "err".into(),
    };
    for (f, fmt) in CONFIG_FORMATS {
        b = b.add_source(config::File::from(dir.join(format!("config.{f}"))).format(*fmt).required(false));
    }
    let Ok(built) = b.build() else { return "err".into() };
    let Ok(m) = built.try_deserialize::<MirrorConfig>() else { return "err".into() };
    let mut keys: Vec<String> = m.keybindings.values().flat_map(|x| x.keys().map(|k| hx(k))).collect();
    let mut styles: Vec<String> = m.styles.values().flat_map(|x| x.values().map(|k| hx(k))).collect();
    keys.sort();
    styles.sort();
    format!("k:{};s:{}", if keys.is_empty() { "-".to_string() } else { keys.join(",") }, if styles.is_empty() { "-".to_string() } else { styles.join(",") })
}

/// Executes an op of this module; `None` if the op is not one of ours.
pub fn exec(ws: &[&str], tmp: &Path, op: &mut String) -> Option<String> {
    Some(match ws {
        ["binversion", b] => {
            let Some(bytes) = unhex(b) else { return Some("bad-op".into()) };
            let data = tmp.join("verout.bin");
            let script = tmp.join("fakebin.sh");
            std::fs::write(&data, &bytes).expect("write version output");
            if !script.exists() {
                std::fs::write(&script, format!("#!/bin/sh\nexec cat \"{}\"\n", data.display())).expect("write script");
                std::fs::set_permissions(&script, std::fs::Permissions::from_mode(0o755)).expect("chmod");
            }
            let r = ant_node_manager::helpers::get_bin_version(&script);
            // get_bin_version does not wait for the program it started: reap it, so that long runs do not pile up zombies
            unsafe {
                let mut st = 0;
                while libc_waitpid(-1, &mut st, 1) > 0 {}
            }
            match r {
                Ok(v) => format!("ok {}", hx(&v)),
                Err(_) => "err".into(),
            }
        }
        ["envvar", h] => {
            let Some(s) = s_of(h) else { return Some("bad-op".into()) };
            match antctl::call(&s) {
                Ok((k, v)) => format!("ok {} {}", hx(&k), hx(&v)),
                Err(_) => "err".into(),
            }
        }
        ["logtargets", h] => {
            let Some(s) = s_of(h) else { return Some("bad-op".into()) };
            let Some(handle) = RELOAD.get() else { return Some("bad-op".into()) };
            let r = handle.modify_log_level(&s);
            // back to "every target at TRACE" for the ops that follow
            let _ = handle.modify_log_level("=trace");
            match r {
                Ok(()) => "ok".into(),
                Err(_) => "err".into(),
            }
        }
        ["lpkeys", h] => {
            let Some(s) = s_of(h) else { return Some("bad-op".into()) };
            match node_launchpad::config::parse_key_sequence(&s) {
                Ok(evs) => {
                    let items: Vec<String> = evs.iter().map(|e| format!("{}:{}", key_code_name(&e.code), e.modifiers.bits())).collect();
                    format!("ok {}", if items.is_empty() { "-".to_string() } else { items.join(",") })
                }
                Err(_) => "err".into(),
            }
        }
        ["lpstyle", h] => {
            let Some(s) = s_of(h) else { return Some("bad-op".into()) };
            let st = node_launchpad::config::parse_style(&s);
            format!("ok fg={} bg={} mod={}", color_name(st.fg), color_name(st.bg), st.add_modifier.bits())
        }
        ["lpconfig", fmt, b, ..] => {
            let Some(bytes) = unhex(b) else { return Some("bad-op".into()) };
            if !CONFIG_FORMATS.iter().any(|(f, _)| f == fmt) {
                return Some("bad-op".into());
            }
            let Some(dir) = launchpad_config_dir() else { return Some("bad-op".into()) };
            for (f, _) in CONFIG_FORMATS {
                let _ = std::fs::remove_file(dir.join(format!("config.{f}")));
            }
            std::fs::write(dir.join(format!("config.{fmt}")), &bytes).expect("write config file");
            *op = format!("lpconfig {fmt} {b} {}", config_verdict(&dir));
            match node_launchpad::config::Config::new() {
                Ok(_) => "ok".into(),
                Err(_) => "err".into(),
            }
        }
        ["appdata", src, ..] => {
            let path = tmp.join("app_data.json");
            let _ = std::fs::remove_file(&path);
            let tp = if *src == "missing" {
                "na".to_string()
            } else {
                let Some(b) = unhex(src) else { return Some("bad-op".into()) };
                std::fs::write(&path, &b).expect("write app data");
                match std::str::from_utf8(&b) {
                    Ok(t) => if serde_json::from_str::<node_launchpad::config::AppData>(t).is_ok() { "ok".into() } else { "err".into() },
                    Err(_) => "err".into(),
                }
            };
            *op = format!("appdata {src} {tp}");
            match node_launchpad::config::AppData::load(Some(path)) {
                Ok(_) => "ok".into(),
                Err(_) => "err".into(),
            }
        }
        _ => return None,
    })
}

extern "C" {
    #[link_name = "waitpid"]
    fn libc_waitpid(pid: i32, status: *mut i32, options: i32) -> i32;
}

/// Model-independent oracle clauses for the ops of this module (the no-panic clause is applied by the caller).
pub fn oracle(ws: &[&str], res: &str, line: &str, out: &mut Out) {
    match ws {
        ["envvar", h] => {
            // KEY=VALUE: accepted iff there is a '=', the key is the text before the first one, the value the rest
            let Some(s) = s_of(h) else { return };
            let want = match s.find('=') {
                Some(i) => format!("ok {} {}", hx(&s[..i]), hx(&s[i + 1..])),
                None => "err".into(),
            };
            if res != want {
                out.oracle_fail("envvar-exact", line, &format!("got {res}, expected {want}"));
            }
        }
        ["binversion", b] => {
            // the version is a blank-free token of the first line of the program's output
            if let Some(v) = res.strip_prefix("ok ") {
                let (Some(v), Some(all)) = (s_of(v), unhex(b)) else { return };
                let text = String::from_utf8_lossy(&all).to_string();
                let first = text.lines().next().unwrap_or("");
                if v.is_empty() || v.chars().any(char::is_whitespace) || !first.contains(&v) {
                    out.oracle_fail("binversion-sound", line, &format!("version {v:?} is not a token of the first output line {first:?}"));
                }
            }
        }
        ["lpstyle", ..] => {
            if !res.starts_with("ok fg=") || res.contains("other(") {
                out.oracle_fail("style-shape", line, &format!("unexpected style {res}"));
            }
        }
        _ => {}
    }
}

/// "Long non-ASCII" family (see the main file).
fn non_ascii_sweep(fill: char, max: usize) -> Vec<String> {
    let mut v = vec![];
    for off in 0..=max {
        for ch in ['é', '€', '😀', 'İ'] {
            let head: String = std::iter::repeat(fill).take(off).collect();
            v.push(format!("{head}{ch}{fill}"));
        }
    }
    v
}

fn mutate(rng: &mut Rng, s: &str) -> String {
    let mut c: Vec<char> = s.chars().collect();
    match rng.below(6) {
        0 if !c.is_empty() => {
            let i = rng.below(c.len() as u64) as usize;
            c[i] = *rng.pick(&['<', '>', '-', ' ', 'é', '0', 'v', '=', ',', '\n', 'İ', 'K', '9', 'x']);
        }
        1 if !c.is_empty() => {
            let i = rng.below(c.len() as u64) as usize;
            c.remove(i);
        }
        2 => {
            let i = rng.below(c.len() as u64 + 1) as usize;
            c.insert(i, *rng.pick(&['<', '>', '-', ' ', '=', ',', 'v', '7', 'İ']));
        }
        3 => c.truncate(rng.below(c.len() as u64 + 1) as usize),
        4 => c.push(*rng.pick(&['>', '<', ' ', '9', '=', 'v'])),
        _ => {
            if !c.is_empty() {
                let i = rng.below(c.len() as u64) as usize;
                let x = c[i];
                c.insert(i, x);
            }
        }
    }
    c.into_iter().collect()
}

const KEY_NAMES: &[&str] = &[
    "esc", "enter", "left", "right", "up", "down", "home", "end", "pageup", "pagedown", "backtab", "backspace", "delete", "insert",
    "f1", "f2", "f9", "f10", "f11", "f12", "f13", "f0", "space", "hyphen", "minus", "tab", "a", "z", "Q", "0", "-", "<", ">", "=", "é", "İ", "ab", "",
];
const MODS: &[&str] = &["ctrl-", "alt-", "shift-", "Ctrl-", "ALT-", "Shift-", "ctrl", "meta-", "ctrl--"];

fn key_string(rng: &mut Rng) -> String {
    let n = 1 + rng.below(3);
    let mut s = String::new();
    for _ in 0..n {
        let mut k = String::new();
        for _ in 0..rng.below(4) {
            k.push_str(*rng.pick(MODS));
        }
        k.push_str(*rng.pick(KEY_NAMES));
        match rng.below(6) {
            0 => s.push_str(&k),
            1 => s.push_str(&format!("<{k}")),
            2 => s.push_str(&format!("{k}>")),
            _ => s.push_str(&format!("<{k}>")),
        }
    }
    s
}

const COLOR_WORDS: &[&str] = &[
    "black", "red", "green", "yellow", "blue", "magenta", "cyan", "white", "bold black", "bold white", "bright red", "grey", "gray", "gray0", "gray1",
    "gray23", "gray24", "gray25", "gray255", "gray256", "grey23", "grey24", "color0", "color255", "color256", "colour1", "bright color8", "bright color255",
    "rgb", "rgb0", "rgb00", "rgb000", "rgb555", "rgb556", "rgb600", "rgb655", "rgb700", "rgb999", "rgb5", "rgbabc", "rgb12é", "argb12", "xrgb", "  rgb123  ", "rgb1234",
    "", " ", "on", "on ", "ON ", "bold", "underline", "inverse", "bold underline inverse",
];

fn style_string(rng: &mut Rng) -> String {
    let mut s = String::new();
    for _ in 0..rng.below(3) {
        s.push_str(*rng.pick(&["bold ", "underline ", "inverse ", "bright ", " ", "Bold "]));
    }
    s.push_str(*rng.pick(COLOR_WORDS));
    if rng.chance(1, 2) {
        s.push_str(*rng.pick(&[" on ", " ON ", "on ", " on", " On "]));
        for _ in 0..rng.below(2) {
            s.push_str(*rng.pick(&["bold ", "underline ", "inverse ", "bright "]));
        }
        s.push_str(*rng.pick(COLOR_WORDS));
    }
    s
}

fn config_text(rng: &mut Rng, fmt: &str) -> String {
    let key = if rng.chance(2, 3) { rng.pick(&["<q>", "<Ctrl-c>", "<ctrl-x><ctrl-c>", "up", "<esc>", "<f5>", "<shift-tab>"]).to_string() } else { key_string(rng) };
    let style = if rng.chance(1, 2) { rng.pick(&["red on blue", "bold white", "gray10", "rgb123", "color17", ""]).to_string() } else { style_string(rng) };
    let esc = |s: &str| s.replace('\\', "\\\\").replace('"', "\\\"").replace('\n', "\\n");
    match fmt {
        "json5" | "json" => {
            let kb = format!("\"keybindings\":{{\"Status\":{{\"{}\":\"Quit\"}}}}", esc(&key));
            let st = format!("\"styles\":{{\"Status\":{{\"x\":\"{}\"}}}}", esc(&style));
            match rng.below(4) {
                0 => format!("{{{kb}}}"),
                1 => format!("{{{st}}}"),
                _ => format!("{{{kb},{st}}}"),
            }
        }
        "yaml" => format!("keybindings:\n  Status:\n    \"{}\": Quit\nstyles:\n  Status:\n    x: \"{}\"\n", esc(&key), esc(&style)),
        "toml" => format!("[keybindings.Status]\n\"{}\" = \"Quit\"\n[styles.Status]\nx = \"{}\"\n", esc(&key), esc(&style)),
        _ => format!("[styles]\nx = {style}\n"),
    }
}

pub fn generate(rng: &mut Rng, n: u64) -> Vec<String> {
    let mut v: Vec<String> = vec![];
    // past minimal failures first
    for s in ["gray24", "gray255", "rgb", "rgb12", "xrgb", "rgb700", "rgb999", "İİİİon ", "red on gray24", "bold rgb7 on rgb"] {
        v.push(format!("lpstyle {}", hx(s)));
    }
    v.push(format!("lpconfig json {} x", hx("{\"keybindings\":{\"Status\":{\"<qq>\":\"Quit\"}}}")));
    v.push(format!("lpconfig json5 {} x", hx("{keybindings:{Status:{'<ctrl->':'Quit'}}}")));
    v.push(format!("lpconfig json {} x", hx("{\"styles\":{\"Status\":{\"x\":\"gray24\"}}}")));
    v.push(format!("lpconfig yaml {} x", hx("styles:\n  Status:\n    x: rgb\n")));
    // program output: empty, every shape of the first line, 'v' at every position incl. last, non-UTF-8, blank kinds
    for s in ["", "\n", "v", "v\n", "antnode v0.1.2", "antnode v0.1.2\nmore", "v1.2.3 extra", "Autonomi Node v0.112.6", "antnode 2024.12.01", "  ", "x\r\nv2", "x v", "v ", "v\t1",
              "vv1", "é v1.0", "v1.0 é", "v\u{a0}1.0", "v\u{2003}1.0", "1.0\u{3000}", "antnode v0.1.2\r\n", "antnode v0.1.2\r", "\rv1", "nightly 2024.01.02 \n", "v\u{85}x"] {
        v.push(format!("binversion {}", hx(s)));
    }
    v.push("binversion ff".into());
    v.push("binversion 76ff".into());
    v.push(format!("binversion {}", hex(&[b'a', b' ', 0xc3])));
    for s in ["", "=", "a", "a=", "=b", "a=b", "a=b=c", "==", "é=ü", "KEY=a,b", "a\n=b", " a = b "] {
        v.push(format!("envvar {}", hx(s)));
    }
    for s in ["", "all", "v", "all,v", "libp2p=DEBUG,tokio=INFO,all,sn_client=ERROR", "ant_node", "ant_node=", "=trace", "=", ",", "a=b", "a=info=x", "a==info", "a=İNFO", "a=\u{212a}", "a=WARN,",
              "all=info", "v=", "x=error", "x=Error ", "x= info", "ALL", "a=trace,a=bogus", "é=trace", "a=tracé"] {
        v.push(format!("logtargets {}", hx(s)));
    }
    for s in ["", "q", "<q>", "<Q>", "<ctrl-c>", "<Ctrl-C>", "<ctrl-c><alt-x>", "<", ">", "<<", ">>", "><", "<>", "<><>", "é", "<ctrl->", "ctrl-ctrl-", "<f12>", "<f13>", "<shift-é>", "<Ctrl-İ>", "a><b", "<a>b",
              "<ctrl-alt-shift-f5>", "<esc><esc>", "<shift-backtab>", "<backtab>", "<space>", "<shift-a>", "<->", "<hyphen>", "<ctrl-->", "<alt-shift-ctrl-alt-x>", "shift-", "<a", "a>", "<a><", "><a", "<<a>>", "<\u{212a}>"] {
        v.push(format!("lpkeys {}", hx(s)));
    }
    for w in COLOR_WORDS {
        v.push(format!("lpstyle {}", hx(w)));
    }
    for n in 0..=26u32 {
        v.push(format!("lpstyle {}", hx(&format!("gray{n}"))));
        v.push(format!("lpstyle {}", hx(&format!("x on gray{}", 250 + n % 8))));
    }
    for len in 0..=8usize {
        // "rgb" followed by every length of digits around the expected three
        let digits: String = "579".chars().cycle().take(len).collect();
        v.push(format!("lpstyle {}", hx(&format!("rgb{digits}"))));
        v.push(format!("lpstyle {}", hx(&format!("{}rgb", &digits))));
    }
    for r in [0u32, 5, 6, 7, 9] {
        for g in [0u32, 5, 9] {
            for b in [0u32, 5, 9] {
                v.push(format!("lpstyle {}", hx(&format!("rgb{r}{g}{b}"))));
            }
        }
    }
    // "long non-ASCII" family: a multi-byte char (incl. one whose lower-case form is longer) at every byte offset
    for (i, t) in non_ascii_sweep('a', 40).into_iter().enumerate() {
        v.push(format!("lpstyle {}", hx(&format!("{t}on red"))));
        v.push(format!("lpstyle {}", hx(&format!("{t} on "))));
        v.push(format!("lpkeys {}", hx(&format!("<{t}>"))));
        v.push(format!("envvar {}", hx(&format!("{t}={t}"))));
        if i % 4 == 0 {
            v.push(format!("logtargets {}", hx(&format!("{t}=info"))));
            v.push(format!("logtargets {}", hx(&format!("a={t}"))));
            v.push(format!("binversion {}", hx(&format!("{t}v{t}"))));
        }
    }
    for k in 1..=12usize {
        v.push(format!("lpstyle {}", hx(&format!("{}on ", "İ".repeat(k)))));
        v.push(format!("lpstyle {}", hx(&format!("{}ON red", "İ".repeat(k)))));
    }
    v.push("appdata missing x".into());
    v.push("appdata - x".into());
    let good_app = "{\"discord_username\":\"0x03B770D9cD32077cC0bF330c13C114a87643B124\",\"nodes_to_start\":1,\"storage_mountpoint\":null,\"storage_drive\":null,\"connection_mode\":null,\"port_from\":null,\"port_to\":null}";
    v.push(format!("appdata {} x", hx(good_app)));
    for (a, b) in [("\"nodes_to_start\":1", "\"nodes_to_start\":18446744073709551615"), ("\"nodes_to_start\":1", "\"nodes_to_start\":18446744073709551616"), ("\"nodes_to_start\":1", "\"nodes_to_start\":-1"),
                   ("\"port_from\":null", "\"port_from\":4294967295"), ("\"port_from\":null", "\"port_from\":4294967296"), ("\"connection_mode\":null", "\"connection_mode\":\"Nope\"")] {
        v.push(format!("appdata {} x", hx(&good_app.replace(a, b))));
    }
    let mut proc_budget = 150 + n / 20; // binversion starts a process per case
    for _ in 0..n / 2 {
        match rng.below(12) {
            0 | 1 => {
                if proc_budget == 0 {
                    continue;
                }
                proc_budget -= 1;
                let name = *rng.pick(&["antnode", "Autonomi Node", "antctl", "", "é"]);
                let ver = format!("{}.{}.{}", rng.below(3), rng.below(200), rng.below(30));
                let mut s = match rng.below(6) {
                    0 => format!("{name} v{ver}"),
                    1 => format!("{name} v{ver}\nNetwork version: ant/1.0/1\nPackage version: 2024.12.1.5"),
                    2 => format!("{name} -- Nightly Release 2024.{:02}.{:02}", 1 + rng.below(12), 1 + rng.below(28)),
                    3 => format!("{name} {ver}"),
                    4 => format!("v{ver}"),
                    _ => format!("{name}\nv{ver}"),
                };
                if rng.chance(1, 2) {
                    s = mutate(rng, &s);
                }
                let mut b = s.into_bytes();
                if rng.chance(1, 10) && !b.is_empty() {
                    let i = rng.below(b.len() as u64) as usize;
                    b[i] = *rng.pick(&[0xffu8, 0x80, 0xc3]);
                }
                v.push(format!("binversion {}", hex(&b)));
            }
            2 => {
                let s = match rng.below(4) {
                    0 => format!("K{}=v{}", rng.below(5), rng.below(5)),
                    1 => format!("K{}=a=b{}", rng.below(5), rng.below(5)),
                    2 => format!("K{}", rng.below(5)),
                    _ => mutate(rng, "KEY=INNER=VALUE"),
                };
                v.push(format!("envvar {}", hx(&s)));
            }
            3 | 4 => {
                let parts: Vec<String> = (0..rng.below(4))
                    .map(|_| match rng.below(6) {
                        0 => "all".to_string(),
                        1 => "v".to_string(),
                        2 => rng.pick(&["libp2p", "ant_node", "ant_networking", "", "é"]).to_string(),
                        _ => format!("{}={}", rng.pick(&["libp2p", "ant_node", "tokio", "", "a=b"]), rng.pick(&["info", "INFO", "Debug", "trace", "warn", "error", "off", "", "5", "İnfo", "inf\u{212a}"])),
                    })
                    .collect();
                let mut s = parts.join(",");
                if rng.chance(1, 4) {
                    s = mutate(rng, &s);
                }
                v.push(format!("logtargets {}", hx(&s)));
            }
            5 | 6 | 7 => {
                let mut s = key_string(rng);
                if rng.chance(1, 4) {
                    s = mutate(rng, &s);
                }
                v.push(format!("lpkeys {}", hx(&s)));
            }
            8 | 9 | 10 => {
                let mut s = style_string(rng);
                if rng.chance(1, 4) {
                    s = mutate(rng, &s);
                }
                v.push(format!("lpstyle {}", hx(&s)));
            }
            _ => {
                if proc_budget == 0 {
                    continue;
                }
                proc_budget -= 1;
                let fmt = *rng.pick(&["json5", "json", "json", "yaml", "toml", "ini"]);
                let mut t = config_text(rng, fmt);
                let bytes: Vec<u8> = match rng.below(8) {
                    0 => t.as_bytes()[..rng.below(t.len() as u64 + 1) as usize].to_vec(),
                    1 => {
                        let mut b = t.clone().into_bytes();
                        if !b.is_empty() {
                            let i = rng.below(b.len() as u64) as usize;
                            b[i] = 0xff;
                        }
                        b
                    }
                    2 => {
                        t = mutate(rng, &t);
                        t.into_bytes()
                    }
                    3 => vec![],
                    _ => t.into_bytes(),
                };
                v.push(format!("lpconfig {fmt} {} x", hex(&bytes)));
            }
        }
    }
    v
}
