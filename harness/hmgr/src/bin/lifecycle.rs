//! C19: service lifecycle state vs. the managed processes, under faults.
//! The REAL `ServiceManager`, `add_node`, `refresh_node_registry`, `NodeRegistry` driven against a simulated OS
//! (harness implementations of `ServiceControl` and `RpcActions`) whose fallible calls fail according to a fault
//! oracle carried by the op line (a bit string consumed call by call).
//!
//! Line protocol (inputs only):
//!   reset
//!   add count=<c> np=<-|p|p-q> mp=<-|p|p-q> rp=<-|p|p-q> metrics=<0|1> ver=<v> faults=<bits|->
//!   start <i> ct=<0|1> faults=<bits|->
//!   stop <i> faults=<bits|->
//!   remove <i> keep=<0|1> faults=<bits|->
//!   upgrade <i> force=<0|1> start=<0|1> ver=<v> ct=<0|1> faults=<bits|->
//!   refresh            (partial refresh, service-based network: what every antctl command runs first)
//!   kill <i>           (the process of service i dies behind the manager's back)
//!   die-outside <i>    (alias of kill)
//!   restart-outside <i> (the process of service i dies and comes back under a NEW pid without the manager: service
//!                       manager auto-restart / crash + restart; no-op if the service has no process)
//!   refresh-full [fail=<0|1>] [faults=<bits|->]
//!                      (`status_report(.., output_json, fail, ..)` = `refresh_node_registry(.., full_refresh = true)` as
//!                       `antctl status` calls it. The function builds a real `RpcClient` per service; the harness serves
//!                       a node RPC endpoint (tonic, loopback) on the RPC port of every service definition that was ever
//!                       started, answering from the simulated process table, so the SUCCESS path is exercised: pid, peer
//!                       id, connected peers, listener port. Every RPC call consumes one fault bit at the endpoint.
//!                       The caller (cmd::node::status) saves the registry after Ok only.)
//!   drestart <i> retain=<0|1> faults=<bits|->
//!                      (the daemon's `rpc::restart_node_service(registry, peer id recorded for entry i, retain)`; the
//!                       harness plays antctld's restart_handler: it saves the registry whatever the outcome. The real
//!                       function builds `ServiceController {}` itself: the cfg-guarded hook `ant_node_manager::verif`
//!                       routes that to the simulated OS. The daemon loads the registry from the file per request: the
//!                       generator emits `reload` in front.)
//!   flaky <i> <0|1>    (while set, the OS "starts" service i successfully but no process appears)
//! The node RPC (fake `RpcActions` for the ServiceManager ops, tonic endpoint for refresh-full / drestart) is answered by
//! the oldest live process whose definition carries the RPC port (the first to bind wins); `node_info` reports that
//! process's pid and the peer id of its service (a function of the service number: the key lives in the data dir).
//! It answers `network_info` deterministically from the pid: (pid+2)%3 = 0 -> no connected peers,
//! 1 -> one peer, 2 -> forty peers; pid%7 = 3 -> no listeners (then node_port is not updated). The dump shows the
//! recorded peer count as `cp=<n|->`.
//!   saveload           (registry := load(save(registry)))
//!   reload             (drop the in-memory registry and continue from the registry FILE: the next antctl invocation)
//!   cmd <add..|start..|stop..|remove..|upgrade..|refresh-full..>
//!                      (one whole `antctl` invocation as cmd/node.rs makes it: load the registry from the file, the
//!                       partial refresh if the command has one, service selection — `get_services_for_ops` does not
//!                       find a service at Removed status —, the operation, the save. Whether a command refreshes and
//!                       in which arm of the operation's result it saves is NOT hard-wired here: the harness follows
//!                       the flags rs2lean reads from cmd/node.rs and bin/daemon/main.rs into
//!                       lean/SafeNet/Gen/Lifecycle.lean — the same flags the model branches on.)
//!   probe-moved-registry  (replay only: save, copy the file elsewhere, load the copy: where does the loaded registry save?)
//! The registry file is written only by the code under test and by the harness where it plays the operation's caller
//! in cmd/node.rs, saving in the `Ok` / `Err` arm of the operation's result exactly where the generated flags
//! (`<cmd>SavesOnOk`, `<cmd>SavesOnErr`, `daemonRestartSavesOn..`) say the source does; a bare `refresh` does not save.
//! `add_node` itself saves after every completed install.
//! Output: `<result> calls=<k> | R <svc>* | F <svc>* | OS inst=[..] procs=[..] dirs=[..] np=<next pid> npt=<next port>`
//!   (R = in-memory registry, F = the registry file as left on disk, loaded without any harness save in between)
//!   svc = `<name#>/<number>/<dir#>:<A|R|S|X>:pid=<p|->:np=<p|->:mp=<p|->:rp=<p>:v=<ver>:cp=<n|->:pe=<svc# of the recorded peer id|->:la=<udp port of listen_addr|->`
//!
//! Simulated OS semantics (Linux/systemd-like; trusted base): `install` (over)writes a service definition;
//! `start` needs a definition, is a no-op if the service's process is alive, else spawns a process with a fresh pid
//! whose exe is the definition's program; `stop` needs a definition and kills the service's process; `uninstall`
//! removes the definition only (a live process keeps running, as `systemctl disable` + unit-file removal does) and
//! reports ServiceRemovedManually when there is none; `get_process_pid` reads the process table truthfully and is
//! not subject to the fault oracle; `get_available_port` hands out increasing ports. A faulted call returns an
//! error and has no effect. RPC calls fail on a fault or when the process is not alive.
use ant_bootstrap::PeersArgs;
use ant_evm::{EvmNetwork, RewardsAddress};
use ant_node_manager::add_services::config::{AddNodeServiceOptions, PortRange};
use ant_node_manager::add_services::add_node;
use ant_node_manager::error::Error as MgrError;
use ant_node_manager::{refresh_node_registry, status_report, ServiceManager, VerbosityLevel};
use ant_service_management::control::ServiceControl;
use ant_service_management::error::Error as SvcError;
use ant_service_management::rpc::{NetworkInfo, NodeInfo, RecordAddress, RpcActions};
use ant_service_management::{
    NodeRegistry, NodeService, ServiceStatus, UpgradeOptions, UpgradeResult,
};
use async_trait::async_trait;
use common::{Out, Rng};
use libp2p::{Multiaddr, PeerId};
use service_manager::ServiceInstallCtx;
use ant_protocol::antnode_proto::{
    ant_node_server::{AntNode, AntNodeServer},
    KBucketsRequest, KBucketsResponse, NetworkInfoRequest, NetworkInfoResponse, NodeEvent, NodeEventsRequest,
    NodeInfoRequest, NodeInfoResponse, RecordAddressesRequest, RecordAddressesResponse, RestartRequest,
    RestartResponse, StopRequest, StopResponse, UpdateLogLevelRequest, UpdateLogLevelResponse, UpdateRequest,
    UpdateResponse,
};
use std::collections::{BTreeMap, BTreeSet, VecDeque};
use std::net::Ipv4Addr;
use std::sync::OnceLock;
use std::panic::{catch_unwind, AssertUnwindSafe};
use std::path::{Path, PathBuf};
use std::sync::{Arc, Mutex};
use std::time::Duration;

// ---------------------------------------------------------------------------------------------
// the command layer (cmd/node.rs, bin/daemon/main.rs) as rs2lean read it: one Bool per save / refresh site
// ---------------------------------------------------------------------------------------------
fn flags() -> &'static BTreeMap<String, bool> {
    static FLAGS: OnceLock<BTreeMap<String, bool>> = OnceLock::new();
    FLAGS.get_or_init(|| {
        let path = std::env::var("C19_GEN_FILE")
            .unwrap_or_else(|_| concat!(env!("CARGO_MANIFEST_DIR"), "/../../lean/SafeNet/Gen/Lifecycle.lean").to_string());
        let text = match std::fs::read_to_string(&path) {
            Ok(t) => t,
            Err(e) => {
                eprintln!("harness infrastructure failure: cannot read the generated flags {path}: {e}");
                std::process::exit(3);
            }
        };
        let mut m = BTreeMap::new();
        for l in text.lines() {
            // `def <name> : Bool := <true|false>`
            let ws: Vec<&str> = l.split_whitespace().collect();
            if let ["def", name, ":", "Bool", ":=", v] = ws.as_slice() {
                m.insert(name.to_string(), *v == "true");
            }
        }
        m
    })
}
fn flag(name: &str) -> bool {
    match flags().get(name) {
        Some(b) => *b,
        None => {
            eprintln!("harness infrastructure failure: no generated flag `{name}` in Gen/Lifecycle.lean");
            std::process::exit(3);
        }
    }
}
/// does the caller save after this outcome? (`cmd` = add | start | stop | remove | upgrade | status | daemonRestart)
fn caller_saves(cmd: &str, ok_arm: bool) -> bool {
    flag(&format!("{cmd}SavesOn{}", if ok_arm { "Ok" } else { "Err" }))
}

// ---------------------------------------------------------------------------------------------
// simulated OS
// ---------------------------------------------------------------------------------------------
#[derive(Clone, Debug)]
struct Proc {
    pid: u32,
    name: String,
    exe: PathBuf,
    port: u16,
    /// the RPC port of the service definition the process was launched from
    rpc: u16,
}
#[derive(Clone, Debug)]
struct Installed {
    program: PathBuf,
    port: Option<u16>,
    rpc: u16,
}
#[derive(Default)]
struct SimOs {
    installed: BTreeMap<String, Installed>,
    procs: Vec<Proc>,
    next_pid: u32,
    next_port: u16,
    flaky: BTreeSet<String>,
    /// 0 = the call works, 1 = it fails without effect, 2 = it has its effect and then reports failure
    faults: VecDeque<u8>,
    calls: usize,
}
impl SimOs {
    fn new() -> Self {
        SimOs { next_pid: 100, next_port: 30000, ..Default::default() }
    }
    /// every fallible call consumes one oracle entry first
    fn fault(&mut self) -> u8 {
        self.calls += 1;
        self.faults.pop_front().unwrap_or(0)
    }
    /// who answers on an RPC port: the oldest live process launched with it (the first to bind wins)
    fn rpc_owner(&self, rpc: u16) -> Option<Proc> {
        self.procs.iter().filter(|p| p.rpc == rpc).min_by_key(|p| p.pid).cloned()
    }
}
fn io_fault() -> SvcError {
    SvcError::Io(std::io::Error::new(std::io::ErrorKind::Other, "injected fault"))
}
fn io_missing() -> SvcError {
    SvcError::Io(std::io::Error::new(std::io::ErrorKind::NotFound, "no such service"))
}

#[derive(Clone)]
struct Ctl(Arc<Mutex<SimOs>>);
impl ServiceControl for Ctl {
    fn create_service_user(&self, _username: &str) -> Result<(), SvcError> {
        let mut os = self.0.lock().unwrap();
        if os.fault() != 0 {
            return Err(SvcError::ServiceUserAccountCreationFailed);
        }
        Ok(())
    }
    fn get_available_port(&self) -> Result<u16, SvcError> {
        let mut os = self.0.lock().unwrap();
        let f = os.fault();
        if f == 1 {
            return Err(io_fault());
        }
        let p = os.next_port;
        os.next_port += 1;
        if f == 2 {
            return Err(io_fault());
        }
        Ok(p)
    }
    fn install(&self, ctx: ServiceInstallCtx, _user_mode: bool) -> Result<(), SvcError> {
        let mut os = self.0.lock().unwrap();
        let f = os.fault();
        if f == 1 {
            return Err(io_fault());
        }
        let args: Vec<String> = ctx.args.iter().map(|a| a.to_string_lossy().to_string()).collect();
        let port = args.iter().position(|a| a == "--port").and_then(|i| args.get(i + 1)).and_then(|p| p.parse().ok());
        let rpc = args
            .iter()
            .position(|a| a == "--rpc")
            .and_then(|i| args.get(i + 1))
            .and_then(|p| p.parse::<std::net::SocketAddr>().ok())
            .map_or(0, |a| a.port());
        os.installed.insert(ctx.label.to_string(), Installed { program: ctx.program.clone(), port, rpc });
        if f == 2 {
            return Err(io_fault());
        }
        Ok(())
    }
    fn get_process_pid(&self, path: &Path) -> Result<u32, SvcError> {
        let os = self.0.lock().unwrap();
        match os.procs.iter().find(|p| p.exe == path) {
            Some(p) => Ok(p.pid),
            None => Err(SvcError::ServiceProcessNotFound(path.to_string_lossy().to_string())),
        }
    }
    fn start(&self, name: &str, _user_mode: bool) -> Result<(), SvcError> {
        let mut os = self.0.lock().unwrap();
        let f = os.fault();
        if f == 1 {
            return Err(io_fault());
        }
        let after = |f: u8| if f == 2 { Err(io_fault()) } else { Ok(()) };
        let Some(inst) = os.installed.get(name).cloned() else { return Err(io_missing()) };
        if os.procs.iter().any(|p| p.name == name) || os.flaky.contains(name) {
            return after(f);
        }
        let pid = os.next_pid;
        os.next_pid += 1;
        let port = inst.port.unwrap_or(40000 + pid as u16);
        os.procs.push(Proc { pid, name: name.to_string(), exe: inst.program, port, rpc: inst.rpc });
        drop(os);
        ensure_endpoint(inst.rpc);
        after(f)
    }
    fn stop(&self, name: &str, _user_mode: bool) -> Result<(), SvcError> {
        let mut os = self.0.lock().unwrap();
        let f = os.fault();
        if f == 1 {
            return Err(io_fault());
        }
        if !os.installed.contains_key(name) {
            return Err(io_missing());
        }
        os.procs.retain(|p| p.name != name);
        if f == 2 {
            return Err(io_fault());
        }
        Ok(())
    }
    fn uninstall(&self, name: &str, _user_mode: bool) -> Result<(), SvcError> {
        let mut os = self.0.lock().unwrap();
        let f = os.fault();
        if f == 1 {
            return Err(io_fault());
        }
        if os.installed.remove(name).is_none() {
            return Err(SvcError::ServiceRemovedManually(name.to_string()));
        }
        if f == 2 {
            return Err(io_fault());
        }
        Ok(())
    }
    fn wait(&self, _delay: u64) {}
}

/// what the node process `p` reports over RPC (same for the fake `RpcActions` and the tonic endpoint)
fn n_peers_of(pid: u32) -> usize {
    match (pid + 2) % 3 { 0 => 0, 1 => 1, _ => 40 }
}
fn listeners_of(p: &Proc) -> Vec<Multiaddr> {
    if p.pid % 7 == 3 {
        vec![]
    } else {
        vec![format!("/ip4/127.0.0.1/udp/{}/quic-v1", p.port).parse().expect("multiaddr")]
    }
}
/// peer id of a service: a function of the service number (the node's key lives in its data directory)
static PEERS: Mutex<Vec<(u64, PeerId)>> = Mutex::new(Vec::new());
fn peer_of_num(num: u64) -> PeerId {
    let mut m = PEERS.lock().unwrap();
    if let Some((_, p)) = m.iter().find(|(n, _)| *n == num) {
        return *p;
    }
    let p = PeerId::random();
    m.push((num, p));
    p
}
fn peer_of(p: &Proc) -> PeerId {
    peer_of_num(num_suffix(&p.name).parse::<u64>().unwrap_or(u64::MAX))
}
fn num_of_peer(id: &PeerId) -> Option<u64> {
    PEERS.lock().unwrap().iter().find(|(_, p)| p == id).map(|(n, _)| *n)
}

struct Rpc {
    os: Arc<Mutex<SimOs>>,
    rpc: u16,
}
impl Rpc {
    fn alive(&self, os: &SimOs) -> Option<Proc> {
        os.rpc_owner(self.rpc)
    }
}
#[async_trait]
impl RpcActions for Rpc {
    async fn node_info(&self) -> Result<NodeInfo, SvcError> {
        let mut os = self.os.lock().unwrap();
        if os.fault() != 0 {
            return Err(SvcError::RpcNodeInfoError("injected fault".into()));
        }
        let Some(p) = self.alive(&os) else { return Err(SvcError::RpcConnectionError("down".into())) };
        Ok(NodeInfo {
            pid: p.pid,
            peer_id: peer_of(&p),
            log_path: PathBuf::from("/log"),
            data_path: PathBuf::from("/data"),
            version: "0.0.0".into(),
            uptime: Duration::from_secs(1),
            wallet_balance: 0,
        })
    }
    async fn network_info(&self) -> Result<NetworkInfo, SvcError> {
        let mut os = self.os.lock().unwrap();
        if os.fault() != 0 {
            // the real `RpcClient::network_info` maps a failed call to `RpcNodeInfoError`
            return Err(SvcError::RpcNodeInfoError("injected fault".into()));
        }
        let Some(p) = self.alive(&os) else { return Err(SvcError::RpcConnectionError("down".into())) };
        Ok(NetworkInfo { connected_peers: (0..n_peers_of(p.pid)).map(|_| PeerId::random()).collect(), listeners: listeners_of(&p) })
    }
    async fn record_addresses(&self) -> Result<Vec<RecordAddress>, SvcError> {
        Ok(vec![])
    }
    async fn node_restart(&self, _d: u64, _r: bool) -> Result<(), SvcError> {
        Ok(())
    }
    async fn node_stop(&self, _d: u64) -> Result<(), SvcError> {
        Ok(())
    }
    async fn node_update(&self, _d: u64) -> Result<(), SvcError> {
        Ok(())
    }
    async fn is_node_connected_to_network(&self, _t: Duration) -> Result<(), SvcError> {
        let mut os = self.os.lock().unwrap();
        if os.fault() != 0 {
            return Err(SvcError::RpcConnectionError("injected fault".into()));
        }
        if self.alive(&os).is_none() {
            return Err(SvcError::RpcConnectionError("down".into()));
        }
        Ok(())
    }
    async fn update_log_level(&self, _l: String) -> Result<(), SvcError> {
        Ok(())
    }
}

// ---------------------------------------------------------------------------------------------
// node RPC endpoints: `refresh_node_registry(full)` and `restart_node_service` build a real `RpcClient` from the
// recorded `rpc_socket_addr`. One tonic server per RPC port (bound once, kept for the life of the harness process,
// on a loopback address private to this process so that concurrent harness runs cannot collide) answers from the
// process table of the current world; it fails when the fault oracle says so or when no live process owns the port.
// ---------------------------------------------------------------------------------------------
static CUR_OS: Mutex<Option<Arc<Mutex<SimOs>>>> = Mutex::new(None);
static SERVED: Mutex<BTreeSet<u16>> = Mutex::new(BTreeSet::new());
thread_local! {
    /// the one current-thread runtime of the harness: the code under test, its RpcClient and the endpoints all run on it
    /// (the endpoints make progress exactly while a `block_on` of the code under test awaits them)
    static RT: std::rc::Rc<tokio::runtime::Runtime> =
        std::rc::Rc::new(tokio::runtime::Builder::new_current_thread().enable_all().build().expect("rt"));
}

/// 127.x.y.z derived from the harness pid (all of 127/8 is loopback)
fn loop_ip() -> Ipv4Addr {
    let p = std::process::id();
    Ipv4Addr::new(127, 1 + ((p >> 16) & 0x3f) as u8, (p >> 8) as u8, p as u8)
}

fn ensure_endpoint(port: u16) {
    if port == 0 || !SERVED.lock().unwrap().insert(port) {
        return;
    }
    let listener = match std::net::TcpListener::bind((loop_ip(), port)) {
        Ok(l) => l,
        Err(e) => {
            eprintln!("harness infrastructure failure: cannot bind the node RPC endpoint {}:{port}: {e}", loop_ip());
            std::process::exit(3);
        }
    };
    listener.set_nonblocking(true).expect("nonblocking");
    let rt = RT.with(|rt| rt.clone());
    rt.spawn(async move {
        let l = tokio::net::TcpListener::from_std(listener).expect("tokio listener");
        use tokio_stream::StreamExt;
        let incoming = tokio_stream::wrappers::TcpListenerStream::new(l).map(|c| {
            c.map(|stream| {
                let _ = stream.set_nodelay(true);
                stream
            })
        });
        let _ = tonic::transport::Server::builder()
            .add_service(AntNodeServer::new(Endpoint { port }))
            .serve_with_incoming(incoming)
            .await;
    });
}

struct Endpoint {
    port: u16,
}
impl Endpoint {
    /// one RPC call arriving at this port: fault bit first, then the owner of the port (if any is alive)
    fn owner(&self) -> Result<Proc, tonic::Status> {
        let cur = CUR_OS.lock().unwrap().clone().ok_or_else(|| tonic::Status::unavailable("no world"))?;
        let mut os = cur.lock().unwrap();
        if os.fault() != 0 {
            return Err(tonic::Status::internal("injected fault"));
        }
        os.rpc_owner(self.port).ok_or_else(|| tonic::Status::unavailable("no live process owns this port"))
    }
}
#[tonic::async_trait]
impl AntNode for Endpoint {
    type NodeEventsStream = tokio_stream::wrappers::ReceiverStream<Result<NodeEvent, tonic::Status>>;
    async fn node_info(&self, _r: tonic::Request<NodeInfoRequest>) -> Result<tonic::Response<NodeInfoResponse>, tonic::Status> {
        let p = self.owner()?;
        Ok(tonic::Response::new(NodeInfoResponse {
            peer_id: peer_of(&p).to_bytes(),
            pid: p.pid,
            log_dir: "/log".into(),
            bin_version: "0.0.0".into(),
            uptime_secs: 1,
            data_dir: "/data".into(),
            wallet_balance: 0,
        }))
    }
    async fn network_info(&self, _r: tonic::Request<NetworkInfoRequest>) -> Result<tonic::Response<NetworkInfoResponse>, tonic::Status> {
        let p = self.owner()?;
        Ok(tonic::Response::new(NetworkInfoResponse {
            connected_peers: (0..n_peers_of(p.pid)).map(|_| PeerId::random().to_bytes()).collect(),
            listeners: listeners_of(&p).iter().map(|a| a.to_string()).collect(),
        }))
    }
    async fn node_events(&self, _r: tonic::Request<NodeEventsRequest>) -> Result<tonic::Response<Self::NodeEventsStream>, tonic::Status> {
        Err(tonic::Status::unimplemented("node_events"))
    }
    async fn record_addresses(&self, _r: tonic::Request<RecordAddressesRequest>) -> Result<tonic::Response<RecordAddressesResponse>, tonic::Status> {
        Ok(tonic::Response::new(RecordAddressesResponse { addresses: vec![] }))
    }
    async fn k_buckets(&self, _r: tonic::Request<KBucketsRequest>) -> Result<tonic::Response<KBucketsResponse>, tonic::Status> {
        Ok(tonic::Response::new(KBucketsResponse { kbuckets: Default::default() }))
    }
    async fn stop(&self, _r: tonic::Request<StopRequest>) -> Result<tonic::Response<StopResponse>, tonic::Status> {
        Err(tonic::Status::unimplemented("stop"))
    }
    async fn restart(&self, _r: tonic::Request<RestartRequest>) -> Result<tonic::Response<RestartResponse>, tonic::Status> {
        Err(tonic::Status::unimplemented("restart"))
    }
    async fn update(&self, _r: tonic::Request<UpdateRequest>) -> Result<tonic::Response<UpdateResponse>, tonic::Status> {
        Err(tonic::Status::unimplemented("update"))
    }
    async fn update_log_level(&self, _r: tonic::Request<UpdateLogLevelRequest>) -> Result<tonic::Response<UpdateLogLevelResponse>, tonic::Status> {
        Err(tonic::Status::unimplemented("update_log_level"))
    }
}

// ---------------------------------------------------------------------------------------------
// world = real registry + simulated OS (+ a temp dir holding data dirs and the registry file)
// ---------------------------------------------------------------------------------------------
struct World {
    tmp: tempfile::TempDir,
    reg: NodeRegistry,
    os: Arc<Mutex<SimOs>>,
    rt: std::rc::Rc<tokio::runtime::Runtime>,
    killed: bool,
    /// an outside event (kill / restart-outside) happened and the file has not been saved from a refreshed registry
    /// since: a `reload` brings the stale records back
    file_stale: bool,
    /// an `install` may have written a service definition and then reported failure (fault kind 2 in an add / daemon
    /// restart): the code under test cannot know about that definition (clause installed-recorded-in-file is off)
    unrecorded_install: bool,
    /// the harness, playing the operation's caller, saved the registry during the current line
    saved_now: bool,
}
impl World {
    fn new(rt: std::rc::Rc<tokio::runtime::Runtime>) -> World {
        let tmp = tempfile::tempdir().expect("tempdir");
        std::fs::write(tmp.path().join("antnode"), b"bin-v0").expect("src bin");
        std::fs::write(tmp.path().join("antnode-new"), b"bin-new").expect("new bin");
        let reg = NodeRegistry::load(&tmp.path().join("registry.json")).expect("load empty registry");
        World {
            tmp,
            reg,
            os: Arc::new(Mutex::new(SimOs::new())),
            rt,
            killed: false,
            file_stale: false,
            unrecorded_install: false,
            saved_now: false,
        }
    }
    fn data_base(&self) -> PathBuf {
        self.tmp.path().join("data")
    }
    fn log_base(&self) -> PathBuf {
        self.tmp.path().join("log")
    }
}

/// name of the user the harness runs as (from /etc/passwd by the uid of our temp dir; `USER` is overridden below)
fn current_user() -> String {
    static NAME: OnceLock<String> = OnceLock::new();
    NAME.get_or_init(|| {
        use std::os::unix::fs::MetadataExt;
        let uid = std::fs::metadata(std::env::temp_dir().join("verif-hmgr-home")).map(|m| m.uid()).unwrap_or(0);
        std::fs::read_to_string("/etc/passwd")
            .ok()
            .and_then(|t| {
                t.lines().find_map(|l| {
                    let f: Vec<&str> = l.split(':').collect();
                    (f.len() > 2 && f[2].parse::<u32>().ok() == Some(uid)).then(|| f[0].to_string())
                })
            })
            .unwrap_or_else(|| "root".to_string())
    })
    .clone()
}

fn num_suffix(s: &str) -> String {
    s.strip_prefix("antnode").map(|x| x.to_string()).unwrap_or_else(|| format!("?{s}"))
}
fn opt<T: std::fmt::Display>(v: Option<T>) -> String {
    v.map_or("-".to_string(), |x| x.to_string())
}
fn ver_of(s: &str) -> String {
    s.strip_prefix("0.1.").map(|x| x.to_string()).unwrap_or_else(|| format!("?{s}"))
}

/// the registry file as the code under test (or the harness playing its caller) left it
fn load_file(w: &World) -> Result<NodeRegistry, String> {
    NodeRegistry::load(&w.reg.save_path).map_err(|e| format!("{e}"))
}

fn dump_nodes(nodes: &[ant_service_management::NodeServiceData]) -> String {
    let mut s = String::new();
    for n in nodes {
        let st = match n.status {
            ServiceStatus::Added => "A",
            ServiceStatus::Running => "R",
            ServiceStatus::Stopped => "S",
            ServiceStatus::Removed => "X",
        };
        let dir = n.data_dir_path.file_name().map(|f| f.to_string_lossy().to_string()).unwrap_or_default();
        s.push_str(&format!(
            " {}/{}/{}:{}:pid={}:np={}:mp={}:rp={}:v={}:cp={}:pe={}:la={}",
            num_suffix(&n.service_name),
            n.number,
            num_suffix(&dir),
            st,
            opt(n.pid),
            opt(n.node_port),
            opt(n.metrics_port),
            n.rpc_socket_addr.port(),
            ver_of(&n.version),
            opt(n.connected_peers.as_ref().map(|p| p.len())),
            n.peer_id.map_or("-".to_string(), |p| num_of_peer(&p).map_or("?".to_string(), |k| k.to_string())),
            // what `NodeServiceData::get_antnode_port` reads: the first UDP port of `listen_addr`
            opt(n.listen_addr.as_ref().and_then(|l| l.iter().find_map(|a| a.iter().find_map(|pr| match pr {
                libp2p::multiaddr::Protocol::Udp(p) => Some(p),
                _ => None,
            }))))
        ));
    }
    s
}

fn dump(w: &World, file: &Result<NodeRegistry, String>) -> String {
    let mut s = String::from("R");
    s.push_str(&dump_nodes(&w.reg.nodes));
    s.push_str(" | F");
    match file {
        Ok(f) => s.push_str(&dump_nodes(&f.nodes)),
        Err(_) => s.push_str(" ?unreadable"),
    }
    let os = w.os.lock().unwrap();
    let inst: Vec<String> = {
        let mut v: Vec<(u64, String)> = os
            .installed
            .iter()
            .map(|(k, i)| (num_suffix(k).parse::<u64>().unwrap_or(u64::MAX), format!("{}:{}", num_suffix(k), opt(i.port))))
            .collect();
        v.sort();
        v.into_iter().map(|x| x.1).collect()
    };
    let mut procs: Vec<&Proc> = os.procs.iter().collect();
    procs.sort_by_key(|p| p.pid);
    let procs: Vec<String> = procs
        .iter()
        .map(|p| {
            let exe_dir = p.exe.parent().and_then(|d| d.file_name()).map(|f| f.to_string_lossy().to_string()).unwrap_or_default();
            let _ = exe_dir;
            format!("{}@{}:{}", p.pid, num_suffix(&p.name), p.port)
        })
        .collect();
    let mut dirs: Vec<u64> = std::fs::read_dir(w.data_base())
        .map(|rd| {
            rd.filter_map(|e| e.ok())
                .filter_map(|e| num_suffix(&e.file_name().to_string_lossy()).parse::<u64>().ok())
                .collect()
        })
        .unwrap_or_default();
    dirs.sort();
    let dirs: Vec<String> = dirs.iter().map(|d| d.to_string()).collect();
    s.push_str(&format!(
        " | OS inst=[{}] procs=[{}] dirs=[{}] np={} npt={}",
        inst.join(","),
        procs.join(","),
        dirs.join(","),
        os.next_pid,
        os.next_port
    ));
    s
}

fn kv<'a>(ws: &'a [&'a str], key: &str) -> Option<&'a str> {
    ws.iter().find_map(|w| w.strip_prefix(key).and_then(|r| r.strip_prefix('=')))
}
fn parse_faults(ws: &[&str]) -> Option<VecDeque<u8>> {
    let f = kv(ws, "faults")?;
    if f == "-" {
        return Some(VecDeque::new());
    }
    f.chars().map(|c| match c { '0' => Some(0), '1' => Some(1), '2' => Some(2), _ => None }).collect()
}
fn parse_range(s: &str) -> Option<Option<PortRange>> {
    if s == "-" {
        return Some(None);
    }
    if let Some((a, b)) = s.split_once('-') {
        return Some(Some(PortRange::Range(a.parse().ok()?, b.parse().ok()?)));
    }
    Some(Some(PortRange::Single(s.parse().ok()?)))
}
fn b01(s: &str) -> Option<bool> {
    match s { "0" => Some(false), "1" => Some(true), _ => None }
}

fn svc_err(e: &SvcError) -> String {
    match e {
        SvcError::Io(io) => format!("Io:{:?}", io.kind()),
        other => {
            let d = format!("{other:?}");
            d.split(|c: char| !c.is_alphanumeric()).next().unwrap_or("?").to_string()
        }
    }
}
fn mgr_err(e: &MgrError) -> String {
    match e {
        MgrError::ServiceManagementError(inner) => format!("svc:{}", svc_err(inner)),
        MgrError::Io(io) => format!("Io:{:?}", io.kind()),
        other => {
            let d = format!("{other:?}");
            d.split(|c: char| !c.is_alphanumeric()).next().unwrap_or("?").to_string()
        }
    }
}
fn res_unit(r: Result<(), MgrError>) -> String {
    match r {
        Ok(()) => "ok".into(),
        Err(e) => format!("err:{}", mgr_err(&e)),
    }
}

/// The head of an `antctl` invocation (`cmd <op>`): load the registry from the file, run the partial refresh if the
/// command does (flag `<cmd>RefreshFirst`), select the service (`get_services_for_ops`: not found at Removed status).
/// `Err(result)` = the command ends here.
fn cmd_entry(w: &mut World, op: &[&str]) -> Result<(), String> {
    let ctl = Ctl(w.os.clone());
    match load_file(w) {
        Ok(r) => {
            w.reg = r;
            w.killed = w.file_stale;
        }
        Err(_) => return Err("err:load".into()),
    }
    let head = op.first().copied().unwrap_or("");
    let targeted = matches!(head, "start" | "stop" | "remove" | "upgrade");
    if targeted && flag(&format!("{head}RefreshFirst")) {
        match w.rt.block_on(refresh_node_registry(&mut w.reg, &ctl, false, false, false)) {
            Ok(()) => w.killed = false,
            Err(e) => return Err(format!("err:{}", mgr_err(&e))),
        }
    }
    if targeted {
        if let Some(Ok(i)) = op.get(1).map(|i| i.parse::<usize>()) {
            if i < w.reg.nodes.len() && w.reg.nodes[i].status == ServiceStatus::Removed {
                return Err("err:no-such-service".into());
            }
        }
    }
    Ok(())
}

/// Replay-only probe of `NodeRegistry::load` (an observation outside the clauses).
fn probe(w: &mut World, ws: &[&str]) -> Option<String> {
    match ws {
        ["probe-moved-registry"] => {
            // a copy of the registry saved at a side path (the registry file proper is an observable and stays as it
            // is), the file moved, loaded from its new place: where will the loaded registry save?
            let mut side = w.reg.clone();
            side.save_path = w.tmp.path().join("probe-registry.json");
            if side.save().is_err() {
                return Some("err:save".into());
            }
            let moved = w.tmp.path().join("probe-registry-moved.json");
            if std::fs::rename(&side.save_path, &moved).is_err() {
                return Some("err:move".into());
            }
            Some(match NodeRegistry::load(&moved) {
                Ok(r) => format!("loaded-from=moved saves-to={}", if r.save_path == moved { "moved" } else if r.save_path == side.save_path { "original" } else { "elsewhere" }),
                Err(_) => "err:load".into(),
            })
        }
        _ => None,
    }
}

/// Execute one op line on the real code. Returns the result class.
fn exec_op(w: &mut World, ws: &[&str]) -> String {
    let ctl = Ctl(w.os.clone());
    // the RPC endpoints answer from this world's process table
    *CUR_OS.lock().unwrap() = Some(w.os.clone());
    match ws {
        ["add", rest @ ..] => {
            let (Some(count), Some(np), Some(mp), Some(rp), Some(metrics), Some(ver)) = (
                kv(rest, "count").and_then(|c| c.parse::<u16>().ok()),
                kv(rest, "np").and_then(parse_range),
                kv(rest, "mp").and_then(parse_range),
                kv(rest, "rp").and_then(parse_range),
                kv(rest, "metrics").and_then(b01),
                kv(rest, "ver").and_then(|v| v.parse::<u32>().ok()),
            ) else {
                return "bad-op".into();
            };
            let options = AddNodeServiceOptions {
                antnode_dir_path: w.tmp.path().to_path_buf(),
                antnode_src_path: w.tmp.path().join("antnode"),
                auto_restart: false,
                auto_set_nat_flags: false,
                count: Some(count),
                delete_antnode_src: false,
                enable_metrics_server: metrics,
                env_variables: None,
                evm_network: EvmNetwork::default(),
                home_network: false,
                log_format: None,
                max_archived_log_files: None,
                max_log_files: None,
                metrics_port: mp,
                network_id: None,
                node_ip: None,
                node_port: np,
                owner: None,
                peers_args: PeersArgs::default(),
                rewards_address: RewardsAddress::default(),
                rpc_address: Some(loop_ip()),
                rpc_port: rp,
                service_data_dir_path: w.data_base(),
                service_log_dir_path: w.log_base(),
                upnp: false,
                // the daemon's restart path needs a service user (create_owned_dir chowns to it): the user we run as
                user: Some(current_user()),
                user_mode: false,
                version: format!("0.1.{ver}"),
            };
            let r = w.rt.block_on(add_node(options, &mut w.reg, &ctl, VerbosityLevel::Minimal));
            // cmd::node::add: `add_node(..).await?; node_registry.save()?;` as read from the source (addSavesOnOk / OnErr)
            if caller_saves("add", r.is_ok()) {
                if let Err(e) = w.reg.save() {
                    return format!("err:save:{}", svc_err(&e));
                }
                w.saved_now = true;
            }
            match r {
                Ok(names) => format!("ok:[{}]", names.iter().map(|n| num_suffix(n)).collect::<Vec<_>>().join(",")),
                Err(e) => {
                    let m = format!("{e}");
                    if let Some(p) = m.strip_prefix("Port ").filter(|_| m.contains("requested for more than one")).and_then(|r| r.split(' ').next()) {
                        format!("err:port-requested-twice:{p}")
                    } else if let Some(p) = m.strip_prefix("Port ").and_then(|r| r.split(' ').next()) {
                        format!("err:port-in-use:{p}")
                    } else if m.contains("does not match the number of ports") {
                        "err:count-mismatch".into()
                    } else if m.contains("Failed to add one or more services") {
                        "err:partial".into()
                    } else if m.contains("injected fault") {
                        "err:port-alloc".into()
                    } else {
                        format!("err:other:{}", m.replace(' ', "_"))
                    }
                }
            }
        }
        ["start", i, rest @ ..] | ["stop", i, rest @ ..] | ["remove", i, rest @ ..] | ["upgrade", i, rest @ ..] => {
            let Ok(i) = i.parse::<usize>() else { return "bad-op".into() };
            if i >= w.reg.nodes.len() {
                return "err:no-such-service".into();
            }
            let rpc = Rpc { os: w.os.clone(), rpc: w.reg.nodes[i].rpc_socket_addr.port() };
            let ct = kv(rest, "ct").and_then(b01).unwrap_or(false);
            let rt = w.rt.clone();
            let tmp_path = w.tmp.path().to_path_buf();
            let node = &mut w.reg.nodes[i];
            let service = NodeService::new(node, Box::new(rpc));
            let service = if ct { service.with_connection_timeout(Duration::from_secs(1)) } else { service };
            let mut sm = ServiceManager::new(service, Box::new(ctl), VerbosityLevel::Minimal);
            let result: String = match ws[0] {
                "start" => res_unit(rt.block_on(sm.start())),
                "stop" => res_unit(rt.block_on(sm.stop())),
                "remove" => {
                    let Some(keep) = kv(rest, "keep").and_then(b01) else { return "bad-op".into() };
                    res_unit(rt.block_on(sm.remove(keep)))
                }
                _ => {
                    let (Some(force), Some(start), Some(ver)) = (
                        kv(rest, "force").and_then(b01),
                        kv(rest, "start").and_then(b01),
                        kv(rest, "ver").and_then(|v| v.parse::<u32>().ok()),
                    ) else {
                        return "bad-op".into();
                    };
                    let options = UpgradeOptions {
                        auto_restart: false,
                        env_variables: None,
                        force,
                        start_service: start,
                        target_bin_path: tmp_path.join("antnode-new"),
                        target_version: semver::Version::new(0, 1, ver as u64),
                    };
                    match rt.block_on(sm.upgrade(options)) {
                        Ok(UpgradeResult::NotRequired) => "ok:NotRequired".into(),
                        Ok(UpgradeResult::Upgraded(_, _)) => "ok:Upgraded".into(),
                        Ok(UpgradeResult::Forced(_, _)) => "ok:Forced".into(),
                        Ok(UpgradeResult::UpgradedButNotStarted(_, _, m)) => {
                            // the start error is only available as text
                            let class = if m.contains("PID of the process was not found") {
                                "PidNotFoundAfterStarting"
                            } else if m.contains("node info") {
                                "svc:RpcNodeInfoError"
                            } else if m.contains("network info") {
                                "svc:RpcNetworkInfoError"
                            } else if m.contains("connect to RPC") {
                                "svc:RpcConnectionError"
                            } else if m.contains("injected fault") {
                                "svc:Io:Other"
                            } else if m.contains("no such service") {
                                "svc:Io:NotFound"
                            } else {
                                "other"
                            };
                            format!("ok:UpgradedButNotStarted:{class}")
                        }
                        Ok(UpgradeResult::Error(_)) => "ok:Error".into(),
                        Err(e) => format!("err:{}", mgr_err(&e)),
                    }
                }
            };
            drop(sm);
            // the caller in cmd/node.rs saves in the Ok / Err arm of the operation's result where the source does
            // (`UpgradedButNotStarted` is an Ok of ServiceManager::upgrade)
            if caller_saves(ws[0], result.starts_with("ok")) {
                if let Err(e) = w.reg.save() {
                    return format!("err:save:{}", svc_err(&e));
                }
                w.saved_now = true;
            }
            result
        }
        ["refresh"] => match w.rt.block_on(refresh_node_registry(&mut w.reg, &ctl, false, false, false)) {
            Ok(()) => {
                // a refresh re-records every live process (theorem refresh_reestablishes): the running-has-process
                // clause is required of all services again from here on
                w.killed = false;
                "ok".into()
            }
            Err(e) => format!("err:{}", mgr_err(&e)),
        },
        ["restart-outside", i] => {
            let Ok(i) = i.parse::<usize>() else { return "bad-op".into() };
            if i >= w.reg.nodes.len() {
                return "err:no-such-service".into();
            }
            let name = w.reg.nodes[i].service_name.clone();
            let mut os = w.os.lock().unwrap();
            if let Some(old) = os.procs.iter().find(|p| p.name == name).cloned() {
                os.procs.retain(|p| p.name != name);
                let pid = os.next_pid;
                os.next_pid += 1;
                let port = os.installed.get(&name).and_then(|i| i.port).unwrap_or(40000 + pid as u16);
                let rpc = os.installed.get(&name).map_or(old.rpc, |i| i.rpc);
                os.procs.push(Proc { pid, name: name.clone(), exe: old.exe, port, rpc });
                drop(os);
                w.killed = true;
                w.file_stale = true;
            }
            "ok".into()
        }
        ["refresh-full", rest @ ..] => {
            let fail = kv(rest, "fail").and_then(b01).unwrap_or(false);
            // `antctl status --json [--fail]`: status_report = full refresh (real RpcClient per service -> the endpoints
            // above) + the summary; cmd::node::status saves the registry after Ok only
            let r = w.rt.block_on(status_report(&mut w.reg, &ctl, false, true, fail, false));
            if caller_saves("status", r.is_ok()) {
                if let Err(e) = w.reg.save() {
                    return format!("err:save:{}", svc_err(&e));
                }
                w.saved_now = true;
            }
            match r {
                Ok(()) => {
                    w.killed = false;
                    "ok".into()
                }
                Err(MgrError::ServiceNotRunning(_)) => {
                    // the refresh itself went through: every live process is recorded again
                    w.killed = false;
                    "err:ServiceNotRunning".into()
                }
                Err(e) => format!("err:{}", mgr_err(&e)),
            }
        }
        ["drestart", i, rest @ ..] => {
            let (Ok(i), Some(retain)) = (i.parse::<usize>(), kv(rest, "retain").and_then(b01)) else { return "bad-op".into() };
            if i >= w.reg.nodes.len() {
                return "err:no-such-service".into();
            }
            // the daemon is asked by peer id; an entry that never recorded one cannot be addressed
            let peer = w.reg.nodes[i].peer_id.unwrap_or_else(PeerId::random);
            ant_node_manager::verif::set_service_control(Arc::new(ctl.clone()));
            let r = w.rt.block_on(ant_node_manager::rpc::restart_node_service(&mut w.reg, peer, retain));
            ant_node_manager::verif::clear_service_control();
            // antctld's restart_handler: "make sure to save the state even if the above fn fails" — as read from the source
            if caller_saves("daemonRestart", r.is_ok()) {
                if let Err(e) = w.reg.save() {
                    return format!("err:save:{}", svc_err(&e));
                }
                w.saved_now = true;
            }
            match r {
                Ok(()) => "ok".into(),
                Err(e) => {
                    if let Some(m) = e.downcast_ref::<MgrError>() {
                        format!("err:{}", mgr_err(m))
                    } else {
                        let m = format!("{e}");
                        if m.contains("Could not find the provided PeerId") {
                            "err:peer-not-found".into()
                        } else if m.contains("Error while uninstalling node") {
                            "err:uninstall".into()
                        } else if m.contains("Error while installing node") {
                            "err:install".into()
                        } else if m.contains("The user must be set") {
                            "err:no-user".into()
                        } else {
                            format!("err:other:{}", m.replace(' ', "_"))
                        }
                    }
                }
            }
        }
        ["kill", i] | ["die-outside", i] => {
            let Ok(i) = i.parse::<usize>() else { return "bad-op".into() };
            if i >= w.reg.nodes.len() {
                return "err:no-such-service".into();
            }
            let name = w.reg.nodes[i].service_name.clone();
            w.os.lock().unwrap().procs.retain(|p| p.name != name);
            w.killed = true;
            w.file_stale = true;
            "ok".into()
        }
        ["flaky", i, b] => {
            let (Ok(i), Some(b)) = (i.parse::<usize>(), b01(b)) else { return "bad-op".into() };
            if i >= w.reg.nodes.len() {
                return "err:no-such-service".into();
            }
            let name = w.reg.nodes[i].service_name.clone();
            let mut os = w.os.lock().unwrap();
            if b { os.flaky.insert(name); } else { os.flaky.remove(&name); }
            "ok".into()
        }
        ["reload"] => match load_file(w) {
            Ok(r) => {
                w.reg = r;
                w.killed = w.file_stale;
                "ok".into()
            }
            Err(_) => "err:load".into(),
        },
        ["saveload"] => {
            if let Err(e) = w.reg.save() {
                return format!("err:save:{}", svc_err(&e));
            }
            match NodeRegistry::load(&w.reg.save_path.clone()) {
                Ok(r) => {
                    w.reg = r;
                    w.saved_now = true;
                    "ok".into()
                }
                Err(e) => format!("err:load:{}", svc_err(&e)),
            }
        }
        _ => "bad-op".into(),
    }
}

// ---------------------------------------------------------------------------------------------
// model-independent oracle: the clauses of C19 stated on the real registry and the simulated OS
// ---------------------------------------------------------------------------------------------
#[derive(Clone, Debug, PartialEq)]
struct Snap {
    name: String,
    status: ServiceStatus,
    pid: Option<u32>,
    data_dir: PathBuf,
    log_dir: PathBuf,
    bin: PathBuf,
    ports: Vec<u16>,
    rpc: u16,
    peer: Option<PeerId>,
    cp: Option<usize>,
}
fn snapshot(w: &World) -> (Vec<Snap>, Vec<Proc>) {
    let s = w
        .reg
        .nodes
        .iter()
        .map(|n| Snap {
            name: n.service_name.clone(),
            status: n.status.clone(),
            pid: n.pid,
            data_dir: n.data_dir_path.clone(),
            log_dir: n.log_dir_path.clone(),
            bin: n.antnode_path.clone(),
            ports: n.metrics_port.into_iter().chain(n.node_port).chain(std::iter::once(n.rpc_socket_addr.port())).collect(),
            rpc: n.rpc_socket_addr.port(),
            peer: n.peer_id,
            cp: n.connected_peers.as_ref().map(|c| c.len()),
        })
        .collect();
    (s, w.os.lock().unwrap().procs.clone())
}
fn range_ports(r: &Option<PortRange>) -> Vec<u16> {
    match r {
        None => vec![],
        Some(PortRange::Single(p)) => vec![*p],
        Some(PortRange::Range(a, b)) => (*a..=*b).collect(),
    }
}

struct OpInfo<'a> {
    ws: &'a [&'a str],
    result: &'a str,
    calls: usize,
    pre: &'a (Vec<Snap>, Vec<Proc>),
    post: &'a (Vec<Snap>, Vec<Proc>),
    killed: bool,
    file: &'a Result<NodeRegistry, String>,
    /// the op ran as a whole antctl invocation (`cmd <op>`): `pre` is the state after load + partial refresh
    is_cmd: bool,
}

fn oracle(w: &World, info: &OpInfo, history: &[String], out: &mut Out) {
    let hist = history.join(" ; ");
    let (s0, p0) = info.pre;
    let (s1, p1) = info.post;
    let failed = info.result.starts_with("err") || info.result.contains("UpgradedButNotStarted") || info.result == "panic";
    let alive = |procs: &Vec<Proc>, bin: &Path| procs.iter().any(|p| p.exe == bin);
    if info.result == "panic" {
        out.oracle_fail("no-panic", &hist, "implementation panicked");
        return;
    }
    // names and data directories unique
    for (a, x) in s1.iter().enumerate() {
        for y in s1.iter().skip(a + 1) {
            if x.name == y.name {
                out.oracle_fail("names-dirs-unique", &hist, &format!("two registry entries are named {}", x.name));
            } else if x.data_dir == y.data_dir || x.log_dir == y.log_dir {
                out.oracle_fail("names-dirs-unique", &hist, &format!("{} and {} share a data/log directory", x.name, y.name));
            }
        }
    }
    // a failed operation never newly records Running
    if failed {
        for (i, x) in s1.iter().enumerate() {
            // exactly the property's wording: newly recorded Running WHEN IT IS NOT (no live process with the recorded
            // pid). Recording Running + pid of a process that is alive is a model difference, not a property failure.
            let newly = x.status == ServiceStatus::Running && s0.get(i).map_or(true, |o| o.status != ServiceStatus::Running);
            let really_running = p1.iter().any(|p| p.exe == x.bin && Some(p.pid) == x.pid);
            if newly && !really_running {
                out.oracle_fail("failure-never-marks-running", &hist, &format!("operation failed ({}) but {} is newly recorded Running with pid {:?} and no such process is alive", info.result, x.name, x.pid));
            }
        }
    }
    // a service recorded Running has a live process with the recorded pid
    // (processes killed behind the manager's back are outside the property's quantifier: after a `kill`
    //  the clause is required again once a refresh has re-recorded the live processes)
    let check_running: Vec<usize> = if !info.killed { (0..s1.len()).collect() } else { vec![] };
    for i in check_running {
        let x = &s1[i];
        if x.status == ServiceStatus::Running && !p1.iter().any(|p| p.exe == x.bin && Some(p.pid) == x.pid) {
            out.oracle_fail("running-has-process", &hist, &format!("{} recorded Running with pid {:?} but no such live process", x.name, x.pid));
        }
    }
    // a refresh that went through records reality: every service with a live process is Running with the pid the OS
    // reports (a full refresh: and the peer id / connected peers the owner of its RPC port reports), every other one
    // is not Running and records no pid
    let refreshed = match info.ws.first().copied() {
        Some("refresh") => info.result == "ok",
        Some("refresh-full") => info.result == "ok" || info.result == "err:ServiceNotRunning",
        _ => false,
    };
    if refreshed {
        let full = info.ws[0] == "refresh-full";
        for x in s1.iter() {
            match p1.iter().find(|p| p.exe == x.bin) {
                Some(p) => {
                    if x.status != ServiceStatus::Running || x.pid != Some(p.pid) {
                        out.oracle_fail("refresh-records-reality", &hist, &format!("{} has the live process {} but is recorded {:?} with pid {:?} after the refresh", x.name, p.pid, x.status, x.pid));
                    }
                    if full {
                        let owner = p1.iter().filter(|q| q.rpc == x.rpc).min_by_key(|q| q.pid);
                        match owner {
                            Some(o) => {
                                if x.peer != Some(peer_of(o)) || x.cp != Some(n_peers_of(o.pid)) {
                                    out.oracle_fail("refresh-records-reality", &hist, &format!("{}: the full refresh did not record the peer id / the {} connected peers its node RPC (answered by pid {}) reports (recorded cp={:?})", x.name, n_peers_of(o.pid), o.pid, x.cp));
                                }
                            }
                            None => out.oracle_fail("refresh-records-reality", &hist, &format!("{}: the full refresh succeeded although nothing answers on its RPC port", x.name)),
                        }
                    }
                }
                None => {
                    if x.status == ServiceStatus::Running || x.pid.is_some() {
                        out.oracle_fail("refresh-records-reality", &hist, &format!("{} has no live process but is recorded {:?} with pid {:?} after the refresh", x.name, x.status, x.pid));
                    }
                }
            }
        }
        out.count(if full { "oracle:full-refresh-judged" } else { "oracle:refresh-judged" });
    }
    // a successful daemon restart leaves the addressed service (retain) / its replacement (no retain) Running with a live
    // process of the recorded pid, and the replaced service stopped without pid
    if let ["drestart", i, rest @ ..] = info.ws {
        if let (Ok(i), Some(retain)) = (i.parse::<usize>(), kv(rest, "retain").and_then(b01)) {
            if !failed && i < s0.len() && s0[i].peer.is_some() {
                let j = s0.iter().position(|x| x.peer == s0[i].peer).unwrap_or(i);
                let running_live = |x: &Snap| x.status == ServiceStatus::Running && p1.iter().any(|p| p.exe == x.bin && Some(p.pid) == x.pid);
                if retain {
                    if s1.len() != s0.len() || !running_live(&s1[j]) {
                        out.oracle_fail("restart-leaves-running", &hist, &format!("the restart of {} succeeded but it is recorded {:?} with pid {:?} (live processes: {:?})", s1[j].name, s1[j].status, s1[j].pid, p1.iter().map(|p| p.pid).collect::<Vec<_>>()));
                    }
                } else {
                    if s1.len() != s0.len() + 1 || !running_live(&s1[s1.len() - 1]) {
                        out.oracle_fail("restart-leaves-running", &hist, &format!("the restart of {} into a new service succeeded but the registry went from {} to {} entries / the new entry is not Running with a live process", s0[j].name, s0.len(), s1.len()));
                    }
                    if s1[j].status == ServiceStatus::Running || s1[j].pid.is_some() {
                        out.oracle_fail("restart-leaves-running", &hist, &format!("the replaced service {} is still recorded {:?} with pid {:?}", s1[j].name, s1[j].status, s1[j].pid));
                    }
                }
                out.count("oracle:restart-judged");
            }
        }
    }
    // removed stays removed  /  successful stop or remove leaves no process and no pid.
    // Known finding K-s-orphan: evaluated only when the service had no unrecorded live process at entry.
    for (i, x) in s0.iter().enumerate() {
        if x.status == ServiceStatus::Removed {
            if alive(p0, &x.bin) {
                out.count("oracle-skip:removed-with-orphan-process");
            } else if s1.get(i).map_or(true, |y| y.status != ServiceStatus::Removed) {
                out.oracle_fail("removed-stays-removed", &hist, &format!("{} was Removed and is now {:?}", x.name, s1.get(i).map(|y| y.status.clone())));
            }
        }
    }
    if let ["stop", i, ..] | ["remove", i, ..] = info.ws {
        if let Ok(i) = i.parse::<usize>() {
            if !failed && i < s0.len() {
                let x = &s0[i];
                // a whole `antctl stop|remove` has loaded and refreshed the registry first: no excuse (an unrecorded
                // live process was recorded by the refresh); the bare ServiceManager call is judged only when the
                // service had no unrecorded live process at entry (K-s-orphan)
                if !info.is_cmd && x.status != ServiceStatus::Running && alive(p0, &x.bin) {
                    out.count("oracle-skip:stop-remove-with-orphan-process");
                } else {
                    if info.is_cmd {
                        out.count("oracle:cmd-stop-remove-judged");
                    }
                    if alive(p1, &x.bin) {
                        out.oracle_fail("stop-remove-leave-nothing", &hist, &format!("{} succeeded on {} but its process is still alive", info.ws[0], x.name));
                    }
                    if s1[i].pid.is_some() {
                        out.oracle_fail("stop-remove-leave-nothing", &hist, &format!("{} succeeded on {} but pid {:?} is still recorded", info.ws[0], x.name, s1[i].pid));
                    }
                    if info.ws[0] == "remove" && s1[i].status != ServiceStatus::Removed {
                        out.oracle_fail("stop-remove-leave-nothing", &hist, &format!("remove succeeded on {} but status is {:?}", x.name, s1[i].status));
                    }
                }
            }
        }
    }
    // a requested port already recorded by another service is refused
    if let ["add", rest @ ..] = info.ws {
        let recorded: BTreeSet<u16> = s0.iter().flat_map(|x| x.ports.iter().copied()).collect();
        let mut requested = vec![];
        for k in ["np", "mp", "rp"] {
            if let Some(Some(r)) = kv(rest, k).map(parse_range) {
                requested.extend(range_ports(&r));
            }
        }
        if let Some(p) = requested.iter().find(|p| recorded.contains(p)) {
            if !failed || s1 != s0 || info.calls != 0 {
                out.oracle_fail("requested-port-refused", &hist, &format!("port {p} is recorded by an existing service but the add was not refused cleanly ({})", info.result));
            }
            out.count("oracle:requested-port-conflict");
        }
        // ... and a port requested twice in one add (two of the node / metrics / RPC ranges share it) would be recorded
        // by two of the new services, or twice by one: refused as well
        let mut seen = BTreeSet::new();
        if let Some(p) = requested.iter().find(|p| !seen.insert(**p)) {
            if !failed || s1 != s0 || info.calls != 0 {
                out.oracle_fail("requested-port-refused", &hist, &format!("port {p} is requested for two of the node / metrics / RPC ports of the new services but the add was not refused cleanly ({})", info.result));
            }
            out.count("oracle:requested-port-twice");
        }
        // post-state: no two recorded ports are equal — over all ports of the services recorded before and the
        // REQUESTED ports of the new ones (a port handed out by get_available_port is whatever the OS says is free; the
        // code compares it with nothing: declared), provided the recorded ports were pairwise distinct before (the
        // daemon's replacement service shares its RPC port with the service it replaces: K-s-rpcshare)
        let mut all: Vec<(String, u16)> = s0.iter().flat_map(|x| x.ports.iter().map(|p| (x.name.clone(), *p))).collect();
        let mut d = BTreeSet::new();
        if all.iter().all(|(_, p)| d.insert(*p)) {
            for x in s1.iter().skip(s0.len()) {
                let n = w.reg.nodes.iter().find(|n| n.service_name == x.name);
                for (k, port) in [("mp", n.and_then(|n| n.metrics_port)), ("np", n.and_then(|n| n.node_port)), ("rp", n.map(|n| n.rpc_socket_addr.port()))] {
                    if let (Some(port), Some(Some(Some(_)))) = (port, kv(rest, k).map(parse_range)) {
                        all.push((x.name.clone(), port));
                    }
                }
            }
            let mut d = BTreeMap::new();
            for (name, p) in &all {
                if let Some(other) = d.insert(*p, name.clone()) {
                    out.oracle_fail("no-two-services-share-a-port", &hist, &format!("after the add port {p} is recorded for {other} and for {name}"));
                }
            }
            out.count("oracle:ports-judged");
        } else {
            out.count("oracle-skip:ports-shared-before-the-add");
        }
    }
    // the registry FILE: a service recorded Running there has a live process with the recorded pid — after every
    // operation, whatever its outcome and whatever faults it met (only outside events excuse the file, until a registry
    // refreshed after them is saved)
    if let (Ok(file), false) = (info.file, w.file_stale) {
        for n in file.nodes.iter() {
            if n.status == ServiceStatus::Running && !p1.iter().any(|p| p.exe == n.antnode_path && Some(p.pid) == n.pid) {
                out.oracle_fail("running-has-process-file", &hist, &format!("the registry file records {} Running with pid {:?} but no such live process (the next antctl / antctld invocation starts from this)", n.service_name, n.pid));
            }
        }
        out.count("oracle:file-running-judged");
    }
    // registry save -> load identity of the serialisation itself (to a side file: the registry file proper is an
    // observable and is never written by the oracle)
    let mut side = w.reg.clone();
    side.save_path = w.tmp.path().join("oracle-side.json");
    let touches_registry = !matches!(info.ws.first().copied(), Some("kill") | Some("die-outside") | Some("restart-outside") | Some("flaky"));
    if touches_registry {
    // (same serialisation code as save/load — serde_json::to_string + NodeRegistry::from_json — without the disk; the
    //  disk path itself is observed through the registry file above all)
    let text = serde_json::to_string(&side);
    match text.as_ref().map_err(|e| format!("{e}")).and_then(|j| NodeRegistry::from_json(j).map_err(|e| format!("{e}"))) {
        Ok(back) => {
            let a = serde_json::to_value(&side).expect("json");
            let b = serde_json::to_value(&back).expect("json");
            if a != b {
                out.oracle_fail("save-load-identity", &hist, "registry differs after save + load");
            }
            // ... and byte for byte: what was loaded saves to the same text again
            if serde_json::to_string(&back).ok().as_ref() != text.as_ref().ok() {
                out.oracle_fail("save-load-identity", &hist, "the loaded registry does not save to the same bytes again");
            }
        }
        Err(e) => out.oracle_fail("save-load-identity", &hist, &format!("save/load failed: {e}")),
    }
    }
    // ... and with every optional list / string field forced to Some(empty) resp. None: both must load back as
    // they were saved (`None` and `Some([])` are different recorded states)
    let run_variants = matches!(info.ws.first().copied(), Some("start") | Some("saveload") | Some("reload")) && !s1.is_empty();
    for variant in [true, false].into_iter().filter(|_| run_variants) {
        let mut v = w.reg.clone();
        v.save_path = w.tmp.path().join("oracle-side.json");
        v.environment_variables = if variant { Some(vec![]) } else { None };
        for n in v.nodes.iter_mut() {
            n.connected_peers = if variant { Some(vec![]) } else { None };
            n.listen_addr = if variant { Some(vec![]) } else { None };
            n.owner = if variant { Some(String::new()) } else { None };
            n.user = if variant { Some(String::new()) } else { None };
        }
        match serde_json::to_string(&v).map_err(ant_service_management::Error::from).and_then(|j| NodeRegistry::from_json(&j)) {
            Ok(back) => {
                if serde_json::to_value(&v).expect("json") != serde_json::to_value(&back).expect("json") {
                    let what = if variant { "Some(empty)" } else { "None" };
                    out.oracle_fail("save-load-identity", &hist, &format!("registry with optional list/string fields set to {what} differs after save + load"));
                }
            }
            Err(e) => out.oracle_fail("save-load-identity", &hist, &format!("save/load of the empty-fields variant failed: {e}")),
        }
    }
    // the registry FILE as left by the code under test (and by the harness where it plays the command that saves
    // after success)
    match info.file {
        Err(e) => out.oracle_fail("file-matches-memory", &hist, &format!("the registry file does not load: {e}")),
        Ok(file) => {
            // (a) every step that claims to have saved: file == memory. `add_node` claims it for every service it
            //     records ("we save the node registry for each service"), the commands after a successful operation,
            //     `upgrade` always.
            let recorded_new = s1.len() > s0.len();
            // (the callers' saves are where the source has them — flags; add_node's own saves are the code under test)
            // "The registry saved after each step loads back to the same state": after every operation that SUCCEEDED the
            // file must be the in-memory registry (whether or not the caller, as played here from the flags, saved).
            let addressed = info.result != "err:no-such-service" && info.result != "bad-op";
            let claims_saved = w.saved_now
                || match info.ws.first().copied() {
                    Some("add") => !failed || recorded_new,
                    Some("start") | Some("stop") | Some("remove") | Some("upgrade") | Some("refresh-full") | Some("drestart") => !failed && addressed,
                    Some("reload") => !failed,
                    _ => false,
                };
            if claims_saved {
                let a = serde_json::to_value(&w.reg).expect("json");
                let b = serde_json::to_value(&file).expect("json");
                if a != b {
                    out.oracle_fail("file-matches-memory", &hist, &format!("after `{}` ({}) the registry file differs from the in-memory registry: file has {} entries, memory {}", info.ws[0], info.result, file.nodes.len(), w.reg.nodes.len()));
                }
                out.count("oracle:file-compared");
            }
            // (b) every service the OS has a definition for is recorded in the file, so the next invocation knows it
            let os = w.os.lock().unwrap();
            for name in os.installed.keys().filter(|_| !w.unrecorded_install) {
                if !file.nodes.iter().any(|n| &n.service_name == name) {
                    out.oracle_fail("installed-recorded-in-file", &hist, &format!("{name} is installed but absent from the registry file"));
                }
            }
            // (c) names / directories unique in the file as well
            for (a, x) in file.nodes.iter().enumerate() {
                for y in file.nodes.iter().skip(a + 1) {
                    if x.service_name == y.service_name || x.data_dir_path == y.data_dir_path {
                        out.oracle_fail("names-dirs-unique", &hist, &format!("registry file: {} and {} share a name or data directory", x.service_name, y.service_name));
                    }
                }
            }
        }
    }
}

// ---------------------------------------------------------------------------------------------
// execution of a list of lines (histories separated by `reset`)
// ---------------------------------------------------------------------------------------------
struct Runner {
    world: World,
    history: Vec<String>,
    rt: std::rc::Rc<tokio::runtime::Runtime>,
}
impl Runner {
    fn new() -> Self {
        let rt = RT.with(|rt| rt.clone());
        Runner { world: World::new(rt.clone()), history: vec![], rt }
    }
    /// returns (output line, fallible calls made)
    fn run_line(&mut self, line: &str, out: Option<&mut Out>) -> (String, usize) {
        let ws: Vec<&str> = line.split_whitespace().collect();
        if ws.as_slice() == ["reset"] {
            self.world = World::new(self.rt.clone());
            self.history = vec![line.to_string()];
            return ("ok".into(), 0);
        }
        self.history.push(line.to_string());
        if let Some(r) = probe(&mut self.world, &ws) {
            // (observations: no registry dump, not compared with the model)
            return (r, 0);
        }
        // `cmd <op>`: the head of the antctl invocation first; pre-state, oracle and fault oracle are those of `<op>`
        let is_cmd = ws.first() == Some(&"cmd");
        let ws: Vec<&str> = if is_cmd { ws[1..].to_vec() } else { ws };
        if is_cmd && !matches!(ws.first(), Some(&"add" | &"start" | &"stop" | &"remove" | &"upgrade" | &"refresh-full")) {
            return ("bad-op".into(), 0);
        }
        let faults = if matches!(ws.first(), Some(&"add" | &"start" | &"stop" | &"remove" | &"upgrade" | &"drestart")) {
            match parse_faults(&ws) {
                Some(f) => f,
                None => return ("bad-op".into(), 0),
            }
        } else if ws.first() == Some(&"refresh-full") && kv(&ws, "faults").is_some() {
            match parse_faults(&ws) {
                Some(f) => f,
                None => return ("bad-op".into(), 0),
            }
        } else {
            VecDeque::new()
        };
        {
            let mut os = self.world.os.lock().unwrap();
            os.faults = faults;
            os.calls = 0;
        }
        self.world.saved_now = false;
        let entry = if is_cmd {
            let w = &mut self.world;
            catch_unwind(AssertUnwindSafe(|| cmd_entry(w, &ws))).unwrap_or_else(|_| Err("panic".into()))
        } else {
            Ok(())
        };
        let pre = snapshot(&self.world);
        let w = &mut self.world;
        let result = match entry {
            Ok(()) => catch_unwind(AssertUnwindSafe(|| exec_op(w, &ws))).unwrap_or_else(|_| "panic".into()),
            Err(r) => r,
        };
        let calls = self.world.os.lock().unwrap().calls;
        let post = snapshot(&self.world);
        // an `install` that wrote its definition and then reported failure: nothing can know that definition
        // (a call that has its effect and then reports failure does NOT excuse the file otherwise: whatever a command
        //  kills it must record and save — clause running-has-process-file)
        if kv(&ws, "faults").map_or(false, |f| f.contains('2')) && matches!(ws.first().copied(), Some("add") | Some("drestart")) {
            self.world.unrecorded_install = true;
        }
        // the file is stale only through outside events (kill / restart-outside), until a registry that was refreshed
        // after them is saved
        if self.world.saved_now && !self.world.killed {
            self.world.file_stale = false;
        }
        if out.is_none() {
            // dry run of the generator (only the number of fallible calls is needed)
            return (String::new(), calls);
        }
        let file = load_file(&self.world);
        if let Some(out) = out {
            let info = OpInfo { ws: &ws, result: &result, calls, pre: &pre, post: &post, killed: self.world.killed, file: &file, is_cmd };
            oracle(&self.world, &info, &self.history, out);
            let class = result.split(':').take(2).collect::<Vec<_>>().join(":");
            out.count(&format!("{}{}:{}", if is_cmd { "cmd-" } else { "" }, ws.first().unwrap_or(&""), class));
        }
        (format!("{result} calls={calls} | {}", dump(&self.world, &file)), calls)
    }
}

// ---------------------------------------------------------------------------------------------
// generators
// ---------------------------------------------------------------------------------------------
/// the operation word of a line (`cmd stop 0` -> `stop`)
fn op_word(line: &str) -> &str {
    let mut it = line.split(' ');
    match it.next() {
        Some("cmd") => it.next().unwrap_or(""),
        Some(w) => w,
        None => "",
    }
}
fn with_faults(op: &str, bits: &[u8]) -> String {
    let head = op.split(" faults=").next().unwrap_or(op);
    if !["add", "start", "stop", "remove", "upgrade", "drestart", "refresh-full"].contains(&op_word(head)) {
        return op.to_string();
    }
    let f: String = if bits.is_empty() { "-".into() } else { bits.iter().map(|b| (b'0' + *b) as char).collect() };
    format!("{head} faults={f}")
}

/// the op alphabet over services 0..nsvc (inputs without the faults field)
/// `running`: the family starts from started services, so entries have recorded a peer id and the daemon's restart
/// can address them. An entry `a|b` stands for the two lines `a`, `b` (the daemon loads the registry from the file).
fn alphabet(nsvc: usize, rich: bool, running: bool) -> Vec<String> {
    let mut v = vec![];
    for i in 0..nsvc {
        if running {
            v.push(format!("drestart {i} retain=1"));
            v.push(format!("drestart {i} retain=0"));
            v.push(format!("reload|drestart {i} retain=1"));
        }
        v.push(format!("start {i} ct=0"));
        v.push(format!("stop {i}"));
        v.push(format!("remove {i} keep=0"));
        v.push(format!("remove {i} keep=1"));
        v.push(format!("upgrade {i} force=0 start=1 ver=2 ct=0"));
        v.push(format!("kill {i}"));
        v.push(format!("restart-outside {i}"));
        if rich {
            v.push(format!("start {i} ct=1"));
            v.push(format!("upgrade {i} force=1 start=0 ver=0 ct=0"));
            v.push(format!("upgrade {i} force=0 start=1 ver=1 ct=1"));
            v.push(format!("flaky {i} 1"));
            v.push(format!("flaky {i} 0"));
        }
    }
    v.push("refresh".into());
    v.push("refresh-full fail=0".into());
    v.push("saveload".into());
    v.push("reload".into());
    v.push("add count=1 np=- mp=- rp=- metrics=0 ver=1".into());
    if rich {
        v.push("refresh-full fail=1".into());
        v.push("add count=2 np=- mp=- rp=- metrics=1 ver=1".into());
        v.push("add count=2 np=8000-8001 mp=- rp=- metrics=0 ver=1".into());
        v.push("add count=1 np=8001 mp=- rp=8001 metrics=0 ver=1".into());
    }
    v
}

fn random_add(rng: &mut Rng) -> String {
    let count = *rng.pick(&[1u64, 1, 2, 2, 3, 0]);
    let mut range = |rng: &mut Rng, base: u64| -> String {
        match rng.below(6) {
            0..=2 => "-".to_string(),
            3 => {
                let s = base + rng.below(4);
                if count <= 1 { format!("{s}") } else { format!("{}-{}", s, s + count - 1) }
            }
            4 => {
                // possibly clashing with what other adds recorded (all three kinds draw from nearby ports)
                let s = 8000 + rng.below(6);
                if count <= 1 { format!("{s}") } else { format!("{}-{}", s, s + count - 1) }
            }
            _ => {
                // count mismatch / degenerate ranges
                let s = base + rng.below(4);
                if rng.chance(1, 2) { format!("{}-{}", s, s + rng.below(3)) } else { format!("{s}") }
            }
        }
    };
    let np = range(rng, 8000);
    let mp = range(rng, 8003);
    let rp = range(rng, 8006);
    format!("add count={count} np={np} mp={mp} rp={rp} metrics={} ver={}", rng.below(2), rng.below(3))
}

fn random_op(rng: &mut Rng, nsvc: usize) -> String {
    let o = random_bare_op(rng, nsvc);
    // a third of the commands as whole antctl invocations
    if ["add", "start", "stop", "remove", "upgrade", "refresh-full"].contains(&op_word(&o)) && rng.chance(1, 3) {
        format!("cmd {o}")
    } else {
        o
    }
}
fn random_bare_op(rng: &mut Rng, nsvc: usize) -> String {
    let extra = if rng.chance(1, 20) { 1 } else { 0 };
    let i = rng.below(nsvc.max(1) as u64 + extra);
    match rng.below(20) {
        0..=4 => format!("start {i} ct={}", rng.below(2)),
        5..=7 => format!("stop {i}"),
        8..=9 => format!("remove {i} keep={}", rng.below(2)),
        10..=12 => format!("upgrade {i} force={} start={} ver={} ct={}", rng.below(2), rng.below(2), rng.below(3), rng.below(2)),
        13 => "refresh".into(),
        14 => match rng.below(4) {
            0 => format!("refresh-full fail={}", rng.below(2)),
            1 => format!("drestart {i} retain={}", rng.below(2)),
            2 => format!("reload|drestart {i} retain={}", rng.below(2)),
            _ => "refresh".into(),
        },
        15 => if rng.chance(1, 2) { format!("kill {i}") } else { format!("restart-outside {i}") },
        16 => format!("flaky {i} {}", rng.below(2)),
        17 => if rng.chance(1, 2) { "saveload".into() } else { "reload".into() },
        _ => random_add(rng),
    }
}

/// Expand a base history (ops without faults) into the fault-free run plus all single-fault placements
/// (and, if `pairs`, a seeded sample of two-fault placements). Call counts come from a dry run.
/// `after_effect`: 0 = fail-without-effect placements only, 1 = plus the fail-after-effect variant of a seeded half of
/// the placements, 2 = of every placement.
fn expand(base: &[String], rng: &mut Rng, pairs: usize, out_lines: &mut Vec<String>, singles_cap: usize, after_effect: u8) {
    let base: Vec<String> = base.iter().flat_map(|e| e.split('|').map(String::from)).collect();
    let base = &base;
    let mut r = Runner::new();
    let mut counts = vec![];
    for l in base {
        let (_, c) = r.run_line(&with_faults(l, &[]), None);
        counts.push(c);
    }
    let emit = |faults: &BTreeMap<usize, Vec<u8>>, out_lines: &mut Vec<String>| {
        out_lines.push("reset".into());
        for (k, l) in base.iter().enumerate() {
            out_lines.push(with_faults(l, faults.get(&k).map(|v| v.as_slice()).unwrap_or(&[])));
        }
    };
    emit(&BTreeMap::new(), out_lines);
    // one extra position per op: a fault may lengthen/shorten the call sequence
    let mut places: Vec<(usize, usize)> = vec![];
    for (k, c) in counts.iter().enumerate() {
        let head = op_word(&base[k]);
        if ["add", "start", "stop", "remove", "upgrade", "drestart", "refresh-full"].contains(&head) {
            let extra = if head == "upgrade" || head == "add" || head == "drestart" { 2 } else { 0 };
            for j in 0..(*c + extra) {
                places.push((k, j));
            }
        }
    }
    // kind 1: the call fails without effect; kind 2: it has its effect and then reports failure
    let bits = |j: usize, kind: u8| -> Vec<u8> { (0..=j).map(|x| if x == j { kind } else { 0 }).collect() };
    let mut singles = places.clone();
    if singles.len() > singles_cap {
        rng.shuffle(&mut singles);
        singles.truncate(singles_cap);
    }
    for (k, j) in &singles {
        let mut m = BTreeMap::new();
        m.insert(*k, bits(*j, 1));
        emit(&m, out_lines);
        // the fail-after-effect variant of the same placement (for an RPC query the two coincide: a seeded half)
        if after_effect >= 2 || (after_effect == 1 && rng.chance(1, 2)) {
            let mut m = BTreeMap::new();
            m.insert(*k, bits(*j, 2));
            emit(&m, out_lines);
        }
    }
    for _ in 0..pairs {
        if places.len() < 2 {
            break;
        }
        let a = *rng.pick(&places);
        let b = *rng.pick(&places);
        if a == b {
            continue;
        }
        let mut m: BTreeMap<usize, Vec<u8>> = BTreeMap::new();
        for (k, j) in [a, b] {
            let e = m.entry(k).or_default();
            if e.len() <= j {
                e.resize(j + 1, 0);
            }
            e[j] = if rng.chance(1, 2) { 1 } else { 2 };
        }
        emit(&m, out_lines);
    }
}

fn generate(seed: u64, n: u64) -> Vec<String> {
    let mut rng = Rng::new(seed);
    let mut lines = vec![];
    let thorough = n >= 2000;
    // corpus of past minimal failures first
    let corpus: Vec<Vec<&str>> = vec![
        // F-s: first install of a two-node add fails, next add must not reuse the name antnode2
        vec!["reset", "add count=2 np=- mp=- rp=- metrics=0 ver=1 faults=01", "add count=1 np=- mp=- rp=- metrics=0 ver=1 faults=-"],
        vec!["reset", "add count=3 np=- mp=- rp=- metrics=0 ver=1 faults=0100", "add count=2 np=- mp=- rp=- metrics=0 ver=1 faults=-", "remove 0 keep=0 faults=-", "add count=1 np=- mp=- rp=- metrics=0 ver=1 faults=-"],
        // registry file: a multi-node add that returns early (second port allocation fails) must have saved the
        // service it installed; the next invocation starts from the file and must not hand out antnode1 again
        vec!["reset", "add count=3 np=- mp=- rp=- metrics=0 ver=1 faults=001", "reload", "add count=1 np=- mp=- rp=- metrics=0 ver=1 faults=-"],
        vec!["reset", "add count=2 np=- mp=- rp=- metrics=1 ver=1 faults=0001", "reload", "add count=2 np=- mp=- rp=- metrics=0 ver=1 faults=-", "reload", "start 0 ct=0 faults=-", "reload"],
        // a running service restarted under a new pid behind the manager's back: the partial refresh every command
        // runs first must record the pid the OS reports
        vec!["reset", "add count=1 np=- mp=- rp=- metrics=0 ver=1 faults=-", "start 0 ct=0 faults=-", "restart-outside 0", "refresh", "stop 0 faults=-"],
        vec!["reset", "add count=2 np=- mp=- rp=- metrics=0 ver=1 faults=-", "start 1 ct=0 faults=-", "start 0 ct=0 faults=-", "restart-outside 1", "die-outside 0", "refresh", "reload", "refresh"],
        // full refresh (as `antctl status` calls it) through the real RpcClient and the served endpoints
        vec!["reset", "add count=2 np=- mp=- rp=- metrics=0 ver=1 faults=-", "start 1 ct=0 faults=-", "kill 1", "refresh-full", "start 1 ct=0 faults=-", "refresh-full"],
        // ... re-records pid, peer id, peers and listener port of a process restarted behind the manager's back; a
        // failing RPC leaves the entries before it refreshed and is not saved; --fail
        vec!["reset", "add count=3 np=- mp=- rp=- metrics=0 ver=1 faults=-", "start 0 ct=0 faults=-", "start 1 ct=0 faults=-", "start 2 ct=0 faults=-", "restart-outside 0", "restart-outside 1", "die-outside 2", "refresh-full fail=0 faults=001", "reload", "refresh-full fail=0 faults=-", "refresh-full fail=1 faults=-", "reload"],
        // ... and picks up a process the registry does not know about (K-s-orphan) as Running with its pid
        vec!["reset", "add count=1 np=- mp=- rp=- metrics=0 ver=1 faults=-", "start 0 ct=0 faults=01", "refresh-full fail=1 faults=-", "stop 0 faults=-"],
        // the daemon's restart (antctld loads the file, restarts, saves whatever the outcome)
        vec!["reset", "add count=2 np=- mp=- rp=- metrics=0 ver=1 faults=-", "start 0 ct=0 faults=-", "start 1 ct=0 faults=-", "reload", "drestart 0 retain=1 faults=-", "reload", "drestart 1 retain=0 faults=-", "reload", "drestart 0 retain=1 faults=00001", "reload", "drestart 0 retain=1 faults=001"],
        // the replacement service must not reuse a recorded name after a partially failed add (numbered from the
        // registry length before the fix), and is recorded even when its first start fails
        vec!["reset", "add count=2 np=- mp=- rp=- metrics=0 ver=1 faults=01", "start 0 ct=0 faults=-", "drestart 0 retain=0 faults=-", "drestart 1 retain=0 faults=001", "drestart 1 retain=0 faults=0001", "start 2 ct=0 faults=-"],
        // the replacement shares the RPC address of the service it replaces: the older process answers for both
        vec!["reset", "add count=1 np=- mp=- rp=- metrics=0 ver=1 faults=-", "start 0 ct=0 faults=-", "drestart 0 retain=0 faults=-", "start 0 ct=0 faults=-", "refresh-full fail=0 faults=-", "stop 1 faults=-", "refresh-full fail=0 faults=-", "drestart 0 retain=1 faults=-"],
        // calls that have their effect and then report failure: stop (the process is gone: recorded as stopped since the
        // fix, Running with a dead pid before), start (K-s-orphan), uninstall / install (remove, upgrade, add, daemon)
        vec!["reset", "add count=1 np=- mp=- rp=- metrics=0 ver=1 faults=-", "start 0 ct=0 faults=-", "stop 0 faults=2", "reload", "refresh", "start 0 ct=0 faults=2", "stop 0 faults=-"],
        vec!["reset", "add count=1 np=- mp=- rp=- metrics=0 ver=1 faults=-", "start 0 ct=0 faults=-", "upgrade 0 force=0 start=1 ver=2 ct=0 faults=2", "upgrade 0 force=0 start=1 ver=2 ct=0 faults=2", "upgrade 0 force=0 start=1 ver=2 ct=0 faults=02", "start 0 ct=0 faults=-", "upgrade 0 force=0 start=1 ver=3 ct=0 faults=002"],
        vec!["reset", "add count=2 np=- mp=- rp=- metrics=1 ver=1 faults=002", "add count=2 np=- mp=- rp=- metrics=0 ver=1 faults=02", "remove 0 keep=0 faults=2", "remove 0 keep=0 faults=-", "add count=1 np=- mp=- rp=- metrics=0 ver=1 faults=2"],
        vec!["reset", "add count=1 np=- mp=- rp=- metrics=0 ver=1 faults=-", "start 0 ct=0 faults=-", "reload", "drestart 0 retain=1 faults=2", "reload", "drestart 0 retain=1 faults=02", "drestart 0 retain=1 faults=002", "drestart 0 retain=0 faults=2", "drestart 0 retain=1 faults=0002", "refresh-full fail=0 faults=2"],
        // a restart whose RPC query fails after the launch leaves an unrecorded live process (K-s-orphan via the daemon)
        vec!["reset", "add count=1 np=8000 mp=- rp=- metrics=1 ver=1 faults=-", "start 0 ct=0 faults=-", "drestart 0 retain=1 faults=00001", "drestart 0 retain=1 faults=-", "remove 0 keep=0 faults=-", "drestart 0 retain=1 faults=-"],
        // zero / one / forty connected peers and an empty listener list (pids 100, 101, 102): saved and loaded back
        vec!["reset", "add count=3 np=- mp=- rp=- metrics=0 ver=1 faults=-", "start 0 ct=0 faults=-", "start 1 ct=0 faults=-", "start 2 ct=0 faults=-", "reload", "stop 0 faults=-", "saveload"],
        // K-s-orphan: RPC failure after the process launched
        vec!["reset", "add count=1 np=- mp=- rp=- metrics=0 ver=1 faults=-", "start 0 ct=0 faults=01", "stop 0 faults=-"],
        vec!["reset", "add count=1 np=- mp=- rp=- metrics=0 ver=1 faults=-", "start 0 ct=0 faults=001", "remove 0 keep=1 faults=-", "refresh"],
        // audit C19-1: a stop that kills and then reports failure must reach the FILE too (cmd::node::stop saved after Ok
        // only: the file kept Running + the pid of a dead process, and so did the next invocation)
        vec!["reset", "add count=1 np=- mp=- rp=- metrics=0 ver=1 faults=-", "start 0 ct=0 faults=-", "stop 0 faults=2", "reload"],
        vec!["reset", "add count=1 np=- mp=- rp=- metrics=0 ver=1 faults=-", "start 0 ct=0 faults=-", "cmd stop 0 faults=2", "cmd start 0 ct=0 faults=-"],
        vec!["reset", "add count=1 np=- mp=- rp=- metrics=0 ver=1 faults=-", "start 0 ct=0 faults=-", "cmd upgrade 0 force=0 start=1 ver=2 ct=0 faults=01", "reload", "cmd upgrade 0 force=0 start=1 ver=2 ct=0 faults=2"],
        // audit C19-3: whole antctl invocations; the refresh in front records an unrecorded live process (K-s-orphan), so
        // a successful `antctl stop` / `antctl remove` leaves nothing; a Removed service is not found
        vec!["reset", "add count=1 np=- mp=- rp=- metrics=0 ver=1 faults=-", "start 0 ct=0 faults=01", "cmd stop 0 faults=-", "cmd remove 0 keep=1 faults=-", "cmd start 0 ct=0 faults=-", "refresh"],
        vec!["reset", "add count=1 np=- mp=- rp=- metrics=0 ver=1 faults=-", "start 0 ct=0 faults=001", "cmd remove 0 keep=1 faults=-", "cmd stop 0 faults=-", "cmd remove 0 keep=0 faults=-", "cmd remove 0 keep=0 faults=-"],
        vec!["reset", "cmd add count=2 np=- mp=- rp=- metrics=0 ver=1 faults=001", "cmd add count=1 np=- mp=- rp=- metrics=0 ver=1 faults=-", "cmd start 1 ct=1 faults=-", "kill 1", "cmd refresh-full fail=1 faults=-", "cmd upgrade 1 force=1 start=1 ver=1 ct=0 faults=-", "cmd refresh-full fail=0 faults=-"],
        // audit C19-2: requested ranges that share a port (between two new services; within one new service)
        vec!["reset", "add count=2 np=8000-8001 mp=8001-8002 rp=- metrics=0 ver=1 faults=-", "add count=1 np=8000 mp=- rp=8000 metrics=0 ver=1 faults=-", "add count=2 np=8000-8001 mp=8002-8003 rp=8004-8005 metrics=0 ver=1 faults=-"],
        // port clashes
        vec!["reset", "add count=1 np=8000 mp=- rp=- metrics=0 ver=1 faults=-", "add count=1 np=- mp=- rp=8000 metrics=0 ver=1 faults=-"],
        vec!["reset", "add count=1 np=- mp=- rp=- metrics=0 ver=1 faults=-", "start 0 ct=0 faults=-", "add count=1 np=- mp=40100 rp=- metrics=0 ver=1 faults=-"],
        // kill behind the manager's back
        vec!["reset", "add count=1 np=- mp=- rp=- metrics=0 ver=1 faults=-", "start 0 ct=0 faults=-", "kill 0", "remove 0 keep=0 faults=-", "remove 0 keep=0 faults=-"],
        vec!["reset", "add count=1 np=- mp=- rp=- metrics=0 ver=1 faults=-", "flaky 0 1", "start 0 ct=0 faults=-", "upgrade 0 force=1 start=1 ver=1 ct=0 faults=-"],
    ];
    for h in corpus {
        lines.extend(h.into_iter().map(String::from));
    }
    // exhaustive small scope: prefix add(1|2 services), then all op sequences up to depth d, all single-fault placements
    let depth = if thorough { 3 } else { 2 };
    for nsvc in 1..=2usize {
        // (an outside restart needs a running process: it is part of the running-base family below)
        let alpha: Vec<String> = alphabet(nsvc, false, false).into_iter().filter(|a| !a.starts_with("restart-outside")).collect();
        let prefix = format!("add count={nsvc} np=- mp=- rp=- metrics=0 ver=1");
        let mut seqs: Vec<Vec<String>> = vec![vec![]];
        for _ in 0..depth {
            let mut next = vec![];
            for s in &seqs {
                for a in &alpha {
                    let mut t = s.clone();
                    t.push(a.clone());
                    next.push(t);
                }
            }
            for s in &next {
                let mut base = vec![prefix.clone()];
                base.extend(s.iter().cloned());
                // depth-3 exhaustive is large: single faults only on a seeded third of the sequences
                if s.len() < 3 || rng.chance(1, 3) {
                    expand(&base, &mut rng, 0, &mut lines, 64, if thorough || nsvc == 1 { 2 } else { 1 });
                } else {
                    lines.push("reset".into());
                    lines.extend(base.iter().flat_map(|e| e.split('|')).map(|l| with_faults(l, &[])));
                }
            }
            seqs = next;
        }
    }
    if std::env::var("C19_GEN_STATS").is_ok() { eprintln!("gen: after added-base family {}", lines.len()); }
    // port clashes at every position of a requested range (first, middle, last), for each port kind, against each
    // kind of recorded port: a single clashing port anywhere in the range must refuse the whole add
    for rec_kind in ["np", "mp", "rp"] {
        for req_kind in ["np", "mp", "rp"] {
            for k in 2..=3u64 {
                for pos in 0..k {
                    let p = 8010u64;
                    let first = {
                        let f = |kind: &str| if kind == rec_kind { p.to_string() } else { "-".to_string() };
                        format!("add count=1 np={} mp={} rp={} metrics=0 ver=1", f("np"), f("mp"), f("rp"))
                    };
                    let (a, b) = (p - pos, p - pos + k - 1);
                    let second = {
                        let f = |kind: &str| if kind == req_kind { format!("{a}-{b}") } else { "-".to_string() };
                        format!("add count={k} np={} mp={} rp={} metrics=0 ver=1", f("np"), f("mp"), f("rp"))
                    };
                    lines.push("reset".into());
                    lines.push(with_faults(&first, &[]));
                    lines.push(with_faults(&second, &[]));
                }
            }
        }
    }
    // the same at the ends of the u16 port space (seed C19-r6m1: a half-open `start..end.saturating_add(1)` loses
    // port 65535): a recorded 65535 / 1 against a single requested port and against ranges that end / begin there
    for rec_kind in ["np", "mp", "rp"] {
        for req_kind in ["np", "mp", "rp"] {
            for (p, reqs) in [
                (65535u64, vec![(1u64, "65535".to_string()), (2, "65534-65535".to_string()), (3, "65533-65535".to_string())]),
                (1u64, vec![(1u64, "1".to_string()), (2, "1-2".to_string())]),
            ] {
                for (k, req) in reqs {
                    let first = {
                        let f = |kind: &str| if kind == rec_kind { p.to_string() } else { "-".to_string() };
                        format!("add count=1 np={} mp={} rp={} metrics=0 ver=1", f("np"), f("mp"), f("rp"))
                    };
                    let second = {
                        let f = |kind: &str| if kind == req_kind { req.clone() } else { "-".to_string() };
                        format!("add count={k} np={} mp={} rp={} metrics=0 ver=1", f("np"), f("mp"), f("rp"))
                    };
                    lines.push("reset".into());
                    lines.push(with_faults(&first, &[]));
                    lines.push(with_faults(&second, &[]));
                }
            }
        }
    }
    // requested ranges against each other: every pair of port kinds, counts 1..3, every offset from "k below" to "k above"
    // (overlapping for |d| < k, disjoint otherwise), on an empty registry and next to a recorded service
    for (a, b) in [("np", "mp"), ("np", "rp"), ("mp", "rp")] {
        for k in 1..=3i64 {
            for d in -k..=k {
                for with_third in [false, true] {
                    let rng_of = |start: i64| if k == 1 { format!("{start}") } else { format!("{}-{}", start, start + k - 1) };
                    let f = |kind: &str| {
                        if kind == a {
                            rng_of(8020)
                        } else if kind == b {
                            rng_of(8020 + d)
                        } else if with_third {
                            rng_of(8040)
                        } else {
                            "-".to_string()
                        }
                    };
                    lines.push("reset".into());
                    if with_third {
                        lines.push(with_faults("add count=1 np=8100 mp=- rp=- metrics=1 ver=1", &[]));
                    }
                    lines.push(with_faults(&format!("add count={k} np={} mp={} rp={} metrics=0 ver=1", f("np"), f("mp"), f("rp")), &[]));
                    lines.push(with_faults("add count=1 np=8020 mp=- rp=- metrics=0 ver=1", &[]));
                }
            }
        }
    }
    if std::env::var("C19_GEN_STATS").is_ok() { eprintln!("gen: after port clashes {}", lines.len()); }
    // whole antctl invocations (`cmd ..`: load, partial refresh, selection, operation, save as the source has them) from
    // an added and from a running base, mixed with what makes the file and the refresh matter: bare starts (whose faults
    // leave unrecorded live processes), outside events, daemon restarts; all op sequences of length <= 2, every
    // single-fault placement of both kinds (for 2 services a seeded third)
    for nsvc in 1..=2usize {
        for running in [false, true] {
            let mut alpha: Vec<String> = vec![];
            for i in 0..nsvc {
                alpha.push(format!("cmd start {i} ct=0"));
                alpha.push(format!("cmd stop {i}"));
                alpha.push(format!("cmd remove {i} keep=0"));
                alpha.push(format!("cmd remove {i} keep=1"));
                alpha.push(format!("cmd upgrade {i} force=0 start=1 ver=2 ct=0"));
                alpha.push(format!("start {i} ct=0"));
                alpha.push(format!("kill {i}"));
                if running {
                    alpha.push(format!("restart-outside {i}"));
                    alpha.push(format!("reload|drestart {i} retain=1"));
                }
            }
            alpha.push("cmd refresh-full fail=0".into());
            alpha.push("cmd add count=1 np=- mp=- rp=- metrics=0 ver=1".into());
            let mut prefix = vec![format!("cmd add count={nsvc} np=- mp=- rp=- metrics=0 ver=1")];
            if running {
                for i in 0..nsvc {
                    prefix.push(format!("cmd start {i} ct=0"));
                }
            }
            let mut seqs: Vec<Vec<String>> = vec![vec![]];
            for _ in 0..2 {
                let mut next = vec![];
                for s in &seqs {
                    for a in &alpha {
                        let mut t = s.clone();
                        t.push(a.clone());
                        next.push(t);
                    }
                }
                for s in &next {
                    let mut base = prefix.clone();
                    base.extend(s.iter().cloned());
                    if nsvc == 1 || s.len() < 2 || rng.chance(1, if thorough { 1 } else { 8 }) {
                        expand(&base, &mut rng, 0, &mut lines, 64, if thorough || nsvc == 1 { 2 } else { 1 });
                    } else {
                        lines.push("reset".into());
                        lines.extend(base.iter().flat_map(|e| e.split('|')).map(|l| with_faults(l, &[])));
                    }
                }
                seqs = next;
            }
        }
    }
    if std::env::var("C19_GEN_STATS").is_ok() { eprintln!("gen: after command family {}", lines.len()); }
    // the same from a RUNNING base: prefix add + start of every service, then all op sequences up to depth 2 with all
    // single-fault placements (a stop/remove/upgrade of a running service whose process died needs start; kill; <op>)
    for nsvc in 1..=2usize {
        let alpha = alphabet(nsvc, false, true);
        let mut prefix = vec![format!("add count={nsvc} np=- mp=- rp=- metrics=0 ver=1")];
        for i in 0..nsvc {
            prefix.push(format!("start {i} ct=0"));
        }
        let mut seqs: Vec<Vec<String>> = vec![vec![]];
        for _ in 0..2 {
            let mut next = vec![];
            for s in &seqs {
                for a in &alpha {
                    let mut t = s.clone();
                    t.push(a.clone());
                    next.push(t);
                }
            }
            for s in &next {
                let mut base = prefix.clone();
                base.extend(s.iter().cloned());
                if nsvc == 1 || s.len() < 2 || rng.chance(1, if thorough { 3 } else { 8 }) {
                    expand(&base, &mut rng, 0, &mut lines, 64, if thorough || (nsvc == 1 && s.len() < 2) { 2 } else { 1 });
                } else {
                    lines.push("reset".into());
                    lines.extend(base.iter().flat_map(|e| e.split('|')).map(|l| with_faults(l, &[])));
                }
            }
            seqs = next;
        }
    }
    if std::env::var("C19_GEN_STATS").is_ok() { eprintln!("gen: after running-base family {}", lines.len()); }
    // seeded sample: n base histories of 3 (quick) / up to 5 (thorough) ops after the add prefix, 1-3 services,
    // option combinations, all single-fault placements (capped) and a few two-fault placements
    for _ in 0..n {
        let nsvc = rng.range(1, if thorough { 3 } else { 2 }) as usize;
        let len = if thorough { rng.range(3, 5) } else { 3 };
        let mut base = vec![];
        if rng.chance(1, 2) {
            base.push(format!("add count={nsvc} np=- mp=- rp=- metrics={} ver={}", rng.below(2), rng.below(3)));
        } else {
            base.push(random_add(&mut rng));
        }
        let rich = alphabet(nsvc, true, true);
        for _ in 0..len {
            if rng.chance(1, 2) {
                base.push(rng.pick(&rich).clone());
            } else {
                base.push(random_op(&mut rng, nsvc));
            }
        }
        let pairs = if thorough { 6 } else { 1 };
        expand(&base, &mut rng, pairs, &mut lines, if thorough { 40 } else { 6 }, if thorough { 2 } else { 1 });
    }
    lines
}

fn main() {
    let args = &common::parse_args();
    let mut out = Out::new(&args.out);
    std::panic::set_hook(Box::new(|_| {}));
    // add_node needs these (dirs_next::data_dir, whoami)
    let home = std::env::temp_dir().join("verif-hmgr-home");
    let _ = std::fs::create_dir_all(&home);
    std::env::set_var("HOME", &home);
    std::env::set_var("USER", "verif");
    let lines: Vec<String> = if let Some(p) = &args.replay { common::read_lines(p) } else { generate(args.seed, args.n) };
    let mut r = Runner::new();
    let mut hist_text = String::new();
    for l in &lines {
        let (o, _) = r.run_line(l, Some(&mut out));
        if l == "reset" {
            if !hist_text.is_empty() {
                out.nontrivial_case(&hist_text);
            }
            hist_text.clear();
        } else {
            hist_text.push_str(l);
            hist_text.push(';');
        }
        out.line(l.clone(), o);
    }
    if !hist_text.is_empty() {
        out.nontrivial_case(&hist_text);
    }
    out.notes.push("clauses stop-remove-leave-nothing and removed-stays-removed are evaluated only when the service had no unrecorded live process at entry (known finding K-s-orphan)".into());
    out.finish();
}
