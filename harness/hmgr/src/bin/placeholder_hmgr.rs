fn main() {
    println!("placeholder: real binaries live in src/bin/");
}
