//! C20 component `upgrade`: for generated option records, the REAL install-time `ServiceInstallCtx`
//! (captured from `add_node` → `InstallNodeServiceCtxBuilder::build` by a simulated service manager)
//! and the REAL upgrade-time one (`NodeService::build_upgrade_install_context` on the registry entry
//! `add_node` recorded, after an optional real `on_start` refresh), printed canonically.
//! Correspondence: the Lean driver prints the same line from the generated tables.
//! Oracle (model-independent): the two definitions are the same multiset of options, same subcommand,
//! same program / user / autostart / label / environment, except where the upgrade explicitly changes
//! something (`--env` given to upgrade; the port the running node reported).
//! An op is ONE `add` (of `@count` services, optionally with an injected fault `@fail=install:K|port:K`:
//! the K-th install is refused / the K-th port lookup fails) followed by the upgrade of every service that
//! did get installed, starting — as `antctl upgrade` does — from the registry file the add left behind.
//! Line protocol: `cfg k=v …` (see lean/SafeNet/Driver/Upgrade.lean).
#[path = "upgrade/real.rs"]
mod real;

use common::{Out, Rng};
use real::*;
use std::collections::BTreeMap;
use std::panic::{catch_unwind, AssertUnwindSafe};
use std::path::PathBuf;

const SUBCOMMANDS: &[&str] = &["evm-arbitrum-one", "evm-arbitrum-sepolia", "evm-custom"];

/// argv → (sorted option groups before the subcommand word, subcommand word, sorted groups after it)
fn groups(args: &[String]) -> (Vec<String>, String, Vec<String>) {
    let cut = args.iter().position(|a| SUBCOMMANDS.contains(&a.as_str())).unwrap_or(args.len());
    let grp = |xs: &[String]| -> Vec<String> {
        let mut out: Vec<String> = vec![];
        for a in xs {
            if a.starts_with("--") || out.is_empty() {
                out.push(a.clone());
            } else {
                let l = out.len() - 1;
                out[l] = format!("{} {}", out[l], a);
            }
        }
        out.sort();
        out
    };
    let sub = args.get(cut).cloned().unwrap_or_default();
    let post = if cut < args.len() { grp(&args[cut + 1..]) } else { vec![] };
    (grp(&args[..cut]), sub, post)
}

fn oracle(rec: &Rec, b: &Built, line: &str, out: &mut Out) {
    let (mut ipre, isub, ipost) = groups(&argv(&b.install));
    let (mut upre, usub, upost) = groups(&argv(&b.upgrade));
    if let Some(p) = rec.some("@listen") {
        // explicit change: the upgrade pins the port the running node reported
        if !upre.contains(&format!("--port {p}")) {
            out.oracle_fail("upgrade-pins-listen-port", line, &format!("node listened on {p}; upgrade arguments: {upre:?}"));
        }
        ipre.retain(|g| !g.starts_with("--port "));
        upre.retain(|g| !g.starts_with("--port "));
    }
    if ipre != upre || isub != usub || ipost != upost {
        let lost: Vec<&String> = ipre.iter().chain(ipost.iter()).filter(|g| !upre.contains(g) && !upost.contains(g)).collect();
        let added: Vec<&String> = upre.iter().chain(upost.iter()).filter(|g| !ipre.contains(g) && !ipost.contains(g)).collect();
        out.oracle_fail("upgrade-args-equiv", line, &format!("upgrade drops {lost:?} and adds {added:?} (subcommand {isub} -> {usub})"));
    }
    if b.install.autostart != b.upgrade.autostart {
        out.oracle_fail("upgrade-keeps-autostart", line, &format!("autostart {} at install, {} after upgrade", b.install.autostart, b.upgrade.autostart));
    }
    if b.install.program != b.upgrade.program {
        out.oracle_fail("upgrade-keeps-program", line, &format!("{:?} vs {:?}", b.install.program, b.upgrade.program));
    }
    if b.install.username != b.upgrade.username {
        out.oracle_fail("upgrade-keeps-user", line, &format!("{:?} vs {:?}", b.install.username, b.upgrade.username));
    }
    if b.install.label != b.upgrade.label {
        out.oracle_fail("upgrade-keeps-label", line, &format!("{} vs {}", b.install.label, b.upgrade.label));
    }
    if b.install.contents != b.upgrade.contents || b.install.working_directory != b.upgrade.working_directory {
        out.oracle_fail("upgrade-keeps-definition", line, "contents / working_directory differ");
    }
    if b.install_user_mode != b.data.user_mode {
        out.oracle_fail("upgrade-keeps-user-mode", line, "user_mode recorded differs from the one installed with");
    }
    match (rec.some("@provided"), rec.some("@prev"), rec.some("options.env_variables")) {
        (Some(p), _, _) => {
            if env_show(&b.upgrade.environment) != p {
                out.oracle_fail("upgrade-env-override", line, &format!("--env {p} given to upgrade, service gets {}", env_show(&b.upgrade.environment)));
            }
        }
        (None, Some(_), None) => out.count("env:registry-wide-inherited(not judged)"),
        (None, _, _) => {
            if b.install.environment != b.upgrade.environment {
                out.oracle_fail("upgrade-keeps-environment", line, &format!("service {} ({}): environment {} at install, {} after upgrade", b.index, b.install.label, env_show(&b.install.environment), env_show(&b.upgrade.environment)));
            }
        }
    }
}

fn main() {
    let args = common::parse_args();
    std::panic::set_hook(Box::new(|_| {}));
    let mut out = Out::new(&args.out);
    let mut rng = Rng::new(args.seed);
    let rt = tokio::runtime::Builder::new_current_thread().enable_all().build().expect("rt");
    let home = args.out.join("home");
    std::fs::create_dir_all(&home).expect("home");
    std::env::set_var("HOME", &home);
    std::env::set_var("USER", "root");
    let root: PathBuf = args.out.join("fs");
    let rule = upgrade_autostart_rule();
    out.notes.push(format!("UpgradeOptions.auto_restart in cmd/node.rs = `{rule}`"));

    let mut lines: Vec<String> = vec![];
    let mut cov: BTreeMap<(usize, usize, bool, bool), u64> = BTreeMap::new();
    if let Some(p) = &args.replay {
        lines = common::read_lines(p).into_iter().filter(|l| l.starts_with("cfg ")).collect();
    } else {
        let mut pats: Vec<(u64, u64)> = vec![];
        // corpus: the F-t witness first (autostart on, nothing else), then all-off, all-on, each option alone, each option alone off
        pats.push((1, 0));
        pats.push((0, 0));
        // minimal partially failing add: two services with --env, the second install is refused
        {
            let mut rec = gen_record_with(1, 0, &mut rng, Some((2, Some(("install", 2)))));
            rec.set_some("options.env_variables", "A=1");
            rec.0.retain(|(k, _)| k != "@provided" && k != "@prev" && k != "@nat");
            lines.push(rec.line("cfg"));
            let mut rec = gen_record_with(1 << 15, 0, &mut rng, None);
            rec.set_some("options.owner", "Ünal_Çelik");
            rec.set("@case", case_table("Ünal_Çelik").unwrap());
            lines.push(rec.line("cfg"));
        }
        let all = (1u64 << N_BITS) - 1;
        for e in 0..3 {
            pats.push((all & !(1 << 3), e)); // everything except --first (add_node refuses nothing here, antnode would)
        }
        for i in 0..N_BITS {
            pats.push((1 << i, (i % 3) as u64));
            pats.push((all & !(1 << i), ((i + 1) % 3) as u64));
        }
        while (pats.len() as u64) < args.n {
            pats.push((rng.next() & all, rng.below(3)));
        }
        pats.truncate(args.n.max(1) as usize);
        for (bits, evm) in pats {
            for i in 0..N_BITS {
                for j in (i + 1)..N_BITS {
                    *cov.entry((i, j, bits >> i & 1 == 1, bits >> j & 1 == 1)).or_insert(0) += 1;
                }
            }
            // one add in six installs several services and meets a fault part-way
            let multi = if rng.chance(1, 6) {
                let count = rng.range(2, 3);
                let fault = match rng.below(4) {
                    0 => None,
                    1 => Some(("port", rng.range(1, count))),
                    _ => Some(("install", rng.range(1, count))),
                };
                Some((count, fault))
            } else {
                None
            };
            let rec = gen_record_with(bits, evm, &mut rng, multi);
            lines.push(rec.line("cfg"));
        }
        let (c, t) = pairwise(&cov);
        out.notes.push(format!("pairwise presence coverage: {c}/{t} (option i on/off x option j on/off)"));
        out.count_n("pairwise-covered", c as u64);
        out.count_n("pairwise-total", t as u64);
    }

    for line in lines {
        let ws: Vec<&str> = line.split_whitespace().collect();
        let Some(rec) = Rec::parse(&ws[1..]) else {
            out.line(line.clone(), "bad-op");
            continue;
        };
        let r = catch_unwind(AssertUnwindSafe(|| build_real(&rec, &root, &rt, &rule)));
        match r {
            Err(_) => {
                out.line(line.clone(), "panic");
                out.oracle_fail("no-panic", &line, "add_node / build_upgrade_install_context panicked");
            }
            Ok(Err(e)) => {
                out.count("exec-error");
                out.line(line.clone(), format!("error {}", e.replace('\n', " ")));
                out.oracle_fail("builds", &line, &format!("the real code refused the record: {e}"));
            }
            Ok(Ok(bs)) => {
                let shown: Vec<String> = bs.iter().map(|b| format!("S{} I: {} || U: {}", b.index, show_ctx(&b.install, &root), show_ctx(&b.upgrade, &root))).collect();
                out.line(line.clone(), if shown.is_empty() { "none".to_string() } else { shown.join(" ;; ") });
                let n_opts = rec.0.iter().filter(|(k, v)| !k.starts_with('@') && !k.contains('#') && (v == "T" || v.starts_with("s:") || (v.starts_with("l:") && v.len() > 2))).count();
                out.count(&format!("evm:{}", rec.get("options.evm_network").unwrap_or("?")));
                out.count(&format!("options-on:{:02}-{:02}", n_opts / 5 * 5, n_opts / 5 * 5 + 4));
                for k in ["@provided", "@prev", "@listen", "@nat", "@metrics_via_server", "@case", "@count"] {
                    if rec.get(k).is_some() {
                        out.count(&format!("circumstance:{k}"));
                    }
                }
                if let Some(f) = rec.some("@fail") {
                    out.count(&format!("fault:{}", f.split(':').next().unwrap_or("?")));
                    out.count(&format!("fault:services-surviving={}", bs.len()));
                }
                if let Some(o) = rec.some("options.owner") {
                    let class = if o.len() > 100 { "long" } else if o.chars().any(|c| !c.is_ascii() && c.is_uppercase()) { "non-ascii-capital" } else if !o.is_ascii() { "non-ascii" } else if o.chars().any(|c| c.is_ascii_uppercase()) { "ascii-capital" } else { "plain" };
                    out.count(&format!("owner:{class}"));
                }
                // non-trivial: distinct presence pattern + circumstances (values abstracted)
                let pat: String = rec.0.iter().filter(|(k, _)| !k.contains('#')).map(|(k, v)| format!("{k}={}", if k == "@fail" || k == "@count" { v.as_str() } else if v.starts_with("s:") { "s" } else if v.starts_with("l:") && v.len() > 2 { "l" } else { v })).collect::<Vec<_>>().join(" ");
                out.nontrivial_case(&pat);
                for b in &bs {
                    oracle(&rec, b, &line, &mut out);
                }
            }
        }
    }
    let _ = std::fs::remove_dir_all(&root);
    out.finish();
}
