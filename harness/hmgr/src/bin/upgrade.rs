//! C20 component `upgrade`: for generated option records, the REAL install-time `ServiceInstallCtx`
//! (captured from `add_node` → `InstallNodeServiceCtxBuilder::build` by a simulated service manager)
//! and the REAL upgrade-time one (`NodeService::build_upgrade_install_context` on the registry entry
//! `add_node` recorded, after an optional real `on_start` refresh), printed canonically.
//! Correspondence: the Lean driver prints the same line from the generated tables.
//! Oracle (model-independent): the two definitions are the same multiset of options, same subcommand,
//! same program / user / autostart / label / environment, except where the upgrade explicitly changes
//! something (`--env` given to upgrade; the port the running node reported).
//! An op is ONE `add` (of `@count` services, optionally with an injected fault `@fail=install:K|port:K`:
//! the K-th install is refused / the K-th port lookup fails) followed by the upgrade of every service that
//! did get installed, starting — as `antctl upgrade` does — from the registry file the add left behind.
//! Line protocol: `cfg k=v …` (see lean/SafeNet/Driver/Upgrade.lean).
#[path = "upgrade/real.rs"]
mod real;

use common::{Out, Rng};
use real::*;
use std::collections::BTreeMap;
use std::panic::{catch_unwind, AssertUnwindSafe};
use std::path::PathBuf;

const SUBCOMMANDS: &[&str] = &["evm-arbitrum-one", "evm-arbitrum-sepolia", "evm-custom"];

/// argv → (sorted option groups before the subcommand word, subcommand word, sorted groups after it)
fn groups(args: &[String]) -> (Vec<String>, String, Vec<String>) {
    let cut = args.iter().position(|a| SUBCOMMANDS.contains(&a.as_str())).unwrap_or(args.len());
    let grp = |xs: &[String]| -> Vec<String> {
        let mut out: Vec<String> = vec![];
        for a in xs {
            if a.starts_with("--") || out.is_empty() {
                out.push(a.clone());
            } else {
                let l = out.len() - 1;
                out[l] = format!("{} {}", out[l], a);
            }
        }
        out.sort();
        out
    };
    let sub = args.get(cut).cloned().unwrap_or_default();
    let post = if cut < args.len() { grp(&args[cut + 1..]) } else { vec![] };
    (grp(&args[..cut]), sub, post)
}

fn oracle(rec: &Rec, b: &Built, line: &str, out: &mut Out, root: &std::path::Path, scratch: &std::path::Path) {
    let (mut ipre, isub, ipost) = groups(&argv(&b.install));
    let (mut upre, usub, upost) = groups(&argv(&b.upgrade));
    if let Some(p) = rec.some("@listen") {
        // explicit change: the upgrade pins the port the running node reported
        if !upre.contains(&format!("--port {p}")) {
            out.oracle_fail("upgrade-pins-listen-port", line, &format!("node listened on {p}; upgrade arguments: {upre:?}"));
        }
        ipre.retain(|g| !g.starts_with("--port "));
        upre.retain(|g| !g.starts_with("--port "));
    }
    if ipre != upre || isub != usub || ipost != upost {
        let lost: Vec<&String> = ipre.iter().chain(ipost.iter()).filter(|g| !upre.contains(g) && !upost.contains(g)).collect();
        let added: Vec<&String> = upre.iter().chain(upost.iter()).filter(|g| !ipre.contains(g) && !ipost.contains(g)).collect();
        out.oracle_fail("upgrade-args-equiv", line, &format!("upgrade drops {lost:?} and adds {added:?} (subcommand {isub} -> {usub})"));
    }
    if b.install.autostart != b.upgrade.autostart {
        out.oracle_fail("upgrade-keeps-autostart", line, &format!("autostart {} at install, {} after upgrade", b.install.autostart, b.upgrade.autostart));
    }
    if b.install.program != b.upgrade.program {
        out.oracle_fail("upgrade-keeps-program", line, &format!("{:?} vs {:?}", b.install.program, b.upgrade.program));
    }
    if b.install.username != b.upgrade.username {
        out.oracle_fail("upgrade-keeps-user", line, &format!("{:?} vs {:?}", b.install.username, b.upgrade.username));
    }
    if b.install.label != b.upgrade.label {
        out.oracle_fail("upgrade-keeps-label", line, &format!("{} vs {}", b.install.label, b.upgrade.label));
    }
    if b.install.contents != b.upgrade.contents || b.install.working_directory != b.upgrade.working_directory {
        out.oracle_fail("upgrade-keeps-definition", line, "contents / working_directory differ");
    }
    if b.install_user_mode != b.data.user_mode {
        out.oracle_fail("upgrade-keeps-user-mode", line, "user_mode recorded differs from the one installed with");
    }
    if b.upgrade_levels != (b.install_user_mode, b.install_user_mode) {
        out.oracle_fail(
            "upgrade-keeps-service-level",
            line,
            &format!("installed at {} level; ServiceManager::upgrade uninstalls at {} level and installs at {} level", level(b.install_user_mode), level(b.upgrade_levels.0), level(b.upgrade_levels.1)),
        );
    }
    if let Some(given) = rec.some("@cli_cache") {
        let want = format!("--bootstrap-cache-dir {}", given.replace("$R", &root.to_string_lossy()));
        if !ipre.contains(&want) {
            out.oracle_fail("user-bootstrap-cache-dir-is-written", line, &format!("`antctl add --bootstrap-cache-dir {given}` was accepted, the installed definition has {:?}", ipre.iter().filter(|g| g.starts_with("--bootstrap-cache-dir")).collect::<Vec<_>>()));
        }
        out.count("circumstance:@cli_cache");
    }
    // the unit file: whatever is unit-safe must be read back by systemd's rules exactly as written
    for (which, ctx) in [("install", &b.install), ("upgrade", &b.upgrade)] {
        match render_systemd_unit(ctx, scratch) {
            Err(e) => out.oracle_fail("unit-renders", line, &e),
            Ok(unit) => {
                let value = unit_exec_line(&unit).and_then(|l| l.strip_prefix("ExecStart=")).unwrap_or("");
                let mut want = vec![ctx.program.to_string_lossy().to_string()];
                want.extend(argv(ctx));
                if unit_safe(ctx) {
                    out.count("unit:safe");
                    if systemd_split(value) != Some(want) {
                        out.oracle_fail(&format!("{which}-unit-read-back-as-written"), line, &format!("ExecStart={value} is not read back as the program and the {} argument strings", ctx.args.len()));
                    }
                } else {
                    out.count("unit:not-unit-safe(K-t-unit-unquoted, not judged)");
                }
                let envs = ctx.environment.clone().unwrap_or_default();
                if envs.iter().all(|(k, v)| !format!("{k}{v}").chars().any(|c| "\"\\%$\n\r".contains(c))) {
                    let got: Vec<Option<Vec<String>>> = unit_env_lines(&unit).iter().map(|l| systemd_split(l.strip_prefix("Environment=").unwrap_or(""))).collect();
                    let want: Vec<Option<Vec<String>>> = envs.iter().map(|(k, v)| Some(vec![format!("{k}={v}")])).collect();
                    if got != want {
                        out.oracle_fail(&format!("{which}-unit-environment-read-back"), line, &format!("Environment lines {:?} are not read back as {:?}", unit_env_lines(&unit), envs));
                    }
                }
            }
        }
    }
    if let Some(r) = &b.restart {
        out.count(&format!("drestart:{}:{}", r.kind, r.result));
        if let Some((rctx, il)) = &r.install {
            let (rpre, rsub, rpost) = groups(&argv(rctx));
            let (upre2, usub2, upost2) = groups(&argv(&b.upgrade));
            if r.kind == "retain" {
                if rpre != upre2 || rsub != usub2 || rpost != upost2 {
                    let lost: Vec<&String> = upre2.iter().chain(upost2.iter()).filter(|g| !rpre.contains(g) && !rpost.contains(g)).collect();
                    let added: Vec<&String> = rpre.iter().chain(rpost.iter()).filter(|g| !upre2.contains(g) && !upost2.contains(g)).collect();
                    out.oracle_fail("restart-args-equiv", line, &format!("the daemon's restart (peer id retained) regenerates the definition without {lost:?} and with {added:?}; an upgrade of the same registry entry writes them"));
                }
                if rctx.autostart != b.upgrade.autostart || rctx.program != b.upgrade.program || rctx.username != b.upgrade.username || rctx.label != b.upgrade.label {
                    out.oracle_fail("restart-settings-equiv", line, "autostart / program / user / label differ between the restarted and the upgraded definition");
                }
                if rec.some("@provided").is_none() && rctx.environment != b.upgrade.environment {
                    out.oracle_fail("restart-settings-equiv", line, &format!("environment {} after restart, {} after upgrade", env_show(&rctx.environment), env_show(&b.upgrade.environment)));
                }
                if *il != b.install_user_mode || r.uninstall_level != Some(b.install_user_mode) {
                    out.oracle_fail(
                        "restart-keeps-service-level",
                        line,
                        &format!("installed at {} level; the daemon's restart uninstalls at {:?} and installs at {} level", level(b.install_user_mode), r.uninstall_level.map(level), level(*il)),
                    );
                }
            } else {
                let changed = ["--root-dir ", "--log-output-dest ", "--port ", "--metrics-server-port "];
                let keep = |v: &Vec<String>| -> Vec<String> { v.iter().filter(|g| !changed.iter().any(|c| g.starts_with(c))).cloned().collect() };
                if keep(&rpre) != keep(&upre2) || rsub != usub2 || rpost != upost2 {
                    out.oracle_fail("restart-replacement-args-equiv", line, &format!("the replacement service is launched with {:?}, the service it replaces with {:?}", keep(&rpre), keep(&upre2)));
                }
                if let Some((nd, uctx, levels)) = &r.replacement {
                    let (a, s1, c) = groups(&argv(uctx));
                    if a != rpre || s1 != rsub || c != rpost || uctx.program != rctx.program || uctx.username != rctx.username || uctx.autostart != rctx.autostart || uctx.label != rctx.label {
                        out.oracle_fail("replacement-upgrade-args-equiv", line, "the replacement's first upgrade regenerates a different definition than the daemon installed");
                    }
                    if *levels != (*il, *il) || nd.user_mode != *il {
                        out.oracle_fail("replacement-keeps-service-level", line, "replacement installed / recorded / upgraded at different levels");
                    }
                    // the fifth install call: the level of the service being replaced. `antctl add` sets a service user
                    // only at system level and the replacement needs one, so a user-level original is not an antctl input
                    if b.install_user_mode {
                        out.count(&format!("drestart:replace:user-level-original-with-service-user(not an antctl input, not judged):installed-at-{}", level(*il)));
                    } else if *il {
                        out.oracle_fail("replacement-keeps-service-level", line, "a system-level service is replaced by one installed at user level");
                    }
                }
            }
        }
    }
    match (rec.some("@provided"), rec.some("@later"), rec.some("@prev"), rec.some("options.env_variables")) {
        (None, Some(_), _, _) => out.count("env:later-add-rewrites-registry-wide(K-t-env-later-add, not judged)"),
        _ => {}
    }
    match (rec.some("@provided"), rec.some("@prev"), rec.some("options.env_variables")) {
        _ if rec.some("@provided").is_none() && rec.some("@later").is_some() => {}
        (Some(p), _, _) => {
            if env_show(&b.upgrade.environment) != p {
                out.oracle_fail("upgrade-env-override", line, &format!("--env {p} given to upgrade, service gets {}", env_show(&b.upgrade.environment)));
            }
        }
        (None, Some(_), None) => out.count("env:registry-wide-inherited(not judged)"),
        (None, _, _) => {
            if b.install.environment != b.upgrade.environment {
                out.oracle_fail("upgrade-keeps-environment", line, &format!("service {} ({}): environment {} at install, {} after upgrade", b.index, b.install.label, env_show(&b.install.environment), env_show(&b.upgrade.environment)));
            }
        }
    }
}

fn main() {
    let args = common::parse_args();
    std::panic::set_hook(Box::new(|_| {}));
    let mut out = Out::new(&args.out);
    let mut rng = Rng::new(args.seed);
    let rt = tokio::runtime::Builder::new_current_thread().enable_all().build().expect("rt");
    let root: PathBuf = args.out.join("fs");
    // HOME inside the scratch root: the user-mode default directories are `$R/home/.local/share/autonomi/node/..`
    std::env::set_var("HOME", root.join("home"));
    std::env::remove_var("XDG_DATA_HOME");
    std::env::set_var("USER", "root");
    let scratch: PathBuf = args.out.join("scratch");
    if root.to_string_lossy().chars().any(|c| !(c.is_ascii_alphanumeric() || "/-_.".contains(c))) {
        eprintln!("harness infrastructure failure: the scratch root {root:?} must consist of plain characters");
        std::process::exit(3);
    }
    out.notes.push(format!("cmd::node::add bootstrap_cache_dir rule = `{}`", cli_cache_rule()));
    let rule = upgrade_autostart_rule();
    out.notes.push(format!("UpgradeOptions.auto_restart in cmd/node.rs = `{rule}`"));

    let mut lines: Vec<String> = vec![];
    let mut cov: BTreeMap<(usize, usize, bool, bool), u64> = BTreeMap::new();
    if let Some(p) = &args.replay {
        lines = common::read_lines(p).into_iter().filter(|l| l.starts_with("cfg ")).collect();
    } else {
        let mut pats: Vec<(u64, u64)> = vec![];
        // corpus: the F-t witness first (autostart on, nothing else), then all-off, all-on, each option alone, each option alone off
        pats.push((1, 0));
        pats.push((0, 0));
        // minimal partially failing add: two services with --env, the second install is refused
        {
            let mut rec = gen_record_with(1, 0, &mut rng, Some((2, Some(("install", 2)))));
            rec.set_some("options.env_variables", "A=1");
            rec.0.retain(|(k, _)| k != "@provided" && k != "@prev" && k != "@nat");
            lines.push(rec.line("cfg"));
            let mut rec = gen_record_with(1 << 15, 0, &mut rng, None);
            rec.set_some("options.owner", "Ünal_Çelik");
            rec.set("@case", case_table("Ünal_Çelik").unwrap());
            lines.push(rec.line("cfg"));
        }
        // audit round 6: the histories of C20-2 / C20-3 / C20-4 / C20-5
        {
            let plain = |rec: &mut Rec| rec.0.retain(|(k, _)| !(k.starts_with('@') && k != "@rpc_default_ip" && k != "@case") && !k.starts_with("~."));
            // user-mode add --metrics-port .. --owner bob; started; the daemon restarts it with the peer id retained
            let mut rec = gen_record_with((1 << 7) | (1 << 14) | (1 << 15), 0, &mut rng, None);
            plain(&mut rec);
            rec.set_some("options.owner", "bob");
            rec.set_some("metrics_free_port", "13001");
            rec.set("@listen", "s:4242");
            rec.set("@drestart", "s:retain");
            lines.push(rec.line("cfg"));
            // user-mode add --bootstrap-cache-dir given on antctl's command line (no service user, no default)
            let mut rec = gen_record_with(1 << 7, 1, &mut rng, None);
            plain(&mut rec);
            rec.set_some("@cli_cache", "$R/my-cache");
            lines.push(rec.line("cfg"));
            // root add with a service user: the default directory must not displace the one given
            let mut rec = gen_record_with((1 << 9) | (1 << 18), 0, &mut rng, None);
            plain(&mut rec);
            rec.set_some("@cli_cache", "$R/srv/bootstrap");
            lines.push(rec.line("cfg"));
        }
        let all = (1u64 << N_BITS) - 1;
        for e in 0..3 {
            pats.push((all & !(1 << 3), e)); // everything except --first (add_node refuses nothing here, antnode would)
        }
        for i in 0..N_BITS {
            pats.push((1 << i, (i % 3) as u64));
            pats.push((all & !(1 << i), ((i + 1) % 3) as u64));
        }
        while (pats.len() as u64) < args.n {
            pats.push((rng.next() & all, rng.below(3)));
        }
        pats.truncate(args.n.max(1) as usize);
        for (bits, evm) in pats {
            for i in 0..N_BITS {
                for j in (i + 1)..N_BITS {
                    *cov.entry((i, j, bits >> i & 1 == 1, bits >> j & 1 == 1)).or_insert(0) += 1;
                }
            }
            // one add in six installs several services and meets a fault part-way
            let multi = if rng.chance(1, 6) {
                let count = rng.range(2, 3);
                let fault = match rng.below(4) {
                    0 => None,
                    1 => Some(("port", rng.range(1, count))),
                    _ => Some(("install", rng.range(1, count))),
                };
                Some((count, fault))
            } else {
                None
            };
            let rec = gen_record_with(bits, evm, &mut rng, multi);
            lines.push(rec.line("cfg"));
        }
        let (c, t) = pairwise(&cov);
        out.notes.push(format!("pairwise presence coverage: {c}/{t} (option i on/off x option j on/off)"));
        out.count_n("pairwise-covered", c as u64);
        out.count_n("pairwise-total", t as u64);
    }

    for line in lines {
        let ws: Vec<&str> = line.split_whitespace().collect();
        let Some(rec) = Rec::parse(&ws[1..]) else {
            out.line(line.clone(), "bad-op");
            continue;
        };
        let r = catch_unwind(AssertUnwindSafe(|| build_real(&rec, &root, &rt, &rule)));
        match r {
            Err(_) => {
                out.line(line.clone(), "panic");
                out.oracle_fail("no-panic", &line, "add_node / build_upgrade_install_context panicked");
            }
            Ok(Err(e)) => {
                out.count("exec-error");
                out.line(line.clone(), format!("error {}", e.replace('\n', " ")));
                out.oracle_fail("builds", &line, &format!("the real code refused the record: {e}"));
            }
            Ok(Ok(bs)) => {
                let shown: Vec<String> = bs
                    .iter()
                    .map(|b| {
                        let mut s = format!(
                            "S{} I: {} level={} || U: {} levels={}/{}",
                            b.index,
                            show_ctx(&b.install, &root),
                            level(b.install_user_mode),
                            show_ctx(&b.upgrade, &root),
                            level(b.upgrade_levels.0),
                            level(b.upgrade_levels.1)
                        );
                        if let Some(r) = &b.restart {
                            match &r.install {
                                None => s.push_str(&format!(" || R: {}", r.result)),
                                Some((ctx, il)) => {
                                    s.push_str(&format!(" || R: {} levels={}/{}", show_ctx(ctx, &root), r.uninstall_level.map(level).unwrap_or("-"), level(*il)));
                                    if let Some((_, uctx, lv)) = &r.replacement {
                                        s.push_str(&format!(" || RU: {} levels={}/{}", show_ctx(uctx, &root), level(lv.0), level(lv.1)));
                                    }
                                }
                            }
                        }
                        s.push_str(&format!(" || {}", show_unit(&b.install, &root, &scratch)));
                        s
                    })
                    .collect();
                out.line(line.clone(), if shown.is_empty() { "none".to_string() } else { shown.join(" ;; ") });
                let n_opts = rec.0.iter().filter(|(k, v)| !k.starts_with('@') && !k.contains('#') && (v == "T" || v.starts_with("s:") || (v.starts_with("l:") && v.len() > 2))).count();
                out.count(&format!("evm:{}", rec.get("options.evm_network").unwrap_or("?")));
                out.count(&format!("options-on:{:02}-{:02}", n_opts / 5 * 5, n_opts / 5 * 5 + 4));
                for k in ["@provided", "@prev", "@listen", "@nat", "@metrics_via_server", "@case", "@count", "@later", "@drestart"] {
                    if rec.get(k).is_some() {
                        out.count(&format!("circumstance:{k}"));
                    }
                }
                if let Some(f) = rec.some("@fail") {
                    out.count(&format!("fault:{}", f.split(':').next().unwrap_or("?")));
                    out.count(&format!("fault:services-surviving={}", bs.len()));
                }
                if let Some(o) = rec.some("options.owner") {
                    let class = if o.len() > 100 { "long" } else if o.chars().any(|c| !c.is_ascii() && c.is_uppercase()) { "non-ascii-capital" } else if !o.is_ascii() { "non-ascii" } else if o.chars().any(|c| c.is_ascii_uppercase()) { "ascii-capital" } else { "plain" };
                    out.count(&format!("owner:{class}"));
                }
                // non-trivial: distinct presence pattern + circumstances (values abstracted)
                let pat: String = rec.0.iter().filter(|(k, _)| !k.contains('#')).map(|(k, v)| format!("{k}={}", if k == "@fail" || k == "@count" { v.as_str() } else if v.starts_with("s:") { "s" } else if v.starts_with("l:") && v.len() > 2 { "l" } else { v })).collect::<Vec<_>>().join(" ");
                out.nontrivial_case(&pat);
                for b in &bs {
                    oracle(&rec, b, &line, &mut out, &root, &scratch);
                }
            }
        }
    }
    let _ = std::fs::remove_dir_all(&root);
    let _ = std::fs::remove_dir_all(&scratch);
    out.finish();
}
