//! The codec of network messages -> Gen/WireCodec.lean (C12).
//!  * which request-response codec `ant-networking/src/driver.rs` instantiates for `Request`/`Response`
//!    (`request_response::cbor::Behaviour<Request, Response>` today);
//!  * the serde data-model kind the hand-written `impl Serialize for PrettyPrintRecordKey` WRITES (a sequence of `u8`,
//!    because it calls `<[u8]>::serialize`, or a byte string if it called `serialize_bytes`) and the kind its
//!    `impl Deserialize` READS (`Vec::<u8>::deserialize` = a sequence).  MessagePack readers take either for the other,
//!    the CBOR reader does not: the two must agree, which is a theorem over these generated constants.
//!  * the codec's read limits (`REQUEST_SIZE_MAXIMUM` / `RESPONSE_SIZE_MAXIMUM` of the libp2p-request-response version locked in
//!    Cargo.lock, read from the cargo registry's copy of its source; checked there: the readers `io.take(..)` exactly these,
//!    the writers check no size) and `MAX_RECORDS_COUNT` of ant-networking's record store (how many addresses one honest
//!    `Cmd::Replicate` can carry);
//! Every other shape is a refusal (UNTRANSLATABLE), never a guess.
use crate::util::*;
use quote::ToTokens;
use std::path::PathBuf;

fn toks<T: ToTokens>(t: &T) -> String {
    t.to_token_stream().to_string().replace(' ', "")
}

fn strip_try(e: &syn::Expr) -> &syn::Expr {
    match e {
        syn::Expr::Try(t) => strip_try(&t.expr),
        syn::Expr::Paren(p) => strip_try(&p.expr),
        _ => e,
    }
}

fn last_expr(b: &syn::Block) -> Result<&syn::Expr, String> {
    match b.stmts.last() {
        Some(syn::Stmt::Expr(e, None)) => Ok(e),
        Some(syn::Stmt::Expr(syn::Expr::Return(r), _)) => r.expr.as_deref().ok_or_else(|| "empty return".to_string()),
        _ => Err("the body does not end in an expression".into()),
    }
}

/// is `init` an expression of type `&[u8]` made from a `RecordKey` by `.as_ref()` (directly, or in every arm of a match)?
fn is_key_slice(init: &syn::Expr) -> bool {
    match init {
        syn::Expr::MethodCall(m) => m.method == "as_ref" && m.args.is_empty(),
        syn::Expr::Match(m) => !m.arms.is_empty() && m.arms.iter().all(|a| a.guard.is_none() && is_key_slice(&a.body)),
        syn::Expr::Paren(p) => is_key_slice(&p.expr),
        syn::Expr::Block(b) => b.block.stmts.len() == 1 && last_expr(&b.block).map(is_key_slice).unwrap_or(false),
        _ => false,
    }
}

fn ser_kind(file: &syn::File) -> Result<&'static str, String> {
    let rel = "ant-protocol/src/lib.rs";
    let f = impl_fn(file, "PrettyPrintRecordKey", Some("Serialize"), "serialize").map_err(|e| format!("{rel}: {e}"))?;
    let ser_arg = match f.sig.inputs.iter().nth(1) {
        Some(syn::FnArg::Typed(t)) => toks(&t.pat),
        _ => return Err(format!("{rel}: PrettyPrintRecordKey::serialize: unexpected signature")),
    };
    let last = strip_try(last_expr(&f.block).map_err(|e| format!("{rel}: PrettyPrintRecordKey::serialize: {e}"))?);
    let m = match last {
        syn::Expr::MethodCall(m) => m,
        _ => return Err(format!("{rel}: PrettyPrintRecordKey::serialize does not end in a method call: `{}`", toks(last))),
    };
    // serializer.serialize_bytes(..)
    if toks(&m.receiver) == ser_arg {
        return match m.method.to_string().as_str() {
            "serialize_bytes" => Ok(".bytes"),
            other => Err(format!("{rel}: PrettyPrintRecordKey::serialize calls serializer.{other}(..): data-model kind not known to the translator")),
        };
    }
    // <slice>.serialize(serializer)
    if m.method == "serialize" && m.args.len() == 1 && toks(&m.args[0]) == ser_arg {
        let recv = &*m.receiver;
        // a local bound to the key's bytes
        if let syn::Expr::Path(p) = recv {
            let name = toks(p);
            for st in &f.block.stmts {
                if let syn::Stmt::Local(l) = st {
                    if toks(&l.pat) == name {
                        if let Some(init) = &l.init {
                            if is_key_slice(&init.expr) {
                                return Ok(".seq");
                            }
                        }
                        return Err(format!("{rel}: PrettyPrintRecordKey::serialize: `{name}` is not bound to `<key>.as_ref()`"));
                    }
                }
            }
            return Err(format!("{rel}: PrettyPrintRecordKey::serialize: `{name}` is not a local of the function"));
        }
        // a private helper returning the key's bytes: self.helper()
        if let syn::Expr::MethodCall(h) = recv {
            if toks(&h.receiver) == "self" && h.args.is_empty() {
                let hf = impl_fn(file, "PrettyPrintRecordKey", None, &h.method.to_string()).map_err(|e| format!("{rel}: {e}"))?;
                let ret = match &hf.sig.output {
                    syn::ReturnType::Type(_, t) => toks(t),
                    _ => String::new(),
                };
                if ret == "&[u8]" && last_expr(&hf.block).map(is_key_slice).unwrap_or(false) {
                    return Ok(".seq");
                }
                return Err(format!("{rel}: PrettyPrintRecordKey::{}: not a `-> &[u8]` helper ending in `<key>.as_ref()`", h.method));
            }
        }
        if is_key_slice(recv) {
            return Ok(".seq");
        }
    }
    Err(format!("{rel}: PrettyPrintRecordKey::serialize: unreadable shape `{}`", toks(last)))
}

fn de_kind(file: &syn::File) -> Result<&'static str, String> {
    let rel = "ant-protocol/src/lib.rs";
    let f = impl_fn(file, "PrettyPrintRecordKey", Some("Deserialize"), "deserialize").map_err(|e| format!("{rel}: {e}"))?;
    let de_arg = match f.sig.inputs.iter().next() {
        Some(syn::FnArg::Typed(t)) => toks(&t.pat),
        _ => return Err(format!("{rel}: PrettyPrintRecordKey::deserialize: unexpected signature")),
    };
    // the one expression that consumes the deserializer
    let mut found: Vec<String> = vec![];
    struct V<'a> {
        de: &'a str,
        found: &'a mut Vec<String>,
    }
    impl<'ast, 'a> syn::visit::Visit<'ast> for V<'a> {
        fn visit_expr_call(&mut self, c: &'ast syn::ExprCall) {
            if c.args.iter().any(|a| toks(a) == self.de) {
                self.found.push(format!("call:{}", toks(&c.func)));
            }
            syn::visit::visit_expr_call(self, c);
        }
        fn visit_expr_method_call(&mut self, m: &'ast syn::ExprMethodCall) {
            if toks(&m.receiver) == self.de {
                self.found.push(format!("method:{}", m.method));
            } else if m.args.iter().any(|a| toks(a) == self.de) {
                self.found.push(format!("arg-of-method:{}", m.method));
            }
            syn::visit::visit_expr_method_call(self, m);
        }
    }
    syn::visit::Visit::visit_block(&mut V { de: &de_arg, found: &mut found }, &f.block);
    if found.len() != 1 {
        return Err(format!("{rel}: PrettyPrintRecordKey::deserialize uses the deserializer {} times ({found:?})", found.len()));
    }
    match found[0].as_str() {
        "call:Vec::<u8>::deserialize" | "call:<Vec<u8>>::deserialize" | "call:Vec::<u8>::deserialize::<D>" => Ok(".seq"),
        "call:serde_bytes::ByteBuf::deserialize" | "call:ByteBuf::deserialize" | "call:Bytes::deserialize" | "call:bytes::Bytes::deserialize" => Ok(".bytes"),
        "method:deserialize_bytes" | "method:deserialize_byte_buf" => Ok(".bytes"),
        other => Err(format!("{rel}: PrettyPrintRecordKey::deserialize reads through `{other}`: data-model kind not known to the translator")),
    }
}

fn codec(repo: &PathBuf) -> Result<&'static str, String> {
    let rel = "ant-networking/src/driver.rs";
    let file = parse_file(&repo.join(rel))?;
    for it in &file.items {
        if let syn::Item::Struct(s) = it {
            if s.ident == "NodeBehaviour" {
                for f in &s.fields {
                    if f.ident.as_ref().map(|i| i == "request_response").unwrap_or(false) {
                        let t = toks(&f.ty);
                        return match t.as_str() {
                            "request_response::cbor::Behaviour<Request,Response>" => Ok(".cbor"),
                            "request_response::json::Behaviour<Request,Response>" => Ok(".json"),
                            _ => Err(format!("{rel}: NodeBehaviour::request_response has type `{t}`: codec not known to the translator")),
                        };
                    }
                }
                return Err(format!("{rel}: NodeBehaviour has no field request_response"));
            }
        }
    }
    Err(format!("{rel}: struct NodeBehaviour not found"))
}

/// the version of a package pinned in /repo/Cargo.lock (exactly one entry expected)
fn locked_version(repo: &PathBuf, pkg: &str) -> Result<String, String> {
    let lock = std::fs::read_to_string(repo.join("Cargo.lock")).map_err(|e| format!("Cargo.lock: {e}"))?;
    let needle = format!("name = \"{pkg}\"");
    let mut found: Vec<String> = vec![];
    let mut lines = lock.lines();
    while let Some(l) = lines.next() {
        if l.trim() == needle {
            if let Some(v) = lines.next().and_then(|v| v.trim().strip_prefix("version = \"")).and_then(|v| v.strip_suffix('"')) {
                found.push(v.to_string());
            }
        }
    }
    match found.as_slice() {
        [v] => Ok(v.clone()),
        _ => Err(format!("Cargo.lock: {} entries for {pkg} ({found:?}), expected one", found.len())),
    }
}

/// `REQUEST_SIZE_MAXIMUM` / `RESPONSE_SIZE_MAXIMUM` of the cbor codec in the locked libp2p-request-response (the codec object
/// ant-networking instantiates with `cbor::Behaviour::new`, which leaves no way to change them), read from the vendored source
/// in the cargo registry; plus the facts the size theorems rest on: the readers cut the stream with `io.take(<that constant>)`
/// and the writers have no size check at all (they call `to_vec` and `write_all`, nothing else mentions the constants).
fn codec_limits(repo: &PathBuf) -> Result<(u128, u128), String> {
    let ver = locked_version(repo, "libp2p-request-response")?;
    let home = std::env::var("CARGO_HOME").map(PathBuf::from).or_else(|_| std::env::var("HOME").map(|h| PathBuf::from(h).join(".cargo"))).map_err(|_| "neither CARGO_HOME nor HOME is set".to_string())?;
    let src = home.join("registry").join("src");
    let mut hits: Vec<PathBuf> = vec![];
    for e in std::fs::read_dir(&src).map_err(|e| format!("{}: {e}", src.display()))? {
        let p = e.map_err(|e| e.to_string())?.path().join(format!("libp2p-request-response-{ver}")).join("src").join("cbor.rs");
        if p.exists() {
            hits.push(p);
        }
    }
    let path = match hits.as_slice() {
        [p] => p.clone(),
        _ => return Err(format!("libp2p-request-response-{ver}/src/cbor.rs: found {} copies under {}", hits.len(), src.display())),
    };
    let rel = format!("libp2p-request-response-{ver}/src/cbor.rs");
    let file = parse_file(&path)?;
    let codec = file
        .items
        .iter()
        .find_map(|it| match it {
            syn::Item::Mod(m) if m.ident == "codec" => m.content.as_ref().map(|c| &c.1),
            _ => None,
        })
        .ok_or_else(|| format!("{rel}: mod codec not found"))?;
    let inner = syn::File { shebang: None, attrs: vec![], items: codec.clone() };
    let rq = const_value(&inner, "REQUEST_SIZE_MAXIMUM").map_err(|e| format!("{rel}: {e}"))?;
    let rs = const_value(&inner, "RESPONSE_SIZE_MAXIMUM").map_err(|e| format!("{rel}: {e}"))?;
    // where the constants are used: exactly once each, as the argument of `io.take(..)` in the matching reader
    for (f, c) in [("read_request", "REQUEST_SIZE_MAXIMUM"), ("read_response", "RESPONSE_SIZE_MAXIMUM")] {
        let func = impl_fn(&inner, "Codec", Some("Codec"), f).map_err(|e| format!("{rel}: {e}"))?;
        let body = toks(&func.block);
        if !body.contains(&format!("io.take({c}).read_to_end(")) {
            return Err(format!("{rel}: {f} does not cut the stream with io.take({c})"));
        }
    }
    for f in ["write_request", "write_response"] {
        let func = impl_fn(&inner, "Codec", Some("Codec"), f).map_err(|e| format!("{rel}: {e}"))?;
        let body = toks(&func.block);
        if body.contains("SIZE_MAXIMUM") || body.contains(".len()") {
            return Err(format!("{rel}: {f} looks at the size of what it writes (a write-side limit is not modelled)"));
        }
    }
    Ok((rq, rs))
}

pub fn generate(repo: &PathBuf) -> Result<String, String> {
    let lib = parse_file(&repo.join("ant-protocol/src/lib.rs"))?;
    let ser = ser_kind(&lib)?;
    let de = de_kind(&lib)?;
    let cd = codec(repo)?;
    let mut s = header("ant-protocol/src/lib.rs (PrettyPrintRecordKey's hand-written serde impls) and ant-networking/src/driver.rs (the message codec)");
    s.push_str("namespace SafeNet.Gen.WireCodec\n");
    s.push_str("/-- serde data-model kind of a byte-like value: a sequence of `u8` items, or one byte string -/\ninductive SerdeKind | seq | bytes\n  deriving DecidableEq, Repr\n");
    s.push_str("/-- libp2p request-response codecs -/\ninductive Codec | cbor | json\n  deriving DecidableEq, Repr\n");
    s.push_str(&format!("/-- `NodeBehaviour::request_response` (ant-networking/src/driver.rs): the codec `Request`/`Response` travel through -/\ndef messageCodec : Codec := {cd}\n"));
    s.push_str(&format!("/-- `impl Serialize for PrettyPrintRecordKey`: what it writes -/\ndef ppkSerKind : SerdeKind := {ser}\n"));
    s.push_str(&format!("/-- `impl Deserialize for PrettyPrintRecordKey`: what it reads -/\ndef ppkDeKind : SerdeKind := {de}\n"));
    let (rq, rs) = codec_limits(repo)?;
    s.push_str(&format!("/-- `REQUEST_SIZE_MAXIMUM` of the locked libp2p-request-response cbor codec: `read_request` reads `io.take(this)`; `write_request` has no size check -/\ndef requestSizeMaximum : Nat := {rq}\n"));
    s.push_str(&format!("/-- `RESPONSE_SIZE_MAXIMUM`: `read_response` reads `io.take(this)`; `write_response` has no size check -/\ndef responseSizeMaximum : Nat := {rs}\n"));
    let store = parse_file(&repo.join("ant-networking/src/record_store.rs"))?;
    let max_records = const_value(&store, "MAX_RECORDS_COUNT").map_err(|e| format!("ant-networking/src/record_store.rs: {e}"))?;
    s.push_str(&format!("/-- `MAX_RECORDS_COUNT` (ant-networking/src/record_store.rs): how many records a node holds at most, and so how many\naddresses `try_interval_replication` puts into ONE `Cmd::Replicate` (it sends all of `record_addresses_ref()`) -/\ndef maxRecordsCount : Nat := {max_records}\n"));
    s.push_str("end SafeNet.Gen.WireCodec\n");
    Ok(s)
}
