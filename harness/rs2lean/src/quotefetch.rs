//! C13, client side: which peer `Network::get_store_quote_from_network` checks a fetched quote against
//! (ant-networking/src/lib.rs) and whom the returned pair is attributed to.
use crate::util::*;
use quote::ToTokens;
use std::path::PathBuf;
use syn::visit::Visit;

fn norm(t: impl ToTokens) -> String {
    t.to_token_stream().to_string().replace(' ', "")
}

#[derive(Default)]
struct Checks {
    args: Vec<String>,
}
impl<'ast> Visit<'ast> for Checks {
    fn visit_expr_method_call(&mut self, m: &'ast syn::ExprMethodCall) {
        if m.method == "check_is_signed_by_claimed_peer" {
            self.args.push(norm(&m.args));
        }
        syn::visit::visit_expr_method_call(self, m);
    }
}

/// every `*.rs` below `dir`, the `verif` hook directories excluded
fn rs_files(dir: &std::path::Path, out: &mut Vec<PathBuf>) -> Result<(), String> {
    for e in std::fs::read_dir(dir).map_err(|e| format!("{}: {e}", dir.display()))? {
        let p = e.map_err(|e| e.to_string())?.path();
        if p.is_dir() {
            if p.file_name().and_then(|n| n.to_str()) != Some("verif") {
                rs_files(&p, out)?;
            }
        } else if p.extension().and_then(|x| x.to_str()) == Some("rs") {
            out.push(p);
        }
    }
    Ok(())
}

/// struct EXPRESSIONS (not patterns) that build a `QuoteVerification { .. }` value, by the enum named before the variant
#[derive(Default)]
struct Constructed {
    event: usize,
    bare: usize,
}
impl<'ast> Visit<'ast> for Constructed {
    fn visit_expr_struct(&mut self, e: &'ast syn::ExprStruct) {
        let segs: Vec<String> = e.path.segments.iter().map(|s| s.ident.to_string()).collect();
        if segs.last().map(|s| s.as_str()) == Some("QuoteVerification") {
            match segs.len().checked_sub(2).map(|i| segs[i].as_str()) {
                Some("NetworkEvent") => self.event += 1,
                Some("LocalSwarmCmd") => {}
                _ => self.bare += 1,
            }
        }
        syn::visit::visit_expr_struct(self, e);
    }
    fn visit_macro(&mut self, m: &'ast syn::Macro) {
        // a construction inside a macro invocation (e.g. `tokio::select!`) is not parsed by syn: look at its tokens
        let t = m.tokens.to_string().replace(' ', "");
        if t.contains("NetworkEvent::QuoteVerification{") && !t.contains("NetworkEvent::QuoteVerification{quotes}=>") {
            self.event += 1;
        }
    }
}

/// Is `NetworkEvent::QuoteVerification` constructed anywhere in the production sources of ant-networking / ant-node
/// (the event that leads a node into `quotes_verification` → `historical_verify_quotes` → `verify_peer_quote`)?
/// And is the chain from the event to the checker what the `quoteduty` / `quotehist` components drive?
fn dispatch_flags(repo: &PathBuf) -> Result<(bool, bool), String> {
    let mut files = vec![];
    rs_files(&repo.join("ant-networking/src"), &mut files)?;
    rs_files(&repo.join("ant-node/src"), &mut files)?;
    let mut c = Constructed::default();
    for f in &files {
        let file = parse_file(f)?;
        c.visit_file(&file);
    }
    if c.bare > 0 {
        return Err(format!("a `QuoteVerification {{ .. }}` value is built through a path that names neither NetworkEvent nor LocalSwarmCmd ({} times): cannot tell which", c.bare));
    }
    let text = |rel: &str| -> Result<String, String> { Ok(norm(&parse_file(&repo.join(rel))?)) };
    let node = text("ant-node/src/node.rs")?;
    let quote_rs = parse_file(&repo.join("ant-node/src/quote.rs"))?;
    let qv = norm(&free_fn(&quote_rs, "quotes_verification")?.block);
    let lib = parse_file(&repo.join("ant-networking/src/lib.rs"))?;
    let hv = norm(&impl_fn(&lib, "Network", None, "historical_verify_quotes")?.block);
    let cmd = text("ant-networking/src/cmd.rs")?;
    let chain = node.contains("NetworkEvent::QuoteVerification{quotes}=>{") && node.contains("quotes_verification(&network,quotes).await")
        && qv.contains("network.historical_verify_quotes(quotes_for_nodes_duty)")
        && hv.contains("self.send_local_swarm_cmd(LocalSwarmCmd::QuoteVerification{quotes})")
        && cmd.contains("LocalSwarmCmd::QuoteVerification{quotes}=>{") && cmd.contains("self.verify_peer_quote(peer_id,quote)");
    Ok((c.event > 0, chain))
}

pub fn generate(repo: &PathBuf) -> Result<String, String> {
    let rel = "ant-networking/src/lib.rs";
    let file = parse_file(&repo.join(rel))?;
    let f = impl_fn(&file, "Network", None, "get_store_quote_from_network")?;
    let body = norm(&f.block);
    if !body.contains("for(peer,response)inresponses") {
        return Err(format!("{rel}:get_store_quote_from_network: the response loop is not `for (peer, response) in responses`"));
    }
    if !body.contains("self.send_and_get_responses(&close_nodes,&request,true)") {
        return Err(format!("{rel}:get_store_quote_from_network: responses do not come from send_and_get_responses(&close_nodes, &request, true)"));
    }
    let mut c = Checks::default();
    c.visit_block(&f.block);
    if c.args.len() != 1 {
        return Err(format!("{rel}:get_store_quote_from_network: expected one check_is_signed_by_claimed_peer call, found {}", c.args.len()));
    }
    let arg = c.args[0].trim_start_matches('*').to_string();
    let checked = if arg == "peer" {
        "CheckedPeer.responder"
    } else if body.contains(&format!("let{arg}=peer_address.as_peer_id().unwrap_or(peer);")) || arg == "peer_address.as_peer_id().unwrap_or(peer)" {
        "CheckedPeer.claimedAddressElseResponder"
    } else {
        return Err(format!("{rel}:get_store_quote_from_network: the quote is checked against `{arg}`"));
    };
    let attributed = body.contains("quotes_to_pay.push((peer,quote))") && body.contains("Ok(quotes_to_pay)");
    if !attributed {
        return Err(format!("{rel}:get_store_quote_from_network: the returned pairs are no longer `(peer, quote)` of the response loop"));
    }
    if !(body.contains("close_nodes.retain(|peer_id|!ignore_peers.contains(peer_id))") && body.contains("NoStoreCostResponses") && body.contains("letenough_peers_already_have_it=close_nodes.len()/2")
        && body.contains("ifpeer_already_have_it>=enough_peers_already_have_it"))
    {
        return Err(format!("{rel}:get_store_quote_from_network: ignore filter / already-paid threshold changed shape"));
    }
    let checks_content = body.contains("quote.content");
    let proto = parse_file(&repo.join("ant-protocol/src/lib.rs"))?;
    let cgs = const_value(&proto, "CLOSE_GROUP_SIZE")?;

    let mut s = header(rel);
    s.push_str("namespace SafeNet.Gen.QuoteFetch\n");
    s.push_str("/-- which peer `Network::get_store_quote_from_network` passes to `quote.check_is_signed_by_claimed_peer(..)` -/\n");
    s.push_str("inductive CheckedPeer | responder | claimedAddressElseResponder\nderiving DecidableEq, Repr\n");
    s.push_str(&format!("def checkedPeer : CheckedPeer := {checked}\n"));
    s.push_str("/-- the returned pairs are `(responding peer, quote)` -/\n");
    s.push_str(&format!("def attributedToResponder : Bool := {}\n", lean_bool(attributed)));
    s.push_str("/-- the quote's content address is compared with the requested address -/\n");
    s.push_str(&format!("def checksContent : Bool := {}\n", lean_bool(checks_content)));
    s.push_str(&format!("def closeGroupSize : Nat := {cgs}\n"));
    let (dispatched, chain) = dispatch_flags(repo)?;
    s.push_str("/-- some production code of ant-networking / ant-node (hook directories excluded) constructs `NetworkEvent::QuoteVerification`,\nthe only way into `quotes_verification` → `historical_verify_quotes` → `SwarmDriver::verify_peer_quote` -/\n");
    s.push_str(&format!("def quoteVerificationDispatched : Bool := {}\n", lean_bool(dispatched)));
    s.push_str("/-- from the event on, the chain is the one the components `quoteduty` / `quotehist` drive: node.rs hands the event's quotes to\n`quotes_verification`, which sends `LocalSwarmCmd::QuoteVerification`, whose arm calls `verify_peer_quote` per quote -/\n");
    s.push_str(&format!("def checkerChainIntact : Bool := {}\n", lean_bool(chain)));
    s.push_str("end SafeNet.Gen.QuoteFetch\n");
    Ok(s)
}
