//! C13, client side: which peer `Network::get_store_quote_from_network` checks a fetched quote against
//! (ant-networking/src/lib.rs) and whom the returned pair is attributed to.
use crate::util::*;
use quote::ToTokens;
use std::path::PathBuf;
use syn::visit::Visit;

fn norm(t: impl ToTokens) -> String {
    t.to_token_stream().to_string().replace(' ', "")
}

#[derive(Default)]
struct Checks {
    args: Vec<String>,
}
impl<'ast> Visit<'ast> for Checks {
    fn visit_expr_method_call(&mut self, m: &'ast syn::ExprMethodCall) {
        if m.method == "check_is_signed_by_claimed_peer" {
            self.args.push(norm(&m.args));
        }
        syn::visit::visit_expr_method_call(self, m);
    }
}

pub fn generate(repo: &PathBuf) -> Result<String, String> {
    let rel = "ant-networking/src/lib.rs";
    let file = parse_file(&repo.join(rel))?;
    let f = impl_fn(&file, "Network", None, "get_store_quote_from_network")?;
    let body = norm(&f.block);
    if !body.contains("for(peer,response)inresponses") {
        return Err(format!("{rel}:get_store_quote_from_network: the response loop is not `for (peer, response) in responses`"));
    }
    if !body.contains("self.send_and_get_responses(&close_nodes,&request,true)") {
        return Err(format!("{rel}:get_store_quote_from_network: responses do not come from send_and_get_responses(&close_nodes, &request, true)"));
    }
    let mut c = Checks::default();
    c.visit_block(&f.block);
    if c.args.len() != 1 {
        return Err(format!("{rel}:get_store_quote_from_network: expected one check_is_signed_by_claimed_peer call, found {}", c.args.len()));
    }
    let arg = c.args[0].trim_start_matches('*').to_string();
    let checked = if arg == "peer" {
        "CheckedPeer.responder"
    } else if body.contains(&format!("let{arg}=peer_address.as_peer_id().unwrap_or(peer);")) || arg == "peer_address.as_peer_id().unwrap_or(peer)" {
        "CheckedPeer.claimedAddressElseResponder"
    } else {
        return Err(format!("{rel}:get_store_quote_from_network: the quote is checked against `{arg}`"));
    };
    let attributed = body.contains("quotes_to_pay.push((peer,quote))") && body.contains("Ok(quotes_to_pay)");
    if !attributed {
        return Err(format!("{rel}:get_store_quote_from_network: the returned pairs are no longer `(peer, quote)` of the response loop"));
    }
    if !(body.contains("close_nodes.retain(|peer_id|!ignore_peers.contains(peer_id))") && body.contains("NoStoreCostResponses") && body.contains("letenough_peers_already_have_it=close_nodes.len()/2")
        && body.contains("ifpeer_already_have_it>=enough_peers_already_have_it"))
    {
        return Err(format!("{rel}:get_store_quote_from_network: ignore filter / already-paid threshold changed shape"));
    }
    let checks_content = body.contains("quote.content");
    let proto = parse_file(&repo.join("ant-protocol/src/lib.rs"))?;
    let cgs = const_value(&proto, "CLOSE_GROUP_SIZE")?;

    let mut s = header(rel);
    s.push_str("namespace SafeNet.Gen.QuoteFetch\n");
    s.push_str("/-- which peer `Network::get_store_quote_from_network` passes to `quote.check_is_signed_by_claimed_peer(..)` -/\n");
    s.push_str("inductive CheckedPeer | responder | claimedAddressElseResponder\nderiving DecidableEq, Repr\n");
    s.push_str(&format!("def checkedPeer : CheckedPeer := {checked}\n"));
    s.push_str("/-- the returned pairs are `(responding peer, quote)` -/\n");
    s.push_str(&format!("def attributedToResponder : Bool := {}\n", lean_bool(attributed)));
    s.push_str("/-- the quote's content address is compared with the requested address -/\n");
    s.push_str(&format!("def checksContent : Bool := {}\n", lean_bool(checks_content)));
    s.push_str(&format!("def closeGroupSize : Nat := {cgs}\n"));
    s.push_str("end SafeNet.Gen.QuoteFetch\n");
    Ok(s)
}
