//! C05: constants and the quorum table behind `pending_get_record` accumulation.
//!   ant-protocol/src/lib.rs   CLOSE_GROUP_SIZE
//!   ant-networking/src/lib.rs close_group_majority(), get_quorum_value()
//!   ant-networking/src/driver.rs  type GetRecordResultMap (responders kept in a HashSet?)
//!   ant-networking/src/event/kad.rs  the comparison that ends accumulation
use crate::util::*;
use quote::ToTokens;
use std::path::PathBuf;

fn toks<T: ToTokens>(t: &T) -> String {
    t.to_token_stream().to_string().replace(' ', "")
}

/// translate an integer expression over CLOSE_GROUP_SIZE / close_group_majority() / `v.get()` / literals
fn expr(e: &syn::Expr, bound: Option<&str>) -> Result<String, String> {
    match e {
        syn::Expr::Lit(l) => match &l.lit {
            syn::Lit::Int(i) => Ok(i.base10_digits().to_string()),
            _ => Err(format!("unsupported literal {}", toks(e))),
        },
        syn::Expr::Paren(p) => Ok(format!("({})", expr(&p.expr, bound)?)),
        syn::Expr::Path(p) => {
            let n = p.path.segments.last().map(|s| s.ident.to_string()).unwrap_or_default();
            match n.as_str() {
                "CLOSE_GROUP_SIZE" => Ok("closeGroupSize".into()),
                _ => Err(format!("unknown name {n}")),
            }
        }
        syn::Expr::Call(c) if c.args.is_empty() && toks(&c.func).ends_with("close_group_majority") => {
            Ok("closeGroupMajority".into())
        }
        syn::Expr::MethodCall(m) if m.method == "get" && m.args.is_empty() => {
            let recv = toks(&m.receiver);
            if Some(recv.as_str()) == bound {
                Ok("v".into())
            } else {
                Err(format!("`.get()` on {recv}, which is not the arm's binding"))
            }
        }
        syn::Expr::Binary(b) => {
            let op = match b.op {
                syn::BinOp::Add(_) => "+",
                syn::BinOp::Mul(_) => "*",
                syn::BinOp::Div(_) => "/",
                syn::BinOp::Sub(_) => "-",
                _ => return Err(format!("unsupported operator in {}", toks(e))),
            };
            Ok(format!("({} {op} {})", expr(&b.left, bound)?, expr(&b.right, bound)?))
        }
        _ => Err(format!("unsupported expression {}", toks(e))),
    }
}

fn tail_expr(b: &syn::Block) -> Result<&syn::Expr, String> {
    // a body made of (comments and) one tail expression
    match b.stmts.as_slice() {
        [syn::Stmt::Expr(e, None)] => Ok(e),
        _ => Err("expected a body consisting of a single tail expression".into()),
    }
}

// ---------------------------------------------------------------------------------------------------------
// syntax-tree helpers
// ---------------------------------------------------------------------------------------------------------

const LOG_MACROS: [&str; 6] = ["trace", "debug", "info", "warn", "error", "println"];

fn is_log_macro(m: &syn::Macro) -> bool {
    m.path.segments.last().map(|s| LOG_MACROS.contains(&s.ident.to_string().as_str())).unwrap_or(false)
}

/// statements of a block without log macros
fn stmts(b: &syn::Block) -> Vec<&syn::Stmt> {
    b.stmts
        .iter()
        .filter(|st| match st {
            syn::Stmt::Macro(m) => !is_log_macro(&m.mac),
            syn::Stmt::Expr(syn::Expr::Macro(m), _) => !is_log_macro(&m.mac),
            _ => true,
        })
        .collect()
}

/// the value of a block: its last statement when that is an expression without `;`
fn block_value(b: &syn::Block) -> Option<&syn::Expr> {
    match stmts(b).last() {
        Some(syn::Stmt::Expr(e, None)) => Some(e),
        _ => None,
    }
}

fn peel(e: &syn::Expr) -> &syn::Expr {
    match e {
        syn::Expr::Paren(p) => peel(&p.expr),
        syn::Expr::Group(g) => peel(&g.expr),
        syn::Expr::Reference(r) => peel(&r.expr),
        syn::Expr::Unary(u) if matches!(u.op, syn::UnOp::Deref(_)) => peel(&u.expr),
        _ => e,
    }
}

fn ident_of(e: &syn::Expr) -> Option<String> {
    match peel(e) {
        syn::Expr::Path(p) if p.path.segments.len() == 1 && p.qself.is_none() => Some(p.path.segments[0].ident.to_string()),
        _ => None,
    }
}

fn method<'a>(e: &'a syn::Expr, name: &str) -> Option<&'a syn::ExprMethodCall> {
    match peel(e) {
        syn::Expr::MethodCall(m) if m.method == name => Some(m),
        _ => None,
    }
}

fn call_named<'a>(e: &'a syn::Expr, name: &str) -> Option<&'a syn::ExprCall> {
    match peel(e) {
        syn::Expr::Call(c) => match &*c.func {
            syn::Expr::Path(p) if p.path.segments.last().map(|s| s.ident == name).unwrap_or(false) => Some(c),
            _ => None,
        },
        _ => None,
    }
}

fn pat_ident(p: &syn::Pat) -> Option<String> {
    match p {
        syn::Pat::Ident(i) => Some(i.ident.to_string()),
        syn::Pat::Type(t) => pat_ident(&t.pat),
        _ => None,
    }
}

#[derive(Default)]
struct Collect<'a> {
    locals: Vec<(String, &'a syn::Expr)>,
    ifs: Vec<&'a syn::ExprIf>,
    method_calls: Vec<&'a syn::ExprMethodCall>,
}

impl<'a> syn::visit::Visit<'a> for Collect<'a> {
    fn visit_local(&mut self, l: &'a syn::Local) {
        if let (Some(n), Some(init)) = (pat_ident(&l.pat), l.init.as_ref()) {
            self.locals.push((n, &init.expr));
        }
        syn::visit::visit_local(self, l);
    }
    fn visit_expr_if(&mut self, i: &'a syn::ExprIf) {
        self.ifs.push(i);
        syn::visit::visit_expr_if(self, i);
    }
    fn visit_expr_method_call(&mut self, m: &'a syn::ExprMethodCall) {
        self.method_calls.push(m);
        syn::visit::visit_expr_method_call(self, m);
    }
    fn visit_macro(&mut self, _m: &'a syn::Macro) {}
}

fn collect<'a>(blocks: &[&'a syn::Block]) -> Collect<'a> {
    use syn::visit::Visit;
    let mut c = Collect::default();
    for b in blocks {
        c.visit_block(b);
    }
    c
}

fn else_block(i: &syn::ExprIf) -> Option<&syn::Block> {
    match i.else_branch.as_ref().map(|(_, e)| &**e) {
        Some(syn::Expr::Block(b)) => Some(&b.block),
        _ => None,
    }
}

fn is_quorum_call(e: &syn::Expr) -> Result<bool, String> {
    let Some(c) = call_named(e, "get_quorum_value") else { return Ok(false) };
    // the argument must be the cfg's `get_quorum` field
    let ok = c.args.len() == 1
        && matches!(peel(&c.args[0]), syn::Expr::Field(f) if matches!(&f.member, syn::Member::Named(n) if n == "get_quorum"));
    if ok {
        Ok(true)
    } else {
        Err(format!("get_quorum_value is applied to `{}`, not to the cfg's get_quorum", toks(&c.args)))
    }
}

/// `true`: the query completes when (number of distinct responders of the version) >= get_quorum_value(cfg.get_quorum);
/// `false`: strict `>`; anything else is refused.
fn read_threshold(blocks: &[&syn::Block]) -> Result<bool, String> {
    let c = collect(blocks);
    // locals bound to the quorum value
    let mut quorum_locals = vec![];
    for (n, init) in &c.locals {
        if is_quorum_call(init)? {
            quorum_locals.push(n.clone());
        }
    }
    // locals bound to "insert the peer into the version's responder set; its size (or 1 for a new version)"
    let mut count_locals = vec![];
    for (n, init) in &c.locals {
        let syn::Expr::If(i) = peel(init) else { continue };
        let Some(eb) = else_block(i) else { continue };
        let (Some(tv), Some(ev)) = (block_value(&i.then_branch), block_value(eb)) else { continue };
        let then_is_len = method(tv, "len").map(|m| m.args.is_empty() && ident_of(&m.receiver).is_some()).unwrap_or(false);
        let else_is_one = matches!(peel(ev), syn::Expr::Lit(l) if matches!(&l.lit, syn::Lit::Int(v) if v.base10_digits() == "1"));
        let inserts = |b: &syn::Block| collect(&[b]).method_calls.iter().any(|m| m.method == "insert");
        if then_is_len && else_is_one && inserts(&i.then_branch) && inserts(eb) {
            // the size must be read from the set the peer was inserted into, after the insertion
            let recv = method(tv, "len").and_then(|m| ident_of(&m.receiver)).unwrap_or_default();
            let st = stmts(&i.then_branch);
            let inserted_before = st.iter().rev().skip(1).any(|s| {
                let t = toks(*s);
                t.contains(&format!("{recv}.insert("))
            });
            if !inserted_before {
                return Err(format!("the responder count `{n}` is not `insert(peer); {recv}.len()`"));
            }
            count_locals.push(n.clone());
        }
    }
    if count_locals.len() != 1 {
        return Err(format!("cannot identify the responder count (found {} candidate bindings)", count_locals.len()));
    }
    let is_count = |e: &syn::Expr| ident_of(e).map(|n| count_locals.contains(&n)).unwrap_or(false);
    let is_quorum = |e: &syn::Expr| -> bool {
        ident_of(e).map(|n| quorum_locals.contains(&n)).unwrap_or(false) || is_quorum_call(e).unwrap_or(false)
    };
    let mut verdicts = vec![];
    for i in &c.ifs {
        let syn::Expr::Binary(b) = peel(&i.cond) else {
            // a condition that mentions the count but is not a plain comparison is not understood
            if count_locals.iter().any(|n| toks(&*i.cond).contains(n.as_str())) && !matches!(&*i.cond, syn::Expr::Let(_)) {
                return Err(format!("completion test `{}` is not a plain comparison", toks(&*i.cond)));
            }
            continue;
        };
        let (l, r) = (&*b.left, &*b.right);
        let v = if is_count(l) && is_quorum(r) {
            match b.op {
                syn::BinOp::Ge(_) => true,
                syn::BinOp::Gt(_) => false,
                _ => return Err(format!("completion test `{}` uses an unexpected operator", toks(&*i.cond))),
            }
        } else if is_quorum(l) && is_count(r) {
            match b.op {
                syn::BinOp::Le(_) => true,
                syn::BinOp::Lt(_) => false,
                _ => return Err(format!("completion test `{}` uses an unexpected operator", toks(&*i.cond))),
            }
        } else if is_count(l) || is_count(r) || toks(&*i.cond).contains(count_locals[0].as_str()) {
            return Err(format!("completion test `{}` does not compare the responder count with the quorum value", toks(&*i.cond)));
        } else {
            continue;
        };
        verdicts.push(v);
    }
    match verdicts.as_slice() {
        [v] => Ok(*v),
        [] => Err("no test of the responder count against get_quorum_value(&cfg.get_quorum) found".into()),
        _ => Err("several tests of the responder count against the quorum value".into()),
    }
}

/// is `e` the key of the reply's record: `<reply>.record.key`
fn is_reply_key(e: &syn::Expr, reply: &str) -> bool {
    match peel(e) {
        syn::Expr::Field(k) if matches!(&k.member, syn::Member::Named(n) if n == "key") => match peel(&k.base) {
            syn::Expr::Field(r) if matches!(&r.member, syn::Member::Named(n) if n == "record") => ident_of(&r.base).as_deref() == Some(reply),
            _ => false,
        },
        _ => false,
    }
}

/// does the expression mention `<anything>.record.key` as an operand of a comparison
struct KeyComparisons(usize);
impl<'a> syn::visit::Visit<'a> for KeyComparisons {
    fn visit_expr_binary(&mut self, b: &'a syn::ExprBinary) {
        if matches!(b.op, syn::BinOp::Eq(_) | syn::BinOp::Ne(_)) {
            let is_key = |e: &syn::Expr| matches!(peel(e), syn::Expr::Field(k) if matches!(&k.member, syn::Member::Named(n) if n == "key")
                && matches!(peel(&k.base), syn::Expr::Field(r) if matches!(&r.member, syn::Member::Named(n) if n == "record")));
            if is_key(&b.left) || is_key(&b.right) {
                self.0 += 1;
            }
        }
        syn::visit::visit_expr_binary(self, b);
    }
    fn visit_expr_method_call(&mut self, m: &'a syn::ExprMethodCall) {
        if (m.method == "eq" || m.method == "ne") && toks(m).contains(".record.key") {
            self.0 += 1;
        }
        syn::visit::visit_expr_method_call(self, m);
    }
    fn visit_macro(&mut self, _m: &'a syn::Macro) {}
}

/// `true`: inside `if let Entry::Occupied(mut entry) = self.pending_get_record.entry(..)`, right after
/// `let (key, ..) = entry.get_mut();` and before any other statement, a reply whose `record.key` differs from that key
/// is dropped with `return Ok(())`; `false`: the reply's record key is compared with nothing anywhere; else refused.
fn read_found_checks_key(f: &syn::ImplItemFn, blocks: &[&syn::Block]) -> Result<bool, String> {
    use syn::visit::Visit;
    let mut kc = KeyComparisons(0);
    for b in blocks {
        kc.visit_block(b);
    }
    if kc.0 == 0 {
        return Ok(false);
    }
    if kc.0 > 1 {
        return Err("the reply's record key is compared more than once".into());
    }
    // the parameter of type PeerRecord
    let reply = f
        .sig
        .inputs
        .iter()
        .find_map(|a| match a {
            syn::FnArg::Typed(t) if toks(&*t.ty).ends_with("PeerRecord") => pat_ident(&t.pat),
            _ => None,
        })
        .ok_or("no PeerRecord parameter")?;
    // the `if let Entry::Occupied(..) = self.pending_get_record.entry(..)` of the function body itself
    let c = collect(&[&f.block]);
    let occupied: Vec<&&syn::ExprIf> = c
        .ifs
        .iter()
        .filter(|i| matches!(&*i.cond, syn::Expr::Let(l) if toks(&*l.pat).starts_with("Entry::Occupied(") && toks(&*l.expr).contains("self.pending_get_record.entry(")))
        .collect();
    let [occ] = occupied.as_slice() else { return Err("expected one `if let Entry::Occupied(..) = self.pending_get_record.entry(..)`".into()) };
    let st = stmts(&occ.then_branch);
    // 1st statement: let (<key>, ..) = <entry>.get_mut();
    let key_name = match st.first() {
        Some(syn::Stmt::Local(l)) => {
            let is_get_mut = l.init.as_ref().map(|i| method(&i.expr, "get_mut").is_some()).unwrap_or(false);
            match (&l.pat, is_get_mut) {
                (syn::Pat::Tuple(t), true) if t.elems.len() == 4 => pat_ident(&t.elems[0]).ok_or("the pending key is not bound by name")?,
                _ => return Err("the first statement for a pending query is not `let (key, senders, result_map, cfg) = entry.get_mut()`".into()),
            }
        }
        _ => return Err("the first statement for a pending query is not a binding of the entry".into()),
    };
    // 2nd statement: if <reply>.record.key != *<key> { [logs]; return Ok(()); }
    let guard = match st.get(1) {
        Some(syn::Stmt::Expr(syn::Expr::If(i), _)) => i,
        _ => return Err("the record key is compared, but not in a guard placed before any use of the reply".into()),
    };
    if guard.else_branch.is_some() {
        return Err("the key guard has an else branch".into());
    }
    let syn::Expr::Binary(b) = peel(&guard.cond) else { return Err("the key guard is not a comparison".into()) };
    if !matches!(b.op, syn::BinOp::Ne(_)) {
        return Err(format!("the key guard `{}` is not a `!=`", toks(&*guard.cond)));
    }
    let is_pending_key = |e: &syn::Expr| ident_of(e).as_deref() == Some(key_name.as_str());
    let sides_ok = (is_reply_key(&b.left, &reply) && is_pending_key(&b.right)) || (is_pending_key(&b.left) && is_reply_key(&b.right, &reply));
    if !sides_ok {
        return Err(format!("the key guard `{}` does not compare the reply's record key with the pending key", toks(&*guard.cond)));
    }
    let gs = stmts(&guard.then_branch);
    let drops = match gs.as_slice() {
        [syn::Stmt::Expr(syn::Expr::Return(r), _)] => r.expr.as_ref().map(|v| toks(&**v) == "Ok(())").unwrap_or(false),
        _ => false,
    };
    if !drops {
        return Err("a reply with another key is not simply dropped with `return Ok(())`".into());
    }
    Ok(true)
}

/// `true`: `struct Transaction { owner, parents, content, outputs, signature }` derives PartialEq, Eq, Hash, Ord and
/// PartialOrd and has no hand-written comparison impls; `false`: Eq/Hash derived, `Ord` hand-written over exactly
/// owner, parents, content, outputs (signature left out) with `PartialOrd` delegating to it; anything else is refused.
fn read_transaction_ord(file: &syn::File) -> Result<bool, String> {
    let st = file
        .items
        .iter()
        .find_map(|it| match it {
            syn::Item::Struct(s) if s.ident == "Transaction" => Some(s),
            _ => None,
        })
        .ok_or("struct not found")?;
    let fields: Vec<String> = st.fields.iter().filter_map(|f| f.ident.as_ref().map(|i| i.to_string())).collect();
    if fields != ["owner", "parents", "content", "outputs", "signature"] {
        return Err(format!("unexpected fields {fields:?}"));
    }
    let mut derives: Vec<String> = vec![];
    for a in &st.attrs {
        if a.path().is_ident("derive") {
            let _ = a.parse_nested_meta(|m| {
                if let Some(i) = m.path.segments.last() {
                    derives.push(i.ident.to_string());
                }
                Ok(())
            });
        }
    }
    let has = |n: &str| derives.iter().any(|d| d == n);
    // hand-written impls of comparison traits for Transaction
    let mut manual: Vec<(String, &syn::ItemImpl)> = vec![];
    for it in &file.items {
        if let syn::Item::Impl(i) = it {
            if toks(&*i.self_ty) != "Transaction" {
                continue;
            }
            if let Some((_, path, _)) = &i.trait_ {
                let t = path.segments.last().map(|s| s.ident.to_string()).unwrap_or_default();
                if ["Ord", "PartialOrd", "PartialEq", "Eq", "Hash"].contains(&t.as_str()) {
                    manual.push((t, i));
                }
            }
        }
    }
    if !(has("PartialEq") && has("Eq") && has("Hash")) || manual.iter().any(|(t, _)| ["PartialEq", "Eq", "Hash"].contains(&t.as_str())) {
        return Err("PartialEq/Eq/Hash are not (only) derived: the HashSet merge of handle_split_record_error is modelled with all-field equality".into());
    }
    if has("Ord") && has("PartialOrd") {
        return if manual.is_empty() { Ok(true) } else { Err("derived and hand-written ordering at the same time".into()) };
    }
    if has("Ord") || has("PartialOrd") {
        return Err("only one of Ord/PartialOrd is derived".into());
    }
    // no derived ordering: recognise the weaker alternative positively
    let ord = manual.iter().find(|(t, _)| t == "Ord").ok_or("no ordering at all (the BTreeSet merge would not compile)")?;
    let pord = manual.iter().find(|(t, _)| t == "PartialOrd").ok_or("Ord without PartialOrd")?;
    let body = |i: &syn::ItemImpl, name: &str| -> Option<String> {
        i.items.iter().find_map(|ii| match ii {
            syn::ImplItem::Fn(f) if f.sig.ident == name => Some(toks(&f.block)),
            _ => None,
        })
    };
    let cmp = body(ord.1, "cmp").ok_or("Ord without cmp")?;
    if body(pord.1, "partial_cmp").as_deref() != Some("{Some(self.cmp(other))}") {
        return Err("partial_cmp does not delegate to cmp".into());
    }
    let mentions = |f: &str| cmp.contains(&format!("self.{f}")) && cmp.contains(&format!("other.{f}"));
    let four = ["owner", "parents", "content", "outputs"].iter().all(|f| mentions(f));
    if four && !cmp.contains("signature") && cmp.starts_with("{(&self.owner,&self.parents,&self.content,&self.outputs).cmp(&(") {
        Ok(false)
    } else {
        Err(format!("hand-written Ord of an unknown shape: {cmp}"))
    }
}

/// the branch taken when the result map holds exactly one version answers through `send_record_after_checking_target`
fn read_single_version_branch(blocks: &[&syn::Block]) -> Result<(), String> {
    let c = collect(blocks);
    let mut hits = 0;
    for i in &c.ifs {
        let syn::Expr::Binary(b) = peel(&i.cond) else { continue };
        if !matches!(b.op, syn::BinOp::Eq(_)) {
            continue;
        }
        let is_one = |e: &syn::Expr| matches!(peel(e), syn::Expr::Lit(l) if matches!(&l.lit, syn::Lit::Int(v) if v.base10_digits() == "1"));
        let is_len = |e: &syn::Expr| method(e, "len").is_some();
        if !((is_len(&b.left) && is_one(&b.right)) || (is_one(&b.left) && is_len(&b.right))) {
            continue;
        }
        let calls = calls_in_block(&i.then_branch);
        if calls.paths.iter().any(|p| p.ends_with("send_record_after_checking_target")) {
            hits += 1;
        } else {
            return Err("the single-version branch does not answer through send_record_after_checking_target".into());
        }
    }
    if hits == 1 {
        Ok(())
    } else {
        Err(format!("expected one `if <map>.len() == 1 {{ send_record_after_checking_target(..) }}`, found {hits}"))
    }
}

fn is_ok_of(e: &syn::Expr) -> bool {
    call_named(e, "Ok").is_some()
}
fn is_mismatch_err(e: &syn::Expr) -> bool {
    call_named(e, "Err").map(|c| c.args.len() == 1 && call_named(&c.args[0], "RecordDoesNotMatch").is_some()).unwrap_or(false)
}

/// `true`: what is sent is `if cfg.does_target_match(&record) { Ok(record) } else { Err(RecordDoesNotMatch(record)) }`;
/// `false`: `does_target_match` is not consulted at all and `Ok(record)` is sent; anything else is refused.
fn read_target_checked(blocks: &[&syn::Block]) -> Result<bool, String> {
    let c = collect(blocks);
    let consults = c.method_calls.iter().filter(|m| m.method == "does_target_match").count();
    if !c.method_calls.iter().any(|m| m.method == "send") {
        return Err("nothing is sent".into());
    }
    if consults == 0 {
        // positively recognise the weaker alternative: the value sent is bound to / is literally `Ok(<record>)`
        let sends_ok = c.locals.iter().any(|(_, init)| is_ok_of(init))
            || c.method_calls.iter().any(|m| m.method == "send" && m.args.len() == 1 && is_ok_of(&m.args[0]));
        return if sends_ok { Ok(false) } else { Err("does_target_match is not consulted and the value sent is not recognisable".into()) };
    }
    if consults > 1 {
        return Err("does_target_match is consulted more than once".into());
    }
    for i in &c.ifs {
        let (cond, negated) = match peel(&i.cond) {
            syn::Expr::Unary(u) if matches!(u.op, syn::UnOp::Not(_)) => (peel(&u.expr), true),
            other => (other, false),
        };
        if method(cond, "does_target_match").is_none() {
            continue;
        }
        let Some(eb) = else_block(i) else { return Err("the target test has no else branch".into()) };
        let (Some(tv), Some(ev)) = (block_value(&i.then_branch), block_value(eb)) else {
            return Err("the branches of the target test are not values".into());
        };
        let (yes, no) = if negated { (ev, tv) } else { (tv, ev) };
        return if is_ok_of(yes) && is_mismatch_err(no) {
            Ok(true)
        } else {
            Err(format!("unexpected answers of the target test: match => `{}`, no match => `{}`", toks(yes), toks(no)))
        };
    }
    Err("does_target_match is consulted, but not as the condition of an if/else".into())
}

/// `does_target_match`: returns the comparison used for the ops of the two registers and its source text.
/// Shape required: without a target -> true; with `is_register`: both records deserialised as SignedRegister (a failure
/// returns false), base registers equal, ops compared; otherwise `target == record`.
fn read_does_target_match(f: &syn::ImplItemFn) -> Result<(&'static str, String), String> {
    // parameter holding the fetched record
    let params: Vec<String> = f
        .sig
        .inputs
        .iter()
        .filter_map(|a| match a {
            syn::FnArg::Typed(t) => pat_ident(&t.pat),
            _ => None,
        })
        .collect();
    let [fetched_param] = params.as_slice() else { return Err("expected exactly one parameter (the fetched record)".into()) };
    // outer: if let Some([ref] t) = [&]self.target_record { .. } else { true }
    let Some(syn::Expr::If(outer)) = block_value(&f.block).map(peel) else {
        return Err("body is not a single `if let Some(target) = self.target_record {..} else {..}`".into());
    };
    if stmts(&f.block).len() != 1 {
        return Err("unexpected statements before the target test".into());
    }
    let syn::Expr::Let(l) = &*outer.cond else { return Err("outer test is not `if let`".into()) };
    let target_name = match &*l.pat {
        syn::Pat::TupleStruct(t) if t.path.segments.last().map(|s| s.ident == "Some").unwrap_or(false) && t.elems.len() == 1 => {
            pat_ident(&t.elems[0]).ok_or("unexpected pattern inside Some(..)")?
        }
        _ => return Err("outer pattern is not Some(..)".into()),
    };
    if !matches!(peel(&l.expr), syn::Expr::Field(fl) if matches!(&fl.member, syn::Member::Named(n) if n == "target_record") && toks(&*fl.base) == "self") {
        return Err(format!("outer test inspects `{}`, not self.target_record", toks(&*l.expr)));
    }
    let Some(no_target) = else_block(outer).and_then(block_value) else { return Err("no value without a target".into()) };
    if toks(no_target) != "true" {
        return Err(format!("without a target the answer is `{}`, not true", toks(no_target)));
    }
    // inner: if self.is_register { .. } else { target == record }
    let inner_stmts = stmts(&outer.then_branch);
    let [syn::Stmt::Expr(inner, None)] = inner_stmts.as_slice() else { return Err("expected a single `if self.is_register` inside".into()) };
    let syn::Expr::If(inner) = peel(inner) else { return Err("expected `if self.is_register`".into()) };
    if toks(&*inner.cond) != "self.is_register" {
        return Err(format!("inner test is `{}`, not self.is_register", toks(&*inner.cond)));
    }
    let Some(plain) = else_block(inner).and_then(block_value) else { return Err("no plain-record branch".into()) };
    let plain_ok = match peel(plain) {
        syn::Expr::Binary(b) if matches!(b.op, syn::BinOp::Eq(_)) => {
            let (a, c) = (ident_of(&b.left), ident_of(&b.right));
            (a.as_deref() == Some(target_name.as_str()) && c.as_deref() == Some(fetched_param.as_str()))
                || (c.as_deref() == Some(target_name.as_str()) && a.as_deref() == Some(fetched_param.as_str()))
        }
        _ => false,
    };
    if !plain_ok {
        return Err(format!("plain-record branch is `{}`, not `target == record`", toks(plain)));
    }
    // register branch: two deserialisations classified by their argument, then the comparison
    let mut target_reg = None;
    let mut fetched_reg = None;
    let reg_stmts = stmts(&inner.then_branch);
    let Some((last, lets)) = reg_stmts.split_last() else { return Err("empty register branch".into()) };
    for st in lets {
        let syn::Stmt::Local(loc) = st else {
            // e.g. a binding used only by logs
            return Err(format!("unexpected statement in the register branch: `{}`", toks(*st)));
        };
        let Some(init) = loc.init.as_ref() else { return Err("binding without value in the register branch".into()) };
        // find the deserialisation call and what happens on failure
        let (call, fail_returns_false, name) = match (&loc.pat, peel(&init.expr), init.diverge.as_ref()) {
            // let x = match try_deserialize_record::<SignedRegister>(a) { Ok(r) => r, Err(..) => { ..; return false; } };
            (p, syn::Expr::Match(m), None) => {
                let Some(n) = pat_ident(p) else { return Err("unexpected binding pattern in the register branch".into()) };
                let mut ok_passes = false;
                let mut err_false = false;
                for a in &m.arms {
                    let pt = toks(&a.pat);
                    if pt.starts_with("Ok(") {
                        let inner_name = pt.trim_start_matches("Ok(").trim_end_matches(')').to_string();
                        ok_passes = ident_of(&a.body).as_deref() == Some(inner_name.as_str());
                    } else if pt.starts_with("Err(") {
                        err_false = returns_false(&a.body);
                    } else {
                        return Err(format!("unexpected arm `{pt}` in a deserialisation"));
                    }
                }
                if m.arms.len() != 2 || !ok_passes {
                    if call_named(&m.expr, "try_deserialize_record").is_some() {
                        return Err("deserialisation match is not `Ok(r) => r, Err(..) => return false`".into());
                    }
                    // a binding that has nothing to do with the comparison (e.g. for logging): it must not shadow anything we use
                    continue;
                }
                (&*m.expr, err_false, n)
            }
            // let Ok(x) = try_deserialize_record::<SignedRegister>(a) else { ..; return false };
            (syn::Pat::TupleStruct(t), e, Some((_, div))) if t.path.segments.last().map(|s| s.ident == "Ok").unwrap_or(false) && t.elems.len() == 1 => {
                let Some(n) = pat_ident(&t.elems[0]) else { return Err("unexpected pattern inside Ok(..)".into()) };
                (e, returns_false(div), n)
            }
            (p, e, None) if call_named(e, "try_deserialize_record").is_none() => {
                // unrelated binding (e.g. a pretty key for logs); refuse if it rebinds one of our names
                if let Some(n) = pat_ident(p) {
                    if n == target_name || n == *fetched_param {
                        return Err(format!("`{n}` is rebound in the register branch"));
                    }
                }
                continue;
            }
            _ => return Err(format!("unexpected binding in the register branch: `{}`", toks(*st))),
        };
        let Some(c) = call_named(call, "try_deserialize_record") else {
            return Err(format!("`{name}` is not bound to try_deserialize_record::<SignedRegister>(..)"));
        };
        if !toks(&*c.func).contains("SignedRegister") || c.args.len() != 1 {
            return Err("records are not deserialised as SignedRegister".into());
        }
        if !fail_returns_false {
            return Err(format!("a failed deserialisation of `{}` does not `return false`", toks(&c.args[0])));
        }
        match ident_of(&c.args[0]) {
            Some(a) if a == *fetched_param => fetched_reg = Some(name),
            Some(a) if a == target_name => target_reg = Some(name),
            _ => return Err(format!("deserialisation of `{}`, which is neither the fetched nor the target record", toks(&c.args[0]))),
        }
    }
    let (Some(t), Some(fr)) = (target_reg, fetched_reg) else { return Err("both the fetched and the target record must be deserialised".into()) };
    let syn::Stmt::Expr(cmp, None) = last else { return Err("register branch does not end in a comparison".into()) };
    let syn::Expr::Binary(and) = peel(cmp) else { return Err("register branch is not `base == base && ops <cmp> ops`".into()) };
    if !matches!(and.op, syn::BinOp::And(_)) {
        return Err("register branch is not a conjunction".into());
    }
    // which role does `x.<getter>()` refer to
    let role = |e: &syn::Expr, getter: &str| -> Option<char> {
        let m = method(e, getter)?;
        if !m.args.is_empty() {
            return None;
        }
        let r = ident_of(&m.receiver)?;
        if r == t {
            Some('t')
        } else if r == fr {
            Some('f')
        } else {
            None
        }
    };
    let is_base_eq = |e: &syn::Expr| -> bool {
        match peel(e) {
            syn::Expr::Binary(b) if matches!(b.op, syn::BinOp::Eq(_)) => {
                matches!((role(&b.left, "base_register"), role(&b.right, "base_register")), (Some('t'), Some('f')) | (Some('f'), Some('t')))
            }
            _ => false,
        }
    };
    let ops_cmp = |e: &syn::Expr| -> Option<&'static str> {
        match peel(e) {
            syn::Expr::Binary(b) if matches!(b.op, syn::BinOp::Eq(_)) => {
                match (role(&b.left, "ops"), role(&b.right, "ops")) {
                    (Some('t'), Some('f')) | (Some('f'), Some('t')) => Some("eq"),
                    _ => None,
                }
            }
            syn::Expr::MethodCall(m) if (m.method == "is_subset" || m.method == "is_superset") && m.args.len() == 1 => {
                let (a, b) = (role(&m.receiver, "ops")?, role(&m.args[0], "ops")?);
                let (small, big) = if m.method == "is_subset" { (a, b) } else { (b, a) };
                match (small, big) {
                    ('t', 'f') => Some("targetSubsetOfFetched"),
                    ('f', 't') => Some("fetchedSubsetOfTarget"),
                    _ => None,
                }
            }
            _ => None,
        }
    };
    let (l, r) = (&*and.left, &*and.right);
    let (cmp_expr, v) = if is_base_eq(l) {
        (r, ops_cmp(r))
    } else if is_base_eq(r) {
        (l, ops_cmp(l))
    } else {
        return Err("the base registers are not compared for equality".into());
    };
    match v {
        Some(v) => Ok((v, toks(cmp_expr))),
        None => Err(format!("unknown comparison of the register ops: `{}`", toks(cmp_expr))),
    }
}

/// a block/expression that (after logging) returns false
fn returns_false_expr(e: &syn::Expr) -> bool {
    match peel(e) {
        syn::Expr::Return(r) => r.expr.as_ref().map(|v| toks(&**v) == "false").unwrap_or(false),
        syn::Expr::Block(b) => returns_false_block(&b.block),
        _ => false,
    }
}
fn returns_false_block(b: &syn::Block) -> bool {
    match stmts(b).last() {
        Some(syn::Stmt::Expr(e, _)) => returns_false_expr(e),
        _ => false,
    }
}
fn returns_false(e: &syn::Expr) -> bool {
    returns_false_expr(e)
}

// ---------------------------------------------------------------------------------------------------------
// the loops that answer the callers of a query (kad.rs) and the visiting order / scratchpad guard of
// handle_split_record_error (lib.rs)
// ---------------------------------------------------------------------------------------------------------

#[derive(Default)]
struct ForLoops<'a>(Vec<&'a syn::ExprForLoop>);
impl<'a> syn::visit::Visit<'a> for ForLoops<'a> {
    fn visit_expr_for_loop(&mut self, f: &'a syn::ExprForLoop) {
        self.0.push(f);
        syn::visit::visit_expr_for_loop(self, f);
    }
    fn visit_macro(&mut self, _m: &'a syn::Macro) {}
}

/// early exits inside an expression tree: `?`, `return`, `break`
#[derive(Default)]
struct Exits {
    tries: usize,
    returns: usize,
    breaks: usize,
}
impl<'a> syn::visit::Visit<'a> for Exits {
    fn visit_expr_try(&mut self, t: &'a syn::ExprTry) {
        self.tries += 1;
        syn::visit::visit_expr_try(self, t);
    }
    fn visit_expr_return(&mut self, r: &'a syn::ExprReturn) {
        self.returns += 1;
        syn::visit::visit_expr_return(self, r);
    }
    fn visit_expr_break(&mut self, b: &'a syn::ExprBreak) {
        self.breaks += 1;
        syn::visit::visit_expr_break(self, b);
    }
    fn visit_expr_closure(&mut self, _c: &'a syn::ExprClosure) {}
    fn visit_macro(&mut self, _m: &'a syn::Macro) {}
}

/// `true`: every `for <sender> in <senders>` loop of the GetRecord handlers that calls `<sender>.send(..)` runs to its
/// end whatever a `send` returns (no `?`, `return` or `break` inside the loop), so every waiting caller is served;
/// `false`: every such loop leaves through `?` on the result of `send` (the first dropped receiver ends the loop and the
/// senders behind it are dropped unanswered); a mixture or any other way of answering the senders is refused.
fn read_send_serves_all(blocks: &[&syn::Block]) -> Result<bool, String> {
    use syn::visit::Visit;
    let mut fl = ForLoops::default();
    for b in blocks {
        fl.visit_block(b);
    }
    let mut verdicts = vec![];
    for f in &fl.0 {
        let Some(var) = pat_ident(&f.pat) else { continue };
        let c = collect(&[&f.body]);
        let sends: Vec<&&syn::ExprMethodCall> = c.method_calls.iter().filter(|m| m.method == "send" && ident_of(&m.receiver).as_deref() == Some(var.as_str())).collect();
        if sends.is_empty() {
            continue;
        }
        if sends.len() > 1 {
            return Err(format!("a sender loop sends more than once per `{var}`"));
        }
        let mut ex = Exits::default();
        ex.visit_block(&f.body);
        if ex.returns > 0 || ex.breaks > 0 {
            return Err("a sender loop is left through `return`/`break`".into());
        }
        match ex.tries {
            0 => verdicts.push(true),
            1 => {
                // the `?` must be the one applied to the result of the send
                let t = toks(&f.body);
                if !(t.contains(&format!("{var}.send(")) && t.contains("InternalMsgChannelDropped)?")) {
                    return Err("a sender loop uses `?` on something that is not the result of `send`".into());
                }
                verdicts.push(false)
            }
            _ => return Err("a sender loop uses `?` more than once".into()),
        }
    }
    // every `.send(..)` of the handlers must sit in one of the loops recognised above
    let all_sends = collect(blocks).method_calls.iter().filter(|m| m.method == "send").count();
    if verdicts.is_empty() {
        return Err("no `for sender in senders { sender.send(..) }` loop found".into());
    }
    if all_sends != verdicts.len() {
        return Err(format!("{all_sends} `.send(..)` calls but {} recognised sender loops", verdicts.len()));
    }
    if verdicts.iter().all(|v| *v) {
        Ok(true)
    } else if verdicts.iter().all(|v| !*v) {
        Ok(false)
    } else {
        Err("some sender loops stop at the first dropped receiver and some do not".into())
    }
}

/// the `for` loop of `handle_split_record_error` that visits the versions (its body reads the `RecordHeader`)
fn version_loop<'a>(f: &'a syn::ImplItemFn) -> Result<&'a syn::ExprForLoop, String> {
    use syn::visit::Visit;
    let mut fl = ForLoops::default();
    fl.visit_block(&f.block);
    let hits: Vec<&&syn::ExprForLoop> = fl.0.iter().filter(|l| calls_in_block(&l.body).paths.iter().any(|p| p.ends_with("RecordHeader::from_record"))).collect();
    match hits.as_slice() {
        [l] => Ok(**l),
        _ => Err(format!("expected one loop over the versions (reading RecordHeader::from_record), found {}", hits.len())),
    }
}

/// `true`: the versions are visited in ascending order of the map key (the content hash):
///   `let mut v: Vec<_> = <map>.iter().collect(); v.sort_by_key(|(k, _)| **k); for (_, (record, _)) in v`
/// `false`: in the map's own order, `for (record, _) in <map>.values()`; anything else is refused.
fn read_split_visit_order(f: &syn::ImplItemFn) -> Result<bool, String> {
    let map = f
        .sig
        .inputs
        .iter()
        .find_map(|a| match a {
            syn::FnArg::Typed(t) if toks(&*t.ty).contains("HashMap<XorName,(Record,HashSet<PeerId>)>") => pat_ident(&t.pat),
            _ => None,
        })
        .ok_or("no result-map parameter of type HashMap<XorName,(Record,HashSet<PeerId>)>")?;
    let lp = version_loop(f)?;
    if let Some(m) = method(&lp.expr, "values") {
        return if ident_of(&m.receiver).as_deref() == Some(map.as_str()) && m.args.is_empty() && toks(&*lp.pat) == "(record,_)" {
            Ok(false)
        } else {
            Err(format!("the versions are visited through `{}`", toks(&*lp.expr)))
        };
    }
    let Some(v) = ident_of(&lp.expr) else { return Err(format!("the versions are visited through `{}`", toks(&*lp.expr))) };
    if toks(&*lp.pat) != "(_,(record,_))" {
        return Err(format!("unexpected loop pattern `{}` over `{v}`", toks(&*lp.pat)));
    }
    let c = collect(&[&f.block]);
    let inits: Vec<&(String, &syn::Expr)> = c.locals.iter().filter(|(n, _)| *n == v).collect();
    let [(_, init)] = inits.as_slice() else { return Err(format!("`{v}` is not bound exactly once")) };
    if toks(*init) != format!("{map}.iter().collect()") {
        return Err(format!("`{v}` is bound to `{}`, not to `{map}.iter().collect()`", toks(*init)));
    }
    // every method call on `v` between its binding and the loop: exactly one sort by the key
    let on_v: Vec<&&syn::ExprMethodCall> = c.method_calls.iter().filter(|m| ident_of(&m.receiver).as_deref() == Some(v.as_str())).collect();
    let [s] = on_v.as_slice() else { return Err(format!("expected exactly one method call on `{v}` (the sort), found {}", on_v.len())) };
    if !(s.method == "sort_by_key" || s.method == "sort_unstable_by_key") || s.args.len() != 1 {
        return Err(format!("`{v}` is not sorted with sort_by_key: `{}`", toks(**s)));
    }
    let syn::Expr::Closure(cl) = peel(&s.args[0]) else { return Err("the sort key is not a closure".into()) };
    let key_name = match cl.inputs.first() {
        Some(syn::Pat::Tuple(t)) if cl.inputs.len() == 1 && t.elems.len() == 2 && matches!(&t.elems[1], syn::Pat::Wild(_)) => pat_ident(&t.elems[0]),
        _ => None,
    }
    .ok_or("the sort closure does not take `(key, _)`")?;
    if toks(&*cl.body) != format!("**{key_name}") {
        return Err(format!("the sort key is `{}`, not the map key", toks(&*cl.body)));
    }
    Ok(true)
}

/// The split branch of `accumulate_get_record_found` (a version reached the quorum while the map holds several).
/// `true`: the transaction union is sent only when EVERY version decoded as transactions: a `let mut <flag> = true`
/// ahead of the loop over the versions, `Err(_) => { <flag> = false; }` in the loop's match on
/// `get_transactions_from_record(..)`, and the merged record is built under `if <flag> && !<set>.is_empty()`;
/// `false`: the shape before that (`Err(_) => { continue; }`, `if !<set>.is_empty()`): versions that are no transactions
/// are silently left out; anything else is refused.
fn read_acc_merge_needs_all_tx(blocks: &[&syn::Block]) -> Result<bool, String> {
    use syn::visit::Visit;
    let mut fl = ForLoops::default();
    for b in blocks {
        fl.visit_block(b);
    }
    let loops: Vec<&&syn::ExprForLoop> = fl.0.iter().filter(|l| calls_in_block(&l.body).paths.iter().any(|p| p.ends_with("get_transactions_from_record"))).collect();
    let [lp] = loops.as_slice() else { return Err(format!("expected one loop over the versions calling get_transactions_from_record, found {}", loops.len())) };
    if !toks(&*lp.expr).ends_with(".values()") {
        return Err(format!("the split branch visits the versions through `{}`", toks(&*lp.expr)));
    }
    let body = stmts(&lp.body);
    let [syn::Stmt::Expr(e, _)] = body.as_slice() else { return Err("the loop over the versions is not a single match".into()) };
    let syn::Expr::Match(m) = peel(e) else { return Err("the loop over the versions is not a single match".into()) };
    if call_named(&m.expr, "get_transactions_from_record").is_none() || m.arms.len() != 2 {
        return Err("the loop over the versions does not match on get_transactions_from_record(..) with two arms".into());
    }
    let mut set_name = None;
    let mut err_body = None;
    for a in &m.arms {
        let p = toks(&a.pat);
        if p.starts_with("Ok(") {
            let c = match &*a.body {
                syn::Expr::Block(b) => collect(&[&b.block]),
                _ => return Err("the Ok arm of the version loop is not a block".into()),
            };
            let ext: Vec<&&syn::ExprMethodCall> = c.method_calls.iter().filter(|mc| mc.method == "extend").collect();
            let [x] = ext.as_slice() else { return Err("the Ok arm of the version loop does not `extend` one set".into()) };
            set_name = ident_of(&x.receiver);
        } else if p == "Err(_)" {
            err_body = Some(toks(&*a.body));
        } else {
            return Err(format!("unexpected arm `{p}` in the version loop"));
        }
    }
    let (Some(set), Some(err_body)) = (set_name, err_body) else { return Err("the version loop lacks an Ok(..)/Err(_) arm".into()) };
    // the `if` guarding the merged record (its then-branch serialises the accumulated transactions)
    let c = collect(blocks);
    let guards: Vec<&&syn::ExprIf> = c
        .ifs
        .iter()
        .filter(|i| toks(&*i.cond).contains(&format!("{set}.is_empty()")) && calls_in_block(&i.then_branch).paths.iter().any(|p| p.ends_with("try_serialize_record")))
        .collect();
    let [g] = guards.as_slice() else { return Err(format!("expected one `if` guarding the merged transaction record, found {}", guards.len())) };
    let cond = toks(&*g.cond);
    let nonempty = format!("!{set}.is_empty()");
    let sends_split_otherwise = else_block(g).map(|b| toks(b).contains("SplitRecord")).unwrap_or(false);
    if !sends_split_otherwise {
        return Err("the else branch of the merged-transactions test does not answer SplitRecord".into());
    }
    let all = blocks.iter().map(|b| toks(*b)).collect::<Vec<_>>().join(" ");
    if err_body == "{continue;}" || err_body == "continue" || err_body == "{}" {
        return if cond == nonempty { Ok(false) } else { Err(format!("versions that are no transactions are skipped, but the merged record is guarded by `{cond}`")) };
    }
    // `{ <flag> = false; }`
    let Some(flag) = err_body.strip_prefix('{').and_then(|t| t.strip_suffix("=false;}")).map(|s| s.to_string()) else {
        return Err(format!("unexpected Err(_) arm `{err_body}` in the version loop"));
    };
    if flag.is_empty() || !flag.chars().all(|ch| ch.is_alphanumeric() || ch == '_') {
        return Err(format!("unexpected Err(_) arm `{err_body}` in the version loop"));
    }
    let inits: Vec<&(String, &syn::Expr)> = c.locals.iter().filter(|(n, _)| *n == flag).collect();
    let init_true = matches!(inits.as_slice(), [(_, i)] if toks(*i) == "true");
    let assignments = all.matches(&format!("{flag}=")).count() - all.matches(&format!("{flag}==")).count();
    if !init_true || assignments != 2 {
        return Err(format!("`{flag}` is not `let mut {flag} = true` assigned `false` exactly once"));
    }
    if cond == format!("{flag}&&{nonempty}") || cond == format!("{nonempty}&&{flag}") {
        Ok(true)
    } else {
        Err(format!("the merged record is guarded by `{cond}`, not by `{flag} && {nonempty}`"))
    }
}

/// usages of the identifier `key` and of address-like method calls outside macros
#[derive(Default)]
struct KeyMentions(usize);
impl<'a> syn::visit::Visit<'a> for KeyMentions {
    fn visit_expr_path(&mut self, p: &'a syn::ExprPath) {
        if p.path.is_ident("key") {
            self.0 += 1;
        }
    }
    fn visit_expr_method_call(&mut self, m: &'a syn::ExprMethodCall) {
        if ["address", "to_record_key", "network_address", "owner"].contains(&m.method.to_string().as_str()) {
            self.0 += 1;
        }
        syn::visit::visit_expr_method_call(self, m);
    }
    fn visit_macro(&mut self, _m: &'a syn::Macro) {}
}

/// the block of the `RecordKind::Register => { .. }` arm of `handle_split_record_error`
struct RegArm<'a>(Vec<&'a syn::Block>);
impl<'a> syn::visit::Visit<'a> for RegArm<'a> {
    fn visit_arm(&mut self, a: &'a syn::Arm) {
        if toks(&a.pat) == "RecordKind::Register" {
            if let syn::Expr::Block(b) = &*a.body {
                self.0.push(&b.block);
            }
        }
        syn::visit::visit_arm(self, a);
    }
}

/// `true`: the `Register` arm of `handle_split_record_error` skips (`continue`) a register whose own address does not map
/// to the record key being read — `if NetworkAddress::from_register_address(*register.address()).to_record_key() != *key`
/// after the deserialisation and ahead of `verify()` / `collected_registers.push`; `false`: the arm as it was (deserialise,
/// `match register.verify() { Ok(_) => push, Err(_) => continue }`, the key mentioned nowhere); anything else is refused.
fn read_split_reg_checks_key(f: &syn::ImplItemFn) -> Result<bool, String> {
    use syn::visit::Visit;
    if !f.sig.inputs.iter().any(|a| toks(a) == "key:&RecordKey") {
        return Err("no `key: &RecordKey` parameter".into());
    }
    let mut v = RegArm(vec![]);
    v.visit_block(&f.block);
    let [arm] = v.0.as_slice() else { return Err(format!("{} `RecordKind::Register` arms with a block body", v.0.len())) };
    let st = stmts(arm);
    let texts: Vec<String> = st.iter().map(|s| toks(*s)).collect();
    let ends_with_continue = |b: &syn::Block| matches!(stmts(b).last(), Some(syn::Stmt::Expr(syn::Expr::Continue(c), _)) if c.label.is_none());
    let is_reg_key = |side: &str| side.contains("register") && side.ends_with(".to_record_key()") && side.contains("from_register_address(") && side.contains(".address()");
    let is_req_key = |side: &str| side == "*key" || side == "key" || side == "&*key" || side == "key.clone()";
    let mut key_ifs = vec![];
    for (i, s) in st.iter().enumerate() {
        if let syn::Stmt::Expr(syn::Expr::If(e), _) = s {
            let c = toks(&*e.cond);
            if !c.contains("to_record_key") {
                continue;
            }
            let sides: Vec<&str> = c.split("!=").collect();
            let ok = sides.len() == 2
                && ((is_reg_key(sides[0]) && is_req_key(sides[1])) || (is_reg_key(sides[1]) && is_req_key(sides[0])))
                && !c.contains("||")
                && !c.contains("&&")
                && e.else_branch.is_none()
                && ends_with_continue(&e.then_branch)
                && !toks(&e.then_branch).contains("collected_registers");
            if !ok {
                return Err(format!("register arm compares a record key in an unknown way: `{c}`"));
            }
            key_ifs.push(i);
        }
    }
    let deser = texts.iter().position(|t| t.starts_with("letOk(register)=try_deserialize_record::<SignedRegister>(record)else{") && t.contains("continue"));
    let Some(deser) = deser else { return Err("register arm does not deserialise `register` with let-else-continue".into()) };
    let first_use = texts.iter().position(|t| t.contains("collected_registers.push(") || t.contains(".verify()"));
    let Some(first_use) = first_use else { return Err("register arm never verifies / collects a register".into()) };
    match key_ifs.as_slice() {
        [i] if deser < *i && *i < first_use => Ok(true),
        [] => {
            let old_shape = texts.len() == 2 && deser == 0 && texts[1].starts_with("matchregister.verify(){Ok(_)=>{collected_registers.push(register);}Err(_)=>{");
            let mut km = KeyMentions::default();
            km.visit_block(arm);
            if old_shape && km.0 == 0 {
                Ok(false)
            } else {
                Err("register arm is neither the known shape without an address check nor one with a recognised `!= *key` check".into())
            }
        }
        _ => Err("the record-key check of the register arm is misplaced or repeated".into()),
    }
}

pub fn generate(repo: &PathBuf) -> Result<String, String> {
    let proto = parse_file(&repo.join("ant-protocol/src/lib.rs"))?;
    let cgs = const_value(&proto, "CLOSE_GROUP_SIZE")?;

    let lib = parse_file(&repo.join("ant-networking/src/lib.rs"))?;
    let maj = free_fn(&lib, "close_group_majority")?;
    let maj_expr = expr(tail_expr(&maj.block)?, None).map_err(|e| format!("close_group_majority: {e}"))?;

    // get_quorum_value: `match quorum { Quorum::X => e, ... }`, all four variants exactly once
    let gq = free_fn(&lib, "get_quorum_value")?;
    let m = match tail_expr(&gq.block).map_err(|e| format!("get_quorum_value: {e}"))? {
        syn::Expr::Match(m) => m,
        _ => return Err("get_quorum_value: body is not a single match".into()),
    };
    if toks(&m.expr) != "quorum" {
        return Err(format!("get_quorum_value: matches on {} instead of the argument", toks(&m.expr)));
    }
    let mut arms: Vec<(String, String)> = vec![];
    for a in &m.arms {
        if a.guard.is_some() {
            return Err("get_quorum_value: guarded arm".into());
        }
        let (variant, bound) = match &a.pat {
            syn::Pat::Path(p) => (p.path.segments.last().map(|s| s.ident.to_string()).unwrap_or_default(), None),
            syn::Pat::TupleStruct(t) if t.elems.len() == 1 => {
                let b = match &t.elems[0] {
                    syn::Pat::Ident(i) => i.ident.to_string(),
                    _ => return Err("get_quorum_value: unexpected binding pattern".into()),
                };
                (t.path.segments.last().map(|s| s.ident.to_string()).unwrap_or_default(), Some(b))
            }
            other => return Err(format!("get_quorum_value: unexpected pattern {}", toks(other))),
        };
        let e = expr(&a.body, bound.as_deref()).map_err(|e| format!("get_quorum_value arm {variant}: {e}"))?;
        arms.push((variant, e));
    }
    let mut want = vec!["All", "Majority", "N", "One"];
    let mut have: Vec<&str> = arms.iter().map(|(v, _)| v.as_str()).collect();
    have.sort();
    want.sort();
    if have != want {
        return Err(format!("get_quorum_value: arms {have:?}, expected exactly {want:?}"));
    }

    // driver.rs: type GetRecordResultMap = HashMap<XorName, (Record, HashSet<PeerId>)>
    let drv = parse_file(&repo.join("ant-networking/src/driver.rs"))?;
    let mut alias = None;
    for it in &drv.items {
        if let syn::Item::Type(t) = it {
            if t.ident == "GetRecordResultMap" {
                alias = Some(toks(&*t.ty));
            }
        }
    }
    let alias = alias.ok_or("driver.rs: type GetRecordResultMap not found")?;
    let responders_set = if alias == "HashMap<XorName,(Record,HashSet<PeerId>)>" {
        true
    } else if alias == "HashMap<XorName,(Record,Vec<PeerId>)>" {
        false
    } else {
        return Err(format!("driver.rs: unexpected GetRecordResultMap = {alias}"));
    };

    // event/kad.rs: the readers below work on the syntax tree, look through private same-file helpers, classify
    // locals by what they are bound to (never by name), accept both directions of a comparison and skip log macros.
    let kadf = parse_file(&repo.join("ant-networking/src/event/kad.rs"))?;
    let acc = impl_fn(&kadf, "SwarmDriver", None, "accumulate_get_record_found")?;
    let acc_blocks = with_private_helpers(&kadf, &acc.block, &["send_record_after_checking_target"]);
    let threshold_ge = read_threshold(&acc_blocks).map_err(|e| format!("accumulate_get_record_found: {e}"))?;
    read_single_version_branch(&acc_blocks).map_err(|e| format!("accumulate_get_record_found: {e}"))?;
    let found_checks_key = read_found_checks_key(acc, &acc_blocks).map_err(|e| format!("accumulate_get_record_found: {e}"))?;
    let acc_merge_needs_all_tx = read_acc_merge_needs_all_tx(&acc_blocks).map_err(|e| format!("accumulate_get_record_found: {e}"))?;
    let sender_fn = impl_fn(&kadf, "SwarmDriver", None, "send_record_after_checking_target")?;
    let send_blocks = with_private_helpers(&kadf, &sender_fn.block, &[]);
    let target_checked = read_target_checked(&send_blocks).map_err(|e| format!("send_record_after_checking_target: {e}"))?;
    // the loops that answer the callers, in the three handlers and every private helper they reach
    let fin = impl_fn(&kadf, "SwarmDriver", None, "handle_get_record_finished")?;
    let errh = impl_fn(&kadf, "SwarmDriver", None, "handle_get_record_error")?;
    let mut answer_blocks: Vec<&syn::Block> = vec![];
    for b in [&acc.block, &fin.block, &errh.block] {
        for h in with_private_helpers(&kadf, b, &[]) {
            if !answer_blocks.iter().any(|x| std::ptr::eq(*x, h)) {
                answer_blocks.push(h);
            }
        }
    }
    let send_serves_all = read_send_serves_all(&answer_blocks).map_err(|e| format!("GetRecord handlers: {e}"))?;

    // lib.rs Network::handle_split_record_error
    let hsre = impl_fn(&lib, "Network", None, "handle_split_record_error")?;
    let split_key_order = read_split_visit_order(hsre).map_err(|e| format!("handle_split_record_error: {e}"))?;
    let split_reg_checks_key = read_split_reg_checks_key(hsre).map_err(|e| format!("handle_split_record_error: {e}"))?;

    // ant-protocol/src/storage/transaction.rs: the split branch of accumulate_get_record_found unions the versions'
    // transactions in a BTreeSet<Transaction> (uses Ord), handle_split_record_error in a HashSet (uses Eq + Hash)
    let txf = parse_file(&repo.join("ant-protocol/src/storage/transaction.rs"))?;
    let tx_ord_all_fields = read_transaction_ord(&txf).map_err(|e| format!("Transaction: {e}"))?;

    // driver.rs GetRecordCfg::does_target_match
    let dtm = impl_fn(&drv, "GetRecordCfg", None, "does_target_match")?;
    let (reg_ops_cmp, _cmp_text) = read_does_target_match(dtm).map_err(|e| format!("does_target_match: {e}"))?;

    let mut s = header("ant-protocol/src/{lib,storage/transaction}.rs, ant-networking/src/{lib,driver}.rs, ant-networking/src/event/kad.rs");
    s.push_str("namespace SafeNet.Gen.Quorum\n");
    s.push_str(&format!("/-- `CLOSE_GROUP_SIZE` -/\ndef closeGroupSize : Nat := {cgs}\n"));
    s.push_str(&format!("/-- `close_group_majority()` -/\ndef closeGroupMajority : Nat := {maj_expr}\n"));
    s.push_str("/-- `libp2p::kad::Quorum` (the `N` payload is a `NonZeroUsize`) -/\ninductive Quorum where\n  | one | majority | all | n (v : Nat)\n  deriving DecidableEq, Repr\n");
    s.push_str("/-- `get_quorum_value` -/\ndef getQuorumValue : Quorum → Nat\n");
    for (v, e) in &arms {
        let pat = match v.as_str() {
            "One" => ".one",
            "Majority" => ".majority",
            "All" => ".all",
            _ => ".n v",
        };
        s.push_str(&format!("  | {pat} => {e}\n"));
    }
    s.push_str(&format!("/-- `GetRecordResultMap` keeps the responders of a version in a `HashSet<PeerId>` ({alias}) -/\ndef respondersAreSet : Bool := {}\n", lean_bool(responders_set)));
    s.push_str(&format!("/-- accumulation completes on `responded_peers >= expected_answers` (false: strict `>`) -/\ndef thresholdIsGe : Bool := {}\n", lean_bool(threshold_ge)));
    s.push_str(&format!("/-- `send_record_after_checking_target` answers `RecordDoesNotMatch` unless `cfg.does_target_match(&record)` -/\ndef targetChecked : Bool := {}\n", lean_bool(target_checked)));
    s.push_str(&format!("/-- `accumulate_get_record_found` drops a reply whose `record.key` is not the key of the pending query, before any use of the reply (false: the key is never compared) -/\ndef foundChecksKey : Bool := {}\n", lean_bool(found_checks_key)));
    s.push_str(&format!("/-- `Transaction` derives `Ord`/`PartialOrd` (and `PartialEq`, `Eq`, `Hash`) over all of its fields owner, parents, content, outputs, signature, so a `BTreeSet<Transaction>` keeps transactions that differ only in the signature apart (false: a hand-written `Ord` that leaves the signature out) -/\ndef txOrdComparesAllFields : Bool := {}\n", lean_bool(tx_ord_all_fields)));
    s.push_str(&format!("/-- the loops that answer the callers waiting on a query serve every sender: a dropped receiver does not keep the senders behind it from their answer, `InternalMsgChannelDropped` is returned after all are served (false: `?` on the result of `send` inside the loop, the first dropped receiver ends it and the remaining senders are dropped unanswered) -/\ndef sendServesAllCallers : Bool := {}\n", lean_bool(send_serves_all)));
    s.push_str(&format!("/-- `handle_split_record_error` visits the versions in ascending order of the map key, the content hash (false: in the iteration order of the `HashMap`) -/\ndef splitVisitsInKeyOrder : Bool := {}\n", lean_bool(split_key_order)));
    s.push_str("/-- how `GetRecordCfg::does_target_match` compares the ops of the fetched register with the target's (`is_register`) -/\ninductive OpsCmp where\n  | eq | targetSubsetOfFetched | fetchedSubsetOfTarget\n  deriving DecidableEq, Repr\n");
    s.push_str(&format!("/-- `does_target_match`, register branch: base registers equal && the ops compared as named here; a record that does not deserialise never matches; without `is_register`: `target_record == record` -/\ndef regTargetOpsCmp : OpsCmp := .{reg_ops_cmp}\n"));
    // the scratchpad arm of handle_split_record_error: read by the C15 rule (two-sided; see clientread.rs)
    let split_pad_checks_key = crate::clientread::net_split_checks_pad_key(repo)?;
    s.push_str(&format!("/-- `handle_split_record_error`, `Scratchpad` arm: a scratchpad whose own address does not map to the record key being read is skipped before counters are compared -/\ndef splitPadChecksKey : Bool := {}\n", lean_bool(split_pad_checks_key)));
    s.push_str(&format!("/-- `handle_split_record_error`, `Register` arm: a register whose own address does not map to the record key being read is skipped before it is verified or collected (false: registers of any address are collected, the first one visited dictates the base) -/\ndef splitRegChecksKey : Bool := {}\n", lean_bool(split_reg_checks_key)));
    s.push_str(&format!("/-- `accumulate_get_record_found`, split branch: the transaction union is answered only when every version held decoded as transactions; a split holding a version of another kind is answered `SplitRecord` with all versions (false: versions that are no transactions are silently left out of an `Ok(union)`) -/\ndef accMergeNeedsAllTx : Bool := {}\n", lean_bool(acc_merge_needs_all_tx)));
    s.push_str("end SafeNet.Gen.Quorum\n");
    Ok(s)
}
