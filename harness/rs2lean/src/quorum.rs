//! C05: constants and the quorum table behind `pending_get_record` accumulation.
//!   ant-protocol/src/lib.rs   CLOSE_GROUP_SIZE
//!   ant-networking/src/lib.rs close_group_majority(), get_quorum_value()
//!   ant-networking/src/driver.rs  type GetRecordResultMap (responders kept in a HashSet?)
//!   ant-networking/src/event/kad.rs  the comparison that ends accumulation
use crate::util::*;
use quote::ToTokens;
use std::path::PathBuf;

fn toks<T: ToTokens>(t: &T) -> String {
    t.to_token_stream().to_string().replace(' ', "")
}

/// translate an integer expression over CLOSE_GROUP_SIZE / close_group_majority() / `v.get()` / literals
fn expr(e: &syn::Expr, bound: Option<&str>) -> Result<String, String> {
    match e {
        syn::Expr::Lit(l) => match &l.lit {
            syn::Lit::Int(i) => Ok(i.base10_digits().to_string()),
            _ => Err(format!("unsupported literal {}", toks(e))),
        },
        syn::Expr::Paren(p) => Ok(format!("({})", expr(&p.expr, bound)?)),
        syn::Expr::Path(p) => {
            let n = p.path.segments.last().map(|s| s.ident.to_string()).unwrap_or_default();
            match n.as_str() {
                "CLOSE_GROUP_SIZE" => Ok("closeGroupSize".into()),
                _ => Err(format!("unknown name {n}")),
            }
        }
        syn::Expr::Call(c) if c.args.is_empty() && toks(&c.func).ends_with("close_group_majority") => {
            Ok("closeGroupMajority".into())
        }
        syn::Expr::MethodCall(m) if m.method == "get" && m.args.is_empty() => {
            let recv = toks(&m.receiver);
            if Some(recv.as_str()) == bound {
                Ok("v".into())
            } else {
                Err(format!("`.get()` on {recv}, which is not the arm's binding"))
            }
        }
        syn::Expr::Binary(b) => {
            let op = match b.op {
                syn::BinOp::Add(_) => "+",
                syn::BinOp::Mul(_) => "*",
                syn::BinOp::Div(_) => "/",
                syn::BinOp::Sub(_) => "-",
                _ => return Err(format!("unsupported operator in {}", toks(e))),
            };
            Ok(format!("({} {op} {})", expr(&b.left, bound)?, expr(&b.right, bound)?))
        }
        _ => Err(format!("unsupported expression {}", toks(e))),
    }
}

fn tail_expr(b: &syn::Block) -> Result<&syn::Expr, String> {
    // a body made of (comments and) one tail expression
    match b.stmts.as_slice() {
        [syn::Stmt::Expr(e, None)] => Ok(e),
        _ => Err("expected a body consisting of a single tail expression".into()),
    }
}

pub fn generate(repo: &PathBuf) -> Result<String, String> {
    let proto = parse_file(&repo.join("ant-protocol/src/lib.rs"))?;
    let cgs = const_value(&proto, "CLOSE_GROUP_SIZE")?;

    let lib = parse_file(&repo.join("ant-networking/src/lib.rs"))?;
    let maj = free_fn(&lib, "close_group_majority")?;
    let maj_expr = expr(tail_expr(&maj.block)?, None).map_err(|e| format!("close_group_majority: {e}"))?;

    // get_quorum_value: `match quorum { Quorum::X => e, ... }`, all four variants exactly once
    let gq = free_fn(&lib, "get_quorum_value")?;
    let m = match tail_expr(&gq.block).map_err(|e| format!("get_quorum_value: {e}"))? {
        syn::Expr::Match(m) => m,
        _ => return Err("get_quorum_value: body is not a single match".into()),
    };
    if toks(&m.expr) != "quorum" {
        return Err(format!("get_quorum_value: matches on {} instead of the argument", toks(&m.expr)));
    }
    let mut arms: Vec<(String, String)> = vec![];
    for a in &m.arms {
        if a.guard.is_some() {
            return Err("get_quorum_value: guarded arm".into());
        }
        let (variant, bound) = match &a.pat {
            syn::Pat::Path(p) => (p.path.segments.last().map(|s| s.ident.to_string()).unwrap_or_default(), None),
            syn::Pat::TupleStruct(t) if t.elems.len() == 1 => {
                let b = match &t.elems[0] {
                    syn::Pat::Ident(i) => i.ident.to_string(),
                    _ => return Err("get_quorum_value: unexpected binding pattern".into()),
                };
                (t.path.segments.last().map(|s| s.ident.to_string()).unwrap_or_default(), Some(b))
            }
            other => return Err(format!("get_quorum_value: unexpected pattern {}", toks(other))),
        };
        let e = expr(&a.body, bound.as_deref()).map_err(|e| format!("get_quorum_value arm {variant}: {e}"))?;
        arms.push((variant, e));
    }
    let mut want = vec!["All", "Majority", "N", "One"];
    let mut have: Vec<&str> = arms.iter().map(|(v, _)| v.as_str()).collect();
    have.sort();
    want.sort();
    if have != want {
        return Err(format!("get_quorum_value: arms {have:?}, expected exactly {want:?}"));
    }

    // driver.rs: type GetRecordResultMap = HashMap<XorName, (Record, HashSet<PeerId>)>
    let drv = parse_file(&repo.join("ant-networking/src/driver.rs"))?;
    let mut alias = None;
    for it in &drv.items {
        if let syn::Item::Type(t) = it {
            if t.ident == "GetRecordResultMap" {
                alias = Some(toks(&*t.ty));
            }
        }
    }
    let alias = alias.ok_or("driver.rs: type GetRecordResultMap not found")?;
    let responders_set = if alias == "HashMap<XorName,(Record,HashSet<PeerId>)>" {
        true
    } else if alias == "HashMap<XorName,(Record,Vec<PeerId>)>" {
        false
    } else {
        return Err(format!("driver.rs: unexpected GetRecordResultMap = {alias}"));
    };

    // event/kad.rs accumulate_get_record_found: `if responded_peers >= expected_answers`, expected from get_quorum_value(&cfg.get_quorum)
    let kadf = parse_file(&repo.join("ant-networking/src/event/kad.rs"))?;
    let acc = impl_fn(&kadf, "SwarmDriver", None, "accumulate_get_record_found")?;
    let body = toks(&acc.block);
    if !body.contains("letexpected_answers=get_quorum_value(&cfg.get_quorum);") {
        return Err("accumulate_get_record_found: expected_answers is not get_quorum_value(&cfg.get_quorum)".into());
    }
    let threshold_ge = if body.contains("ifresponded_peers>=expected_answers{") {
        true
    } else if body.contains("ifresponded_peers>expected_answers{") {
        false
    } else {
        return Err("accumulate_get_record_found: completion test is not `responded_peers >= expected_answers`".into());
    };
    let single_checks_target = body.contains("ifresult_map.len()==1{Self::send_record_after_checking_target(senders,peer_record.record,&cfg)?;}");
    let sender_fn = impl_fn(&kadf, "SwarmDriver", None, "send_record_after_checking_target")?;
    let sbody = toks(&sender_fn.block);
    let target_checked = sbody.contains("ifcfg.does_target_match(&record){Ok(record)}else{Err(GetRecordError::RecordDoesNotMatch(record))}");
    if !single_checks_target {
        return Err("accumulate_get_record_found: single-version branch is not `send_record_after_checking_target(senders, peer_record.record, &cfg)`".into());
    }

    // driver.rs GetRecordCfg::does_target_match: three shapes
    //   no target                -> true
    //   is_register              -> both records deserialise as SignedRegister (else false) and
    //                               base_register() equal && ops() <cmp> ops()
    //   otherwise                -> target_record == record
    let dtm = impl_fn(&drv, "GetRecordCfg", None, "does_target_match")?;
    let d = toks(&dtm.block);
    if !d.starts_with("{ifletSome(reftarget_record)=self.target_record{ifself.is_register{") {
        return Err("does_target_match: expected `if let Some(ref target_record) = self.target_record { if self.is_register {`".into());
    }
    if !d.ends_with("}else{target_record==record}}else{true}}") {
        return Err("does_target_match: expected the non-register branch `target_record == record` and `true` without a target".into());
    }
    for (what, var, arg) in [("fetched", "fetched_register", "record"), ("target", "target_register", "target_record")] {
        let pat = format!("let{var}=matchtry_deserialize_record::<SignedRegister>({arg}){{Ok({var})=>{var},Err(err)=>{{");
        if !d.contains(&pat) {
            return Err(format!("does_target_match: expected the {what} record to be deserialised as SignedRegister with `return false` on failure"));
        }
    }
    if d.matches("returnfalse;").count() != 2 {
        return Err("does_target_match: expected exactly two `return false` (one per failed deserialisation)".into());
    }
    let base_eq = "target_register.base_register()==fetched_register.base_register()&&";
    let Some(pos) = d.find(base_eq) else {
        return Err("does_target_match: register branch does not compare `target_register.base_register() == fetched_register.base_register() &&`".into());
    };
    let tail = &d[pos + base_eq.len()..];
    let tail = tail.split("}else{target_record==record}").next().unwrap_or("");
    let reg_ops_cmp = match tail {
        "target_register.ops()==fetched_register.ops()" | "fetched_register.ops()==target_register.ops()" => "eq",
        "target_register.ops().is_subset(fetched_register.ops())" => "targetSubsetOfFetched",
        "fetched_register.ops().is_subset(target_register.ops())" => "fetchedSubsetOfTarget",
        other => return Err(format!("does_target_match: unknown comparison of the register ops: `{other}`")),
    };

    let mut s = header("ant-protocol/src/lib.rs, ant-networking/src/{lib,driver}.rs, ant-networking/src/event/kad.rs");
    s.push_str("namespace SafeNet.Gen.Quorum\n");
    s.push_str(&format!("/-- `CLOSE_GROUP_SIZE` -/\ndef closeGroupSize : Nat := {cgs}\n"));
    s.push_str(&format!("/-- `close_group_majority()` -/\ndef closeGroupMajority : Nat := {maj_expr}\n"));
    s.push_str("/-- `libp2p::kad::Quorum` (the `N` payload is a `NonZeroUsize`) -/\ninductive Quorum where\n  | one | majority | all | n (v : Nat)\n  deriving DecidableEq, Repr\n");
    s.push_str("/-- `get_quorum_value` -/\ndef getQuorumValue : Quorum → Nat\n");
    for (v, e) in &arms {
        let pat = match v.as_str() {
            "One" => ".one",
            "Majority" => ".majority",
            "All" => ".all",
            _ => ".n v",
        };
        s.push_str(&format!("  | {pat} => {e}\n"));
    }
    s.push_str(&format!("/-- `GetRecordResultMap` keeps the responders of a version in a `HashSet<PeerId>` ({alias}) -/\ndef respondersAreSet : Bool := {}\n", lean_bool(responders_set)));
    s.push_str(&format!("/-- accumulation completes on `responded_peers >= expected_answers` (false: strict `>`) -/\ndef thresholdIsGe : Bool := {}\n", lean_bool(threshold_ge)));
    s.push_str(&format!("/-- `send_record_after_checking_target` answers `RecordDoesNotMatch` unless `cfg.does_target_match(&record)` -/\ndef targetChecked : Bool := {}\n", lean_bool(target_checked)));
    s.push_str("/-- how `GetRecordCfg::does_target_match` compares the ops of the fetched register with the target's (`is_register`) -/\ninductive OpsCmp where\n  | eq | targetSubsetOfFetched | fetchedSubsetOfTarget\n  deriving DecidableEq, Repr\n");
    s.push_str(&format!("/-- `does_target_match`, register branch: base registers equal && `{tail}`; a record that does not deserialise never matches; without `is_register`: `target_record == record` -/\ndef regTargetOpsCmp : OpsCmp := .{reg_ops_cmp}\n"));
    s.push_str("end SafeNet.Gen.Quorum\n");
    Ok(s)
}
