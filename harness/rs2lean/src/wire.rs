//! ant-protocol/src/storage/{header,chunks}.rs -> Gen/Wire.lean: the RecordKind <-> u32 table in both
//! directions (from the match arms of the Serialize and Deserialize impls), RecordHeader::SIZE, the
//! slicing done by from_record / try_deserialize_record, and how Chunk (de)serialises.
use crate::util::*;
use quote::ToTokens;
use std::path::PathBuf;
use syn::visit::Visit;

fn toks<T: ToTokens>(t: &T) -> String {
    t.to_token_stream().to_string().replace(' ', "")
}

#[derive(Default)]
struct Matches {
    found: Vec<syn::ExprMatch>,
}
impl<'ast> Visit<'ast> for Matches {
    fn visit_expr_match(&mut self, m: &'ast syn::ExprMatch) {
        self.found.push(m.clone());
        syn::visit::visit_expr_match(self, m);
    }
}

fn last_ident(p: &syn::Path) -> String {
    p.segments.last().map(|s| s.ident.to_string()).unwrap_or_default()
}

fn int_lit(e: &syn::Expr) -> Option<u128> {
    if let syn::Expr::Lit(l) = e {
        if let syn::Lit::Int(i) = &l.lit {
            return i.base10_parse().ok();
        }
    }
    None
}

pub fn generate(repo: &PathBuf) -> Result<String, String> {
    let rel = "ant-protocol/src/storage/header.rs";
    let file = parse_file(&repo.join(rel))?;

    // variants in declaration order
    let mut variants: Vec<String> = vec![];
    for it in &file.items {
        if let syn::Item::Enum(e) = it {
            if e.ident == "RecordKind" {
                for v in &e.variants {
                    if !matches!(v.fields, syn::Fields::Unit) {
                        return Err(format!("RecordKind::{} carries data", v.ident));
                    }
                    variants.push(v.ident.to_string());
                }
            }
        }
    }
    if variants.is_empty() {
        return Err("enum RecordKind not found".into());
    }

    // ---- Serialize: the integer written for each kind.  Recognised shapes (anything else is a refusal):
    //   match *self|self { Self::X => <ser>.serialize_uN(k), .. }
    //   <ser>.serialize_uN(self.H())   with a private inherent `fn H(self|&self)` = match self|*self { Self::X => k, .. }
    let f = impl_fn(&file, "RecordKind", Some("Serialize"), "serialize")?;
    let ser_methods = ["serialize_u8", "serialize_u16", "serialize_u32", "serialize_u64"];
    let (ser_match, arm_is_call) = {
        let mut ms = Matches::default();
        ms.visit_block(&f.block);
        if ms.found.len() == 1 {
            (ms.found[0].clone(), true)
        } else if ms.found.is_empty() {
            // a single call `<ser>.serialize_uN(<helper call on self>)`
            let tail = match f.block.stmts.as_slice() {
                [syn::Stmt::Expr(e, None)] => e,
                _ => return Err("Serialize for RecordKind: expected a `match` or a single `serialize_uN(self.helper())` call".into()),
            };
            let helper = match tail {
                syn::Expr::MethodCall(m) if ser_methods.contains(&m.method.to_string().as_str()) && m.args.len() == 1 => match &m.args[0] {
                    syn::Expr::MethodCall(h) if h.args.is_empty() && ["self", "(*self)"].contains(&toks(&h.receiver).as_str()) => h.method.to_string(),
                    syn::Expr::Call(c) if c.args.len() == 1 && ["self", "*self"].contains(&toks(&c.args[0]).as_str()) => {
                        toks(&c.func).rsplit("::").next().unwrap_or("").to_string()
                    }
                    other => return Err(format!("Serialize for RecordKind: unexpected tag expression {}", toks(other))),
                },
                other => return Err(format!("Serialize for RecordKind: unexpected body {}", toks(other))),
            };
            let hf = impl_fn(&file, "RecordKind", None, &helper)?;
            if !matches!(hf.vis, syn::Visibility::Inherited) {
                return Err(format!("Serialize for RecordKind: helper {helper} is not private"));
            }
            let mut hm = Matches::default();
            hm.visit_block(&hf.block);
            if hm.found.len() != 1 {
                return Err(format!("RecordKind::{helper}: expected exactly one `match`"));
            }
            (hm.found[0].clone(), false)
        } else {
            return Err("Serialize for RecordKind: more than one `match`".into());
        }
    };
    if !["*self", "self"].contains(&toks(&ser_match.expr).as_str()) {
        return Err(format!("Serialize for RecordKind: the tag table matches on `{}`, not on self", toks(&ser_match.expr)));
    }
    let mut ser: Vec<(String, u128)> = vec![];
    for arm in &ser_match.arms {
        let v = match &arm.pat {
            syn::Pat::Path(p) => last_ident(&p.path),
            other => return Err(format!("Serialize for RecordKind: unexpected pattern {}", toks(other))),
        };
        if arm.guard.is_some() {
            return Err("Serialize for RecordKind: guarded arm".into());
        }
        let k = match &*arm.body {
            syn::Expr::MethodCall(m) if arm_is_call && ser_methods.contains(&m.method.to_string().as_str()) && m.args.len() == 1 => int_lit(&m.args[0]),
            e if !arm_is_call => int_lit(e),
            _ => None,
        }
        .ok_or_else(|| format!("Serialize for RecordKind::{v}: unexpected arm body {}", toks(&arm.body)))?;
        ser.push((v, k));
    }
    for v in &variants {
        if ser.iter().filter(|(n, _)| n == v).count() != 1 {
            return Err(format!("Serialize for RecordKind: variant {v} not covered exactly once"));
        }
    }

    // ---- Deserialize: `let N = uT::deserialize(<de>)?;` then
    //   match N { k => Ok(Self::X), .., _ => Err(..) }
    //   Self::H(N).ok_or_else(..) | .ok_or(..)   with a private `fn H(t) -> Option<Self>` = match t { k => Some(Self::X), .., _ => None }
    let f = impl_fn(&file, "RecordKind", Some("Deserialize"), "deserialize")?;
    let (num, int_ty) = match f.block.stmts.first() {
        Some(syn::Stmt::Local(l)) => {
            let name = toks(&l.pat);
            let init = l.init.as_ref().map(|i| toks(&i.expr)).unwrap_or_default();
            let ty = ["u8", "u16", "u32", "u64"]
                .iter()
                .find(|t| init.starts_with(&format!("{t}::deserialize(")) && init.ends_with(")?"))
                .ok_or_else(|| format!("Deserialize for RecordKind: expected `let n = uN::deserialize(..)?`, found `{init}`"))?;
            (name, *ty)
        }
        _ => return Err("Deserialize for RecordKind: expected `let n = uN::deserialize(..)?` first".into()),
    };
    let bits: u32 = int_ty[1..].parse().unwrap();
    let (de_match, some_arms) = {
        let mut ms = Matches::default();
        ms.visit_block(&f.block);
        if ms.found.len() == 1 && toks(&ms.found[0].expr) == num {
            (ms.found[0].clone(), false)
        } else if ms.found.is_empty() {
            let tail = match f.block.stmts.last() {
                Some(syn::Stmt::Expr(e, None)) => toks(e),
                _ => return Err("Deserialize for RecordKind: no tail expression".into()),
            };
            // Self::H(N).ok_or_else(|| ..)  /  Self::H(N).ok_or(..)
            let rest = tail.strip_prefix("Self::").or_else(|| tail.strip_prefix("RecordKind::")).ok_or_else(|| format!("Deserialize for RecordKind: unexpected tail {tail}"))?;
            let (helper, after) = rest.split_once('(').ok_or("Deserialize for RecordKind: unexpected tail")?;
            if !(after.starts_with(&format!("{num}).ok_or_else(")) || after.starts_with(&format!("{num}).ok_or("))) {
                return Err(format!("Deserialize for RecordKind: unexpected tail {tail}"));
            }
            let hf = impl_fn(&file, "RecordKind", None, helper)?;
            if !matches!(hf.vis, syn::Visibility::Inherited) {
                return Err(format!("Deserialize for RecordKind: helper {helper} is not private"));
            }
            let param = hf.sig.inputs.iter().filter_map(|a| if let syn::FnArg::Typed(t) = a { Some(toks(&t.pat)) } else { None }).next().unwrap_or_default();
            let mut hm = Matches::default();
            hm.visit_block(&hf.block);
            if hm.found.len() != 1 || toks(&hm.found[0].expr) != param {
                return Err(format!("RecordKind::{helper}: expected exactly one `match` on its argument"));
            }
            (hm.found[0].clone(), true)
        } else {
            return Err("Deserialize for RecordKind: expected exactly one `match` on the integer read".into());
        }
    };
    let mut de: Vec<(u128, String)> = vec![];
    let mut wild = false;
    for arm in &de_match.arms {
        if arm.guard.is_some() {
            return Err("Deserialize for RecordKind: guarded arm".into());
        }
        match &arm.pat {
            syn::Pat::Lit(l) => {
                let k = int_lit(&syn::Expr::Lit(l.clone())).ok_or("Deserialize for RecordKind: non-integer pattern")?;
                let b = toks(&arm.body);
                let v = b
                    .strip_prefix(if some_arms { "Some(Self::" } else { "Ok(Self::" })
                    .and_then(|r| r.strip_suffix(')'))
                    .ok_or_else(|| format!("Deserialize for RecordKind: unexpected arm body {b}"))?;
                if !variants.iter().any(|x| x == v) {
                    return Err(format!("Deserialize for RecordKind: unknown variant {v}"));
                }
                if wild {
                    return Err("Deserialize for RecordKind: arm after the wildcard".into());
                }
                if !de.iter().any(|(k2, _)| *k2 == k) {
                    de.push((k, v.to_string())); // first matching arm wins
                }
            }
            syn::Pat::Wild(_) => {
                let b = toks(&arm.body);
                if !(if some_arms { b == "None" } else { b.starts_with("Err(") }) {
                    return Err("Deserialize for RecordKind: wildcard arm is not an error".into());
                }
                wild = true;
            }
            other => return Err(format!("Deserialize for RecordKind: unexpected pattern {}", toks(other))),
        }
    }
    if !wild {
        return Err("Deserialize for RecordKind: no wildcard arm".into());
    }

    let size = const_value(&file, "SIZE")?;
    // from_record: 3-byte window
    let f = impl_fn(&file, "RecordHeader", None, "from_record")?;
    let b = toks(&f.block);
    if b != "{ifrecord.value.len()<RecordHeader::SIZE+1{returnErr(Error::RecordHeaderParsingFailed);}Self::try_deserialize(&record.value[..RecordHeader::SIZE+1])}" {
        return Err(format!("RecordHeader::from_record: unexpected body {b}"));
    }
    // the two other decoding entry points of RecordHeader: both must go through the real decoder
    let f = impl_fn(&file, "RecordHeader", None, "try_deserialize")?;
    let b = toks(&f.block);
    if !b.starts_with("{rmp_serde::from_slice(bytes).map_err(|err|{") || !b.ends_with("Error::RecordHeaderParsingFailed})}") {
        return Err(format!("RecordHeader::try_deserialize: unexpected body {b}"));
    }
    let f = impl_fn(&file, "RecordHeader", None, "is_record_of_type_chunk")?;
    let b = toks(&f.block);
    if b != "{letkind=Self::from_record(record)?.kind;Ok(kind==RecordKind::Chunk)}" {
        return Err(format!("RecordHeader::is_record_of_type_chunk: expected `Self::from_record(record)?.kind == RecordKind::Chunk`, found {b}"));
    }
    // every public item of header.rs is one this translator knows (a new decoding entry point must be modelled first)
    let known_fns = ["try_serialize", "try_deserialize", "from_record", "is_record_of_type_chunk"];
    for it in &file.items {
        match it {
            syn::Item::Impl(i) if i.trait_.is_none() => {
                for ii in &i.items {
                    if let syn::ImplItem::Fn(f) = ii {
                        if matches!(f.vis, syn::Visibility::Public(_)) && !known_fns.contains(&f.sig.ident.to_string().as_str()) {
                            return Err(format!("header.rs: unmodelled public fn {}::{}", toks(&i.self_ty), f.sig.ident));
                        }
                    }
                }
            }
            syn::Item::Impl(i) => {
                let tr = i.trait_.as_ref().map(|(_, p, _)| last_ident(p)).unwrap_or_default();
                if toks(&i.self_ty).contains("Record") && !["Serialize", "Deserialize", "Display"].contains(&tr.as_str()) {
                    return Err(format!("header.rs: unmodelled impl {tr} for {}", toks(&i.self_ty)));
                }
            }
            syn::Item::Fn(f) if matches!(f.vis, syn::Visibility::Public(_)) => {
                if !["try_deserialize_record", "try_serialize_record"].contains(&f.sig.ident.to_string().as_str()) {
                    return Err(format!("header.rs: unmodelled public fn {}", f.sig.ident));
                }
            }
            _ => {}
        }
    }
    let f = free_fn(&file, "try_deserialize_record")?;
    let b = toks(&f.block);
    if !b.starts_with("{letbytes=ifrecord.value.len()>RecordHeader::SIZE{&record.value[RecordHeader::SIZE..]}else{returnErr(Error::RecordParsingFailed);};rmp_serde::from_slice(bytes)") {
        return Err(format!("try_deserialize_record: unexpected body {b}"));
    }
    let f = free_fn(&file, "try_serialize_record")?;
    let b = toks(&f.block);
    if !b.starts_with("{letmutbuf=RecordHeader{kind:record_kind}.try_serialize()?.writer();data.serialize(&mutSerializer::new(&mutbuf))") {
        return Err(format!("try_serialize_record: unexpected body {b}"));
    }
    // struct RecordHeader { kind } derives Serialize/Deserialize
    let mut hdr_ok = false;
    for it in &file.items {
        if let syn::Item::Struct(s) = it {
            if s.ident == "RecordHeader" {
                let fields: Vec<String> = s.fields.iter().map(|f| f.ident.as_ref().map(|i| i.to_string()).unwrap_or_default()).collect();
                let derives = s.attrs.iter().map(|a| toks(a)).collect::<String>();
                hdr_ok = fields == ["kind"] && derives.contains("Serialize") && derives.contains("Deserialize");
            }
        }
    }
    if !hdr_ok {
        return Err("struct RecordHeader: expected one field `kind` with derived Serialize/Deserialize".into());
    }

    // chunks.rs
    let rel2 = "ant-protocol/src/storage/chunks.rs";
    let cf = parse_file(&repo.join(rel2))?;
    // typed parameter names of a fn, in order
    fn params(sig: &syn::Signature) -> Vec<String> {
        sig.inputs.iter().filter_map(|a| if let syn::FnArg::Typed(t) = a { Some(toks(&t.pat)) } else { None }).collect()
    }
    /// the `address:` initialiser of the (single) `Self { .. }` / `Chunk { .. }` literal in a block
    fn address_init(block: &syn::Block) -> Option<String> {
        struct V(Vec<String>);
        impl<'ast> Visit<'ast> for V {
            fn visit_expr_struct(&mut self, e: &'ast syn::ExprStruct) {
                let n = last_ident(&e.path);
                if n == "Self" || n == "Chunk" {
                    for f in &e.fields {
                        if toks(&f.member) == "address" {
                            self.0.push(toks(&f.expr));
                        }
                    }
                }
                syn::visit::visit_expr_struct(self, e);
            }
        }
        let mut v = V(vec![]);
        v.visit_block(block);
        if v.0.len() == 1 { v.0.pop() } else { None }
    }
    /// Some(true): the address is the content hash of `value_name`; Some(false): recognisably something else; None: unknown
    fn address_is_content_hash(file: &syn::File, block: &syn::Block, init: &str, value_name: &str, fn_params: &[String]) -> Option<bool> {
        let mentions_value = init.contains(&format!("({value_name}")) || init.contains(&format!("(&{value_name}"));
        if init.contains("XorName::from_content(") && mentions_value {
            return Some(true);
        }
        // through a private same-file helper applied to the value
        let blocks = with_private_helpers(file, block, &["new"]);
        if blocks.len() > 1 && mentions_value && calls_in_blocks(&blocks[1..]).paths.iter().any(|p| p.ends_with("XorName::from_content")) {
            return Some(true);
        }
        // known weaker alternatives: a default / zero name, or an address handed in by the caller
        if init.contains("default()") || init.contains("XorName([0") || fn_params.iter().any(|p| p != value_name && (init == *p || init.contains(&format!("({p})")))) {
            return Some(false);
        }
        None
    }

    let sf = impl_fn(&cf, "Chunk", Some("Serialize"), "serialize")?;
    let sp = params(&sf.sig);
    let b = toks(&sf.block);
    if sp.len() != 1 || b != format!("{{self.value.serialize({})}}", sp[0]) {
        return Err(format!("Serialize for Chunk: expected `self.value.serialize(<serializer>)`, found {b}"));
    }
    // Chunk::new
    let nf = impl_fn(&cf, "Chunk", None, "new")?;
    let np = params(&nf.sig);
    if np.len() != 1 {
        return Err("Chunk::new: expected one parameter (the value)".into());
    }
    let init = address_init(&nf.block).ok_or("Chunk::new: expected one struct literal with an `address:` field")?;
    let new_hashes = address_is_content_hash(&cf, &nf.block, &init, &np[0], &np)
        .ok_or_else(|| format!("Chunk::new: cannot tell whether `address: {init}` is the content hash of the value"))?;
    // Deserialize for Chunk
    let df = impl_fn(&cf, "Chunk", Some("Deserialize"), "deserialize")?;
    let dp = params(&df.sig);
    let b = toks(&df.block);
    let de_recomputes = if dp.len() != 1 {
        return Err("Deserialize for Chunk: expected one parameter".into());
    } else if b == format!("{{Deserialize::deserialize({}).map(Self::new)}}", dp[0]) || b == format!("{{Deserialize::deserialize({}).map(Chunk::new)}}", dp[0]) {
        true
    } else {
        // `let V = <..>::deserialize(d)?;` then `Ok(Self::new(V))`, or a struct literal whose address we can classify
        let v = match df.block.stmts.first() {
            Some(syn::Stmt::Local(l)) if l.init.as_ref().map(|i| { let t = toks(&i.expr); t.contains("deserialize(") && t.ends_with(&format!("({})?", dp[0])) }).unwrap_or(false) => toks(&l.pat),
            _ => return Err(format!("Deserialize for Chunk: unexpected body {b}")),
        };
        let tail = match df.block.stmts.last() {
            Some(syn::Stmt::Expr(e, None)) => toks(e),
            _ => return Err(format!("Deserialize for Chunk: unexpected body {b}")),
        };
        if df.block.stmts.len() == 2 && (tail == format!("Ok(Self::new({v}))") || tail == format!("Ok(Chunk::new({v}))")) {
            true
        } else if let Some(init) = address_init(&df.block) {
            address_is_content_hash(&cf, &df.block, &init, &v, &dp)
                .ok_or_else(|| format!("Deserialize for Chunk: cannot tell whether `address: {init}` is the content hash of the value"))?
        } else {
            return Err(format!("Deserialize for Chunk: unexpected body {b}"));
        }
    };

    let mut s = header(&format!("{rel} and {rel2}"));
    s.push_str("namespace SafeNet.Gen.Wire\n");
    s.push_str("/-- `enum RecordKind`, variants in declaration order -/\ninductive RecordKind\n");
    for v in &variants {
        s.push_str(&format!("  | {v}\n"));
    }
    s.push_str("  deriving DecidableEq, Repr\n");
    s.push_str(&format!(
        "def RecordKind.all : List RecordKind := [{}]\n",
        variants.iter().map(|v| format!(".{v}")).collect::<Vec<_>>().join(", ")
    ));
    s.push_str("/-- `impl Serialize for RecordKind`: the integer written for each kind -/\ndef serTag : RecordKind → Nat\n");
    for (v, k) in &ser {
        s.push_str(&format!("  | .{v} => {k}\n"));
    }
    s.push_str(&format!("/-- `impl Deserialize for RecordKind`: reads a `{int_ty}` -/\ndef deTagBound : Nat := {}\n", 1u128 << bits));
    s.push_str("/-- `impl Deserialize for RecordKind`: the kind accepted for each integer (`_ => Err`) -/\ndef deTag : Nat → Option RecordKind\n");
    for (k, v) in &de {
        s.push_str(&format!("  | {k} => some .{v}\n"));
    }
    s.push_str("  | _ => none\n");
    s.push_str(&format!("/-- `RecordHeader::SIZE` -/\ndef headerSize : Nat := {size}\n"));
    s.push_str("/-- `RecordHeader::from_record` decodes the first `SIZE + 1` bytes -/\ndef headerWindow : Nat := headerSize + 1\n");
    s.push_str("/-- `RecordHeader::is_record_of_type_chunk` is `from_record(record)?.kind == RecordKind::Chunk` -/\ndef isChunkViaFromRecord : Bool := true\n");
    s.push_str(&format!("/-- `Deserialize for Chunk` builds the value with `Chunk::new` -/\ndef chunkDeUsesNew : Bool := {}\n", lean_bool(de_recomputes)));
    s.push_str(&format!("/-- `Chunk::new` sets `address = XorName::from_content(value)` -/\ndef chunkNewHashesValue : Bool := {}\n", lean_bool(new_hashes)));
    s.push_str("end SafeNet.Gen.Wire\n");
    Ok(s)
}
