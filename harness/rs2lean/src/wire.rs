//! ant-protocol/src/storage/{header,chunks}.rs -> Gen/Wire.lean: the RecordKind <-> u32 table in both
//! directions (from the match arms of the Serialize and Deserialize impls), RecordHeader::SIZE, the
//! slicing done by from_record / try_deserialize_record, and how Chunk (de)serialises.
use crate::util::*;
use quote::ToTokens;
use std::path::PathBuf;
use syn::visit::Visit;

fn toks<T: ToTokens>(t: &T) -> String {
    t.to_token_stream().to_string().replace(' ', "")
}

#[derive(Default)]
struct Matches {
    found: Vec<syn::ExprMatch>,
}
impl<'ast> Visit<'ast> for Matches {
    fn visit_expr_match(&mut self, m: &'ast syn::ExprMatch) {
        self.found.push(m.clone());
        syn::visit::visit_expr_match(self, m);
    }
}

fn last_ident(p: &syn::Path) -> String {
    p.segments.last().map(|s| s.ident.to_string()).unwrap_or_default()
}

fn int_lit(e: &syn::Expr) -> Option<u128> {
    if let syn::Expr::Lit(l) = e {
        if let syn::Lit::Int(i) = &l.lit {
            return i.base10_parse().ok();
        }
    }
    None
}

pub fn generate(repo: &PathBuf) -> Result<String, String> {
    let rel = "ant-protocol/src/storage/header.rs";
    let file = parse_file(&repo.join(rel))?;

    // variants in declaration order
    let mut variants: Vec<String> = vec![];
    for it in &file.items {
        if let syn::Item::Enum(e) = it {
            if e.ident == "RecordKind" {
                for v in &e.variants {
                    if !matches!(v.fields, syn::Fields::Unit) {
                        return Err(format!("RecordKind::{} carries data", v.ident));
                    }
                    variants.push(v.ident.to_string());
                }
            }
        }
    }
    if variants.is_empty() {
        return Err("enum RecordKind not found".into());
    }

    // Serialize: match *self { Self::X => serializer.serialize_uN(k), .. }
    let f = impl_fn(&file, "RecordKind", Some("Serialize"), "serialize")?;
    let mut ms = Matches::default();
    ms.visit_block(&f.block);
    if ms.found.len() != 1 || toks(&ms.found[0].expr) != "*self" {
        return Err("Serialize for RecordKind: expected exactly one `match *self`".into());
    }
    let mut ser: Vec<(String, u128)> = vec![];
    for arm in &ms.found[0].arms {
        let v = match &arm.pat {
            syn::Pat::Path(p) => last_ident(&p.path),
            other => return Err(format!("Serialize for RecordKind: unexpected pattern {}", toks(other))),
        };
        if arm.guard.is_some() {
            return Err("Serialize for RecordKind: guarded arm".into());
        }
        match &*arm.body {
            syn::Expr::MethodCall(m)
                if toks(&m.receiver) == "serializer"
                    && ["serialize_u8", "serialize_u16", "serialize_u32", "serialize_u64"].contains(&m.method.to_string().as_str())
                    && m.args.len() == 1 =>
            {
                let k = int_lit(&m.args[0]).ok_or_else(|| format!("Serialize for RecordKind::{v}: tag is not an integer literal"))?;
                ser.push((v, k));
            }
            other => return Err(format!("Serialize for RecordKind: unexpected arm body {}", toks(other))),
        }
    }
    for v in &variants {
        if ser.iter().filter(|(n, _)| n == v).count() != 1 {
            return Err(format!("Serialize for RecordKind: variant {v} not covered exactly once"));
        }
    }

    // Deserialize: let num = uN::deserialize(deserializer)?; match num { k => Ok(Self::X), .., _ => Err(..) }
    let f = impl_fn(&file, "RecordKind", Some("Deserialize"), "deserialize")?;
    let body = toks(&f.block);
    let int_ty = ["u8", "u16", "u32", "u64"]
        .iter()
        .find(|t| body.starts_with(&format!("{{letnum={t}::deserialize(deserializer)?;")))
        .ok_or("Deserialize for RecordKind: expected `let num = uN::deserialize(deserializer)?`")?;
    let bits: u32 = int_ty[1..].parse().unwrap();
    let mut ms = Matches::default();
    ms.visit_block(&f.block);
    if ms.found.len() != 1 || toks(&ms.found[0].expr) != "num" {
        return Err("Deserialize for RecordKind: expected exactly one `match num`".into());
    }
    let mut de: Vec<(u128, String)> = vec![];
    let mut wild = false;
    for arm in &ms.found[0].arms {
        if arm.guard.is_some() {
            return Err("Deserialize for RecordKind: guarded arm".into());
        }
        match &arm.pat {
            syn::Pat::Lit(l) => {
                let k = int_lit(&syn::Expr::Lit(l.clone())).ok_or("Deserialize for RecordKind: non-integer pattern")?;
                let b = toks(&arm.body);
                let v = b
                    .strip_prefix("Ok(Self::")
                    .and_then(|r| r.strip_suffix(')'))
                    .ok_or_else(|| format!("Deserialize for RecordKind: unexpected arm body {b}"))?;
                if !variants.iter().any(|x| x == v) {
                    return Err(format!("Deserialize for RecordKind: unknown variant {v}"));
                }
                if wild {
                    return Err("Deserialize for RecordKind: arm after the wildcard".into());
                }
                if !de.iter().any(|(k2, _)| *k2 == k) {
                    de.push((k, v.to_string())); // first matching arm wins
                }
            }
            syn::Pat::Wild(_) => {
                if !toks(&arm.body).starts_with("Err(") {
                    return Err("Deserialize for RecordKind: wildcard arm is not an error".into());
                }
                wild = true;
            }
            other => return Err(format!("Deserialize for RecordKind: unexpected pattern {}", toks(other))),
        }
    }
    if !wild {
        return Err("Deserialize for RecordKind: no wildcard arm".into());
    }

    let size = const_value(&file, "SIZE")?;
    // from_record: 3-byte window
    let f = impl_fn(&file, "RecordHeader", None, "from_record")?;
    let b = toks(&f.block);
    if b != "{ifrecord.value.len()<RecordHeader::SIZE+1{returnErr(Error::RecordHeaderParsingFailed);}Self::try_deserialize(&record.value[..RecordHeader::SIZE+1])}" {
        return Err(format!("RecordHeader::from_record: unexpected body {b}"));
    }
    // the two other decoding entry points of RecordHeader: both must go through the real decoder
    let f = impl_fn(&file, "RecordHeader", None, "try_deserialize")?;
    let b = toks(&f.block);
    if !b.starts_with("{rmp_serde::from_slice(bytes).map_err(|err|{") || !b.ends_with("Error::RecordHeaderParsingFailed})}") {
        return Err(format!("RecordHeader::try_deserialize: unexpected body {b}"));
    }
    let f = impl_fn(&file, "RecordHeader", None, "is_record_of_type_chunk")?;
    let b = toks(&f.block);
    if b != "{letkind=Self::from_record(record)?.kind;Ok(kind==RecordKind::Chunk)}" {
        return Err(format!("RecordHeader::is_record_of_type_chunk: expected `Self::from_record(record)?.kind == RecordKind::Chunk`, found {b}"));
    }
    // every public item of header.rs is one this translator knows (a new decoding entry point must be modelled first)
    let known_fns = ["try_serialize", "try_deserialize", "from_record", "is_record_of_type_chunk"];
    for it in &file.items {
        match it {
            syn::Item::Impl(i) if i.trait_.is_none() => {
                for ii in &i.items {
                    if let syn::ImplItem::Fn(f) = ii {
                        if matches!(f.vis, syn::Visibility::Public(_)) && !known_fns.contains(&f.sig.ident.to_string().as_str()) {
                            return Err(format!("header.rs: unmodelled public fn {}::{}", toks(&i.self_ty), f.sig.ident));
                        }
                    }
                }
            }
            syn::Item::Impl(i) => {
                let tr = i.trait_.as_ref().map(|(_, p, _)| last_ident(p)).unwrap_or_default();
                if toks(&i.self_ty).contains("Record") && !["Serialize", "Deserialize", "Display"].contains(&tr.as_str()) {
                    return Err(format!("header.rs: unmodelled impl {tr} for {}", toks(&i.self_ty)));
                }
            }
            syn::Item::Fn(f) if matches!(f.vis, syn::Visibility::Public(_)) => {
                if !["try_deserialize_record", "try_serialize_record"].contains(&f.sig.ident.to_string().as_str()) {
                    return Err(format!("header.rs: unmodelled public fn {}", f.sig.ident));
                }
            }
            _ => {}
        }
    }
    let f = free_fn(&file, "try_deserialize_record")?;
    let b = toks(&f.block);
    if !b.starts_with("{letbytes=ifrecord.value.len()>RecordHeader::SIZE{&record.value[RecordHeader::SIZE..]}else{returnErr(Error::RecordParsingFailed);};rmp_serde::from_slice(bytes)") {
        return Err(format!("try_deserialize_record: unexpected body {b}"));
    }
    let f = free_fn(&file, "try_serialize_record")?;
    let b = toks(&f.block);
    if !b.starts_with("{letmutbuf=RecordHeader{kind:record_kind}.try_serialize()?.writer();data.serialize(&mutSerializer::new(&mutbuf))") {
        return Err(format!("try_serialize_record: unexpected body {b}"));
    }
    // struct RecordHeader { kind } derives Serialize/Deserialize
    let mut hdr_ok = false;
    for it in &file.items {
        if let syn::Item::Struct(s) = it {
            if s.ident == "RecordHeader" {
                let fields: Vec<String> = s.fields.iter().map(|f| f.ident.as_ref().map(|i| i.to_string()).unwrap_or_default()).collect();
                let derives = s.attrs.iter().map(|a| toks(a)).collect::<String>();
                hdr_ok = fields == ["kind"] && derives.contains("Serialize") && derives.contains("Deserialize");
            }
        }
    }
    if !hdr_ok {
        return Err("struct RecordHeader: expected one field `kind` with derived Serialize/Deserialize".into());
    }

    // chunks.rs
    let rel2 = "ant-protocol/src/storage/chunks.rs";
    let cf = parse_file(&repo.join(rel2))?;
    let b = toks(&impl_fn(&cf, "Chunk", Some("Serialize"), "serialize")?.block);
    let ser_value_only = b == "{self.value.serialize(serialiser)}";
    let b = toks(&impl_fn(&cf, "Chunk", Some("Deserialize"), "deserialize")?.block);
    let de_recomputes = b == "{letvalue=Deserialize::deserialize(deserializer)?;Ok(Self::new(value))}";
    let b = toks(&impl_fn(&cf, "Chunk", None, "new")?.block);
    let new_hashes = b == "{Self{address:ChunkAddress::new(XorName::from_content(value.as_ref())),value,}}";
    if !ser_value_only {
        return Err("Serialize for Chunk: expected `self.value.serialize(serialiser)`".into());
    }

    let mut s = header(&format!("{rel} and {rel2}"));
    s.push_str("namespace SafeNet.Gen.Wire\n");
    s.push_str("/-- `enum RecordKind`, variants in declaration order -/\ninductive RecordKind\n");
    for v in &variants {
        s.push_str(&format!("  | {v}\n"));
    }
    s.push_str("  deriving DecidableEq, Repr\n");
    s.push_str(&format!(
        "def RecordKind.all : List RecordKind := [{}]\n",
        variants.iter().map(|v| format!(".{v}")).collect::<Vec<_>>().join(", ")
    ));
    s.push_str("/-- `impl Serialize for RecordKind`: the integer written for each kind -/\ndef serTag : RecordKind → Nat\n");
    for (v, k) in &ser {
        s.push_str(&format!("  | .{v} => {k}\n"));
    }
    s.push_str(&format!("/-- `impl Deserialize for RecordKind`: reads a `{int_ty}` -/\ndef deTagBound : Nat := {}\n", 1u128 << bits));
    s.push_str("/-- `impl Deserialize for RecordKind`: the kind accepted for each integer (`_ => Err`) -/\ndef deTag : Nat → Option RecordKind\n");
    for (k, v) in &de {
        s.push_str(&format!("  | {k} => some .{v}\n"));
    }
    s.push_str("  | _ => none\n");
    s.push_str(&format!("/-- `RecordHeader::SIZE` -/\ndef headerSize : Nat := {size}\n"));
    s.push_str("/-- `RecordHeader::from_record` decodes the first `SIZE + 1` bytes -/\ndef headerWindow : Nat := headerSize + 1\n");
    s.push_str("/-- `RecordHeader::is_record_of_type_chunk` is `from_record(record)?.kind == RecordKind::Chunk` -/\ndef isChunkViaFromRecord : Bool := true\n");
    s.push_str(&format!("/-- `Deserialize for Chunk` builds the value with `Chunk::new` -/\ndef chunkDeUsesNew : Bool := {}\n", lean_bool(de_recomputes)));
    s.push_str(&format!("/-- `Chunk::new` sets `address = XorName::from_content(value)` -/\ndef chunkNewHashesValue : Bool := {}\n", lean_bool(new_hashes)));
    s.push_str("end SafeNet.Gen.Wire\n");
    Ok(s)
}
