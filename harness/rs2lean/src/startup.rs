//! driver.rs → Gen/Startup.lean: the start-up step outside the record store,
//! `check_and_wipe_storage_dir_if_necessary` (called by `NetworkBuilder::build_node` at every start).
//!
//! Read as a sequence of file-system events in statement order:
//!   read   — the block that opens `<root>/network_key_version` and reads it (creating an empty file when it cannot be opened)
//!   if     — `if cur_version_str != prev_version_str { … }` (no else)
//!   wipe   — `fs::remove_dir_all(storage_dir_path)`
//!   write  — the version file is truncated and rewritten (`OpenOptions…truncate(true).open(version_file)` + `write_all`,
//!            or `fs::write(version_file, …)`)
//! Four shapes are recognised (anything else is UNTRANSLATABLE):
//!   read; if { wipe; write }            only-on-mismatch, wipe first      (the shape of the pinned source)
//!   read; if { write; wipe }            only-on-mismatch, write first
//!   read; if { wipe }; write            unconditional write after the test
//!   read; write; if { wipe }            unconditional write before the test
use crate::util::*;
use std::path::PathBuf;
use syn::visit::Visit;

fn ts<T: quote::ToTokens>(t: &T) -> String {
    t.to_token_stream().to_string().replace(' ', "")
}

#[derive(Debug, Clone, PartialEq)]
enum Ev {
    Read,
    If(Vec<Ev>),
    Wipe,
    Trunc,
    Write,
    TruncWrite,
    Inert,
}

const LOG_MACROS: [&str; 5] = ["warn", "info", "debug", "error", "trace"];
const DANGER_METHODS: [&str; 14] = [
    "write", "write_all", "set_len", "truncate", "open", "create", "create_new", "append", "remove_file", "remove_dir_all", "rename",
    "sync_all", "sync_data", "flush",
];

struct Ctx {
    cur: String,
    prev: String,
    vfile: String,
    storage: String,
}

fn calls_of_stmt(s: &syn::Stmt) -> Calls {
    let mut c = Calls::default();
    c.visit_stmt(s);
    c
}

fn fs_paths(c: &Calls) -> Vec<&String> {
    c.paths.iter().filter(|p| p.contains("fs::") || p.contains("File::") || p.contains("OpenOptions")).collect()
}

fn classify(s: &syn::Stmt, cx: &Ctx, nested: bool) -> Result<Ev, String> {
    let text = ts(s);
    if let syn::Stmt::Macro(m) = s {
        let name = m.mac.path.segments.last().map(|x| x.ident.to_string()).unwrap_or_default();
        if LOG_MACROS.contains(&name.as_str()) {
            return Ok(Ev::Inert);
        }
        return Err(format!("unexpected macro statement `{text}`"));
    }
    if let syn::Stmt::Expr(syn::Expr::If(i), _) = s {
        if nested {
            return Err("a nested `if` inside the mismatch branch".into());
        }
        if i.else_branch.is_some() {
            return Err("the version test has an else branch".into());
        }
        let syn::Expr::Binary(b) = &*i.cond else { return Err(format!("unexpected test `{}`", ts(&*i.cond))) };
        let (l, op, r) = (ts(&*b.left), ts(&b.op), ts(&*b.right));
        let strip = |x: &str| x.trim_start_matches(['&', '*']).trim_end_matches(".as_str()").to_string();
        let (l, r) = (strip(&l), strip(&r));
        if op != "!=" || !((l == cx.cur && r == cx.prev) || (l == cx.prev && r == cx.cur)) {
            return Err(format!("expected the test `{} != {}`, found `{}`", cx.cur, cx.prev, ts(&*i.cond)));
        }
        let mut inner = vec![];
        for st in &i.then_branch.stmts {
            inner.push(classify(st, cx, true)?);
        }
        return Ok(Ev::If(inner));
    }
    let c = calls_of_stmt(s);
    let fsp = fs_paths(&c);
    let has = |suffix: &str| c.paths.iter().any(|p| p.ends_with(suffix));
    let m = |name: &str| c.methods.iter().any(|x| x == name);
    if has("File::open") {
        // the read block: open + read_to_string(&mut prev); Err arm: File::create(version_file)
        if !m("read_to_string") || !text.contains(&format!("read_to_string(&mut{})", cx.prev)) {
            return Err(format!("the block that opens the version file does not read it into `{}`", cx.prev));
        }
        if !has("File::create") {
            return Err("the version file is not created when it cannot be opened".into());
        }
        if !text.contains(&format!("File::open({}", cx.vfile)) || !text.contains(&format!("File::create({}", cx.vfile)) {
            return Err(format!("open/create in the read block are not on `{}`", cx.vfile));
        }
        if has("remove_dir_all") || m("write_all") || m("truncate") || has("fs::write") {
            return Err("the read block also wipes or writes".into());
        }
        return Ok(Ev::Read);
    }
    if has("remove_dir_all") {
        if fsp.len() != 1 || !text.contains(&format!("remove_dir_all({})", cx.storage)) && !text.contains(&format!("remove_dir_all(&{})", cx.storage)) {
            return Err(format!("unexpected wipe statement `{text}`"));
        }
        return Ok(Ev::Wipe);
    }
    if has("fs::write") {
        if fsp.len() != 1 || !(text.contains(&format!("fs::write({}", cx.vfile)) || text.contains(&format!("fs::write(&{}", cx.vfile))) || !text.contains(&cx.cur) {
            return Err(format!("unexpected fs::write statement `{text}`"));
        }
        return Ok(Ev::TruncWrite);
    }
    let opens_trunc = text.contains("OpenOptions::new()") && text.contains(".truncate(true)") && text.contains(".write(true)") && text.contains(&format!(".open({}", cx.vfile));
    let writes_all = text.contains(&format!(".write_all({}.as_bytes())", cx.cur));
    if has("File::create") {
        // `File::create(version_file)` truncates as well
        if !text.contains(&format!("File::create({}", cx.vfile)) {
            return Err(format!("unexpected File::create `{text}`"));
        }
        return Ok(if writes_all { Ev::TruncWrite } else { Ev::Trunc });
    }
    if text.contains("OpenOptions") {
        if !opens_trunc {
            return Err(format!("unexpected OpenOptions chain `{text}`"));
        }
        return Ok(if writes_all { Ev::TruncWrite } else { Ev::Trunc });
    }
    if m("write_all") || m("write") {
        if !writes_all {
            return Err(format!("unexpected write `{text}`"));
        }
        return Ok(Ev::Write);
    }
    if !fsp.is_empty() {
        return Err(format!("unexpected file-system call in `{text}`"));
    }
    if let Some(d) = c.methods.iter().find(|x| DANGER_METHODS.contains(&x.as_str())) {
        return Err(format!("unexpected `.{d}(..)` in `{text}`"));
    }
    Ok(Ev::Inert)
}

/// (wipe present, index of wipe, index of truncate, index of write) of a flat event list; Err on duplicates / bad order
fn flat(evs: &[Ev]) -> Result<(Option<usize>, Option<usize>, Option<usize>), String> {
    let (mut w, mut t, mut wr) = (None, None, None);
    for (i, e) in evs.iter().enumerate() {
        match e {
            Ev::Wipe => {
                if w.replace(i).is_some() {
                    return Err("two wipes".into());
                }
            }
            Ev::Trunc => {
                if t.replace(i).is_some() {
                    return Err("the version file is truncated twice".into());
                }
            }
            Ev::Write => {
                if wr.replace(i).is_some() {
                    return Err("the version file is written twice".into());
                }
            }
            Ev::TruncWrite => {
                if t.replace(i).is_some() || wr.replace(i).is_some() {
                    return Err("the version file is written twice".into());
                }
            }
            Ev::Inert => {}
            Ev::Read | Ev::If(_) => return Err("unexpected read / test here".into()),
        }
    }
    match (t, wr) {
        (None, None) => {}
        (Some(a), Some(b)) if a <= b => {
            if let Some(x) = w {
                if a < x && x < b {
                    return Err("the wipe sits between truncating and writing the version file".into());
                }
            }
        }
        _ => return Err("truncate and write of the version file do not come as a pair, in this order".into()),
    }
    Ok((w, t, wr))
}

pub fn generate(repo: &PathBuf) -> Result<String, String> {
    let rel = "ant-networking/src/driver.rs";
    let file = parse_file(&repo.join(rel))?;
    let f = free_fn(&file, "check_and_wipe_storage_dir_if_necessary")?;
    let e = |m: String| format!("check_and_wipe_storage_dir_if_necessary: {m}");
    let params: Vec<String> = f.sig.inputs.iter().filter_map(|a| match a {
        syn::FnArg::Typed(t) => match &*t.pat {
            syn::Pat::Ident(i) => Some(i.ident.to_string()),
            _ => None,
        },
        _ => None,
    }).collect();
    let [root, storage, cur] = params.as_slice() else { return Err(e(format!("expected three parameters, found {params:?}"))) };
    // locals: `let mut prev = String::new();` and `let version_file = root_dir.join("network_key_version");`
    let mut prev = None;
    let mut vfile = None;
    for s in &f.block.stmts {
        if let syn::Stmt::Local(l) = s {
            let (syn::Pat::Ident(id), Some(init)) = (&l.pat, &l.init) else { continue };
            let it = ts(&*init.expr);
            if it == "String::new()" {
                prev = Some(id.ident.to_string());
            } else if it == format!("{root}.join(\"network_key_version\")") {
                vfile = Some(id.ident.to_string());
            }
        }
    }
    let cx = Ctx {
        cur: cur.clone(),
        prev: prev.ok_or_else(|| e("no `let mut prev = String::new()`".into()))?,
        vfile: vfile.ok_or_else(|| e(format!("no `let version_file = {root}.join(\"network_key_version\")`")))?,
        storage: storage.clone(),
    };
    // statement-level events; a bare block `{ … }` is looked into
    let mut evs: Vec<Ev> = vec![];
    for s in &f.block.stmts {
        match s {
            syn::Stmt::Expr(syn::Expr::Block(b), _) if b.block.stmts.len() == 1 => evs.push(classify(&b.block.stmts[0], &cx, false).map_err(&e)?),
            syn::Stmt::Expr(syn::Expr::Path(_), None) | syn::Stmt::Expr(syn::Expr::Call(_), None) if ts(s) == "Ok(())" => evs.push(Ev::Inert),
            other => evs.push(classify(other, &cx, false).map_err(&e)?),
        }
    }
    let evs: Vec<Ev> = evs.into_iter().filter(|x| *x != Ev::Inert).collect();
    let (only_on_mismatch, wipe_first) = match evs.as_slice() {
        [Ev::Read, Ev::If(inner)] => {
            let (w, t, wr) = flat(inner).map_err(&e)?;
            match (w, t, wr) {
                (Some(w), Some(t), Some(_)) => (true, w < t),
                other => return Err(e(format!("the mismatch branch does not both wipe and rewrite the version file: {other:?}"))),
            }
        }
        [Ev::Read, Ev::If(inner), tail @ ..] | [Ev::Read, tail @ .., Ev::If(inner)] if !tail.is_empty() => {
            let (w, t, wr) = flat(inner).map_err(&e)?;
            if w.is_none() || t.is_some() || wr.is_some() {
                return Err(e("version file written both inside and outside the mismatch branch (or no wipe inside it)".into()));
            }
            let (w2, t2, wr2) = flat(tail).map_err(&e)?;
            if w2.is_some() || t2.is_none() || wr2.is_none() {
                return Err(e(format!("unexpected statements next to the version test: {tail:?}")));
            }
            (false, matches!(evs[1], Ev::If(_)))
        }
        other => return Err(e(format!("unrecognised statement sequence {other:?}"))),
    };

    // build_node calls it with the current network id, before the store is configured
    let bn = impl_fn(&file, "NetworkBuilder", None, "build_node")?;
    let body = ts(&bn.block);
    let call_at = body.find("check_and_wipe_storage_dir_if_necessary(").ok_or("build_node: no call of check_and_wipe_storage_dir_if_necessary")?;
    let call = &body[call_at..];
    let close = call.find(")?").ok_or("build_node: the result of check_and_wipe_storage_dir_if_necessary is not propagated with `?`")?;
    if !call[..close].contains("get_network_id()") {
        return Err("build_node: check_and_wipe_storage_dir_if_necessary is not called with get_network_id()".into());
    }
    let store_at = body.find("NodeRecordStoreConfig{").ok_or("build_node: no NodeRecordStoreConfig { .. }")?;
    if store_at < call_at {
        return Err("build_node: the record store is configured before check_and_wipe_storage_dir_if_necessary runs".into());
    }

    // ---- "the same identity": which directory and which seed a start hands the record store ------------------------
    // build_node: `let peer_id = PeerId::from(self.keypair.public());`
    //             `let encryption_seed: [u8; 16] = peer_id.to_bytes().get(..N).expect(..).try_into().expect(..);`
    //             `let storage_dir_path = root_dir.join("<literal>");`   (root_dir: the parameter)
    //             `NodeRecordStoreConfig { storage_dir: storage_dir_path, historic_quote_dir: root_dir.clone(), encryption_seed, .. }`
    // Two-sided: the shapes above give `true`; an expression drawing on something that differs from start to start
    // (rand / OsRng / thread_rng / SystemTime / Instant / process::id / Uuid / temp_dir / format!) gives `false`;
    // anything else is UNTRANSLATABLE.
    const VOLATILE: [&str; 10] = ["rand", "OsRng", "thread_rng", "SystemTime", "Instant", "process::id", "Uuid", "temp_dir", "format!", "now("];
    struct Locals(Vec<(String, String)>, Vec<(String, Vec<(String, String)>)>);
    impl<'ast> Visit<'ast> for Locals {
        fn visit_local(&mut self, l: &'ast syn::Local) {
            let pat = match &l.pat {
                syn::Pat::Ident(i) => Some(i.ident.to_string()),
                syn::Pat::Type(t) => match &*t.pat {
                    syn::Pat::Ident(i) => Some(i.ident.to_string()),
                    _ => None,
                },
                _ => None,
            };
            if let (Some(name), Some(init)) = (pat, &l.init) {
                self.0.push((name, ts(&*init.expr)));
            }
            syn::visit::visit_local(self, l);
        }
        fn visit_expr_struct(&mut self, e: &'ast syn::ExprStruct) {
            let name = e.path.segments.last().map(|x| x.ident.to_string()).unwrap_or_default();
            let fields = e.fields.iter().map(|f| (ts(&f.member), ts(&f.expr))).collect();
            self.1.push((name, fields));
            syn::visit::visit_expr_struct(self, e);
        }
    }
    let mut loc = Locals(vec![], vec![]);
    loc.visit_block(&bn.block);
    let one = |name: &str| -> Result<String, String> {
        let v: Vec<&(String, String)> = loc.0.iter().filter(|x| x.0 == name).collect();
        match v.as_slice() {
            [x] => Ok(x.1.clone()),
            _ => Err(format!("build_node: expected exactly one `let {name} = …`, found {}", v.len())),
        }
    };
    let bn_params: Vec<String> = bn.sig.inputs.iter().filter_map(|a| match a {
        syn::FnArg::Typed(t) => match &*t.pat {
            syn::Pat::Ident(i) => Some(i.ident.to_string()),
            _ => None,
        },
        _ => None,
    }).collect();
    if !bn_params.iter().any(|p| p == "root_dir") {
        return Err("build_node: no parameter `root_dir`".into());
    }
    let volatile = |e: &str| VOLATILE.iter().any(|v| e.contains(v));
    let seed_init = one("encryption_seed")?;
    let (seed_from_peer, seed_bytes) = {
        let re_head = "peer_id.to_bytes().get(..";
        let ok = seed_init.strip_prefix(re_head).and_then(|rest| {
            let (n, tail) = rest.split_once(')')?;
            let n: u64 = n.parse().ok()?;
            // `.expect("…").try_into().expect("…")`
            let t = tail.strip_prefix(".expect(\"")?;
            let (_, t) = t.split_once("\").try_into().expect(\"")?;
            if t.ends_with("\")") && !t[..t.len() - 2].contains('"') { Some(n) } else { None }
        });
        match ok {
            Some(n) => {
                if one("peer_id")? != "PeerId::from(self.keypair.public())" {
                    return Err(format!("build_node: `peer_id` is `{}`, expected `PeerId::from(self.keypair.public())`", one("peer_id")?));
                }
                (true, n)
            }
            None if volatile(&seed_init) => (false, 16),
            None => return Err(format!("build_node: unrecognised encryption_seed expression `{seed_init}`")),
        }
    };
    let dir_init = one("storage_dir_path")?;
    let (dir_stable, dir_name) = match dir_init.strip_prefix("root_dir.join(\"").and_then(|r| r.strip_suffix("\")")) {
        Some(lit) if !lit.contains('"') && !lit.contains('\\') => (true, lit.to_string()),
        _ if volatile(&dir_init) => (false, String::new()),
        _ => return Err(format!("build_node: unrecognised storage_dir_path expression `{dir_init}`")),
    };
    let cfgs: Vec<&(String, Vec<(String, String)>)> = loc.1.iter().filter(|x| x.0 == "NodeRecordStoreConfig").collect();
    let [cfg_lit] = cfgs.as_slice() else { return Err(format!("build_node: expected one NodeRecordStoreConfig literal, found {}", cfgs.len())) };
    let field = |n: &str| cfg_lit.1.iter().find(|f| f.0 == n).map(|f| f.1.clone());
    if field("storage_dir").as_deref() != Some("storage_dir_path") {
        return Err(format!("build_node: NodeRecordStoreConfig.storage_dir is {:?}, expected `storage_dir_path`", field("storage_dir")));
    }
    if field("encryption_seed").as_deref() != Some("encryption_seed") {
        return Err(format!("build_node: NodeRecordStoreConfig.encryption_seed is {:?}, expected `encryption_seed`", field("encryption_seed")));
    }
    let quote_root = match field("historic_quote_dir").as_deref() {
        Some("root_dir.clone()") | Some("root_dir") => true,
        Some(e) if volatile(e) => false,
        other => return Err(format!("build_node: unrecognised historic_quote_dir {other:?}")),
    };
    if !call[..close].contains("storage_dir_path") {
        return Err("build_node: check_and_wipe_storage_dir_if_necessary is not called on storage_dir_path".into());
    }
    // record_store.rs: the cipher is a function of the configured seed alone
    let rs_rel = "ant-networking/src/record_store.rs";
    let rs_file = parse_file(&repo.join(rs_rel))?;
    let wc = impl_fn(&rs_file, "NodeRecordStore", None, "with_config")?;
    let mut wloc = Locals(vec![], vec![]);
    wloc.visit_block(&wc.block);
    let enc: Vec<&(String, String)> = wloc.0.iter().filter(|x| x.0 == "encryption_details").collect();
    let [enc] = enc.as_slice() else { return Err("with_config: expected exactly one `let encryption_details = …`".into()) };
    let derive = free_fn(&rs_file, "derive_aes256gcm_siv_from_seed")?;
    let derive_body = ts(&derive.block);
    let cipher_from_seed = if enc.1 == "derive_aes256gcm_siv_from_seed(&config.encryption_seed)" {
        if volatile(&derive_body) {
            false
        } else if derive_body.contains("Hkdf::<Sha256>::new(Some(salt),seed)") && derive_body.contains("letsalt=b\"") {
            true
        } else {
            return Err("derive_aes256gcm_siv_from_seed: unrecognised key derivation".into());
        }
    } else if volatile(&enc.1) {
        false
    } else {
        return Err(format!("with_config: unrecognised encryption_details expression `{}`", enc.1));
    };
    let store_lits: Vec<&(String, Vec<(String, String)>)> = wloc.1.iter().filter(|x| x.0 == "NodeRecordStore").collect();
    let [store_lit] = store_lits.as_slice() else { return Err("with_config: expected one NodeRecordStore literal".into()) };
    if store_lit.1.iter().find(|f| f.0 == "encryption_details").map(|f| f.1.as_str()) != Some("encryption_details") {
        return Err("with_config: NodeRecordStore.encryption_details is not the derived `encryption_details`".into());
    }

    let mut s = header(rel);
    s.push_str("namespace SafeNet.Gen.Startup\n");
    s.push_str(&format!("/-- `check_and_wipe_storage_dir_if_necessary` truncates and rewrites `<root>/network_key_version` only inside the branch `cur_version_str != prev_version_str` (otherwise: unconditionally, at top level) -/\ndef versionWrittenOnlyOnMismatch : Bool := {}\n", lean_bool(only_on_mismatch)));
    s.push_str(&format!("/-- the storage directory is wiped before the version file is truncated and rewritten (otherwise: after) -/\ndef wipeBeforeVersionWrite : Bool := {}\n", lean_bool(wipe_first)));
    s.push_str("/-- `NetworkBuilder::build_node` runs the check with `get_network_id()` (result propagated with `?`) before it configures the record store -/\ndef checkedAtEveryStart : Bool := true\n");
    s.push_str(&format!("/-- `build_node` takes `encryption_seed` from the node's identity alone: the first `seedBytes` bytes of `PeerId::from(self.keypair.public()).to_bytes()` (otherwise: from something that differs from start to start) -/\ndef seedFromPeerId : Bool := {}\ndef seedBytes : Nat := {}\n", lean_bool(seed_from_peer), seed_bytes));
    s.push_str(&format!("/-- the record store's directory is `root_dir.join(storageDirName)` with a string literal, the same at every start, it is the directory the start-up check may wipe, and it is what `NodeRecordStoreConfig.storage_dir` gets -/\ndef storageDirStable : Bool := {}\ndef storageDirName : String := \"{}\"\n", lean_bool(dir_stable), dir_name));
    s.push_str(&format!("/-- `historic_quote_dir` is `root_dir` -/\ndef quoteDirIsRoot : Bool := {}\n", lean_bool(quote_root)));
    s.push_str(&format!("/-- `with_config` derives cipher and nonce prefix from `config.encryption_seed` alone (`derive_aes256gcm_siv_from_seed`: HKDF-SHA256 with a constant salt) -/\ndef cipherFromSeedOnly : Bool := {}\n", lean_bool(cipher_from_seed)));
    s.push_str("end SafeNet.Gen.Startup\n");
    Ok(s)
}
