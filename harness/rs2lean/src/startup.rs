//! driver.rs → Gen/Startup.lean: the start-up step outside the record store,
//! `check_and_wipe_storage_dir_if_necessary` (called by `NetworkBuilder::build_node` at every start).
//!
//! Read as a sequence of file-system events in statement order:
//!   read   — the block that opens `<root>/network_key_version` and reads it (creating an empty file when it cannot be opened)
//!   if     — `if cur_version_str != prev_version_str { … }` (no else)
//!   wipe   — `fs::remove_dir_all(storage_dir_path)`
//!   write  — the version file is truncated and rewritten (`OpenOptions…truncate(true).open(version_file)` + `write_all`,
//!            or `fs::write(version_file, …)`)
//! Four shapes are recognised (anything else is UNTRANSLATABLE):
//!   read; if { wipe; write }            only-on-mismatch, wipe first      (the shape of the pinned source)
//!   read; if { write; wipe }            only-on-mismatch, write first
//!   read; if { wipe }; write            unconditional write after the test
//!   read; write; if { wipe }            unconditional write before the test
use crate::util::*;
use std::path::PathBuf;
use syn::visit::Visit;

fn ts<T: quote::ToTokens>(t: &T) -> String {
    t.to_token_stream().to_string().replace(' ', "")
}

#[derive(Debug, Clone, PartialEq)]
enum Ev {
    Read,
    If(Vec<Ev>),
    Wipe,
    Trunc,
    Write,
    TruncWrite,
    Inert,
}

const LOG_MACROS: [&str; 5] = ["warn", "info", "debug", "error", "trace"];
const DANGER_METHODS: [&str; 14] = [
    "write", "write_all", "set_len", "truncate", "open", "create", "create_new", "append", "remove_file", "remove_dir_all", "rename",
    "sync_all", "sync_data", "flush",
];

struct Ctx {
    cur: String,
    prev: String,
    vfile: String,
    storage: String,
}

fn calls_of_stmt(s: &syn::Stmt) -> Calls {
    let mut c = Calls::default();
    c.visit_stmt(s);
    c
}

fn fs_paths(c: &Calls) -> Vec<&String> {
    c.paths.iter().filter(|p| p.contains("fs::") || p.contains("File::") || p.contains("OpenOptions")).collect()
}

fn classify(s: &syn::Stmt, cx: &Ctx, nested: bool) -> Result<Ev, String> {
    let text = ts(s);
    if let syn::Stmt::Macro(m) = s {
        let name = m.mac.path.segments.last().map(|x| x.ident.to_string()).unwrap_or_default();
        if LOG_MACROS.contains(&name.as_str()) {
            return Ok(Ev::Inert);
        }
        return Err(format!("unexpected macro statement `{text}`"));
    }
    if let syn::Stmt::Expr(syn::Expr::If(i), _) = s {
        if nested {
            return Err("a nested `if` inside the mismatch branch".into());
        }
        if i.else_branch.is_some() {
            return Err("the version test has an else branch".into());
        }
        let syn::Expr::Binary(b) = &*i.cond else { return Err(format!("unexpected test `{}`", ts(&*i.cond))) };
        let (l, op, r) = (ts(&*b.left), ts(&b.op), ts(&*b.right));
        let strip = |x: &str| x.trim_start_matches(['&', '*']).trim_end_matches(".as_str()").to_string();
        let (l, r) = (strip(&l), strip(&r));
        if op != "!=" || !((l == cx.cur && r == cx.prev) || (l == cx.prev && r == cx.cur)) {
            return Err(format!("expected the test `{} != {}`, found `{}`", cx.cur, cx.prev, ts(&*i.cond)));
        }
        let mut inner = vec![];
        for st in &i.then_branch.stmts {
            inner.push(classify(st, cx, true)?);
        }
        return Ok(Ev::If(inner));
    }
    let c = calls_of_stmt(s);
    let fsp = fs_paths(&c);
    let has = |suffix: &str| c.paths.iter().any(|p| p.ends_with(suffix));
    let m = |name: &str| c.methods.iter().any(|x| x == name);
    if has("File::open") {
        // the read block: open + read_to_string(&mut prev); Err arm: File::create(version_file)
        if !m("read_to_string") || !text.contains(&format!("read_to_string(&mut{})", cx.prev)) {
            return Err(format!("the block that opens the version file does not read it into `{}`", cx.prev));
        }
        if !has("File::create") {
            return Err("the version file is not created when it cannot be opened".into());
        }
        if !text.contains(&format!("File::open({}", cx.vfile)) || !text.contains(&format!("File::create({}", cx.vfile)) {
            return Err(format!("open/create in the read block are not on `{}`", cx.vfile));
        }
        if has("remove_dir_all") || m("write_all") || m("truncate") || has("fs::write") {
            return Err("the read block also wipes or writes".into());
        }
        return Ok(Ev::Read);
    }
    if has("remove_dir_all") {
        if fsp.len() != 1 || !text.contains(&format!("remove_dir_all({})", cx.storage)) && !text.contains(&format!("remove_dir_all(&{})", cx.storage)) {
            return Err(format!("unexpected wipe statement `{text}`"));
        }
        return Ok(Ev::Wipe);
    }
    if has("fs::write") {
        if fsp.len() != 1 || !(text.contains(&format!("fs::write({}", cx.vfile)) || text.contains(&format!("fs::write(&{}", cx.vfile))) || !text.contains(&cx.cur) {
            return Err(format!("unexpected fs::write statement `{text}`"));
        }
        return Ok(Ev::TruncWrite);
    }
    let opens_trunc = text.contains("OpenOptions::new()") && text.contains(".truncate(true)") && text.contains(".write(true)") && text.contains(&format!(".open({}", cx.vfile));
    let writes_all = text.contains(&format!(".write_all({}.as_bytes())", cx.cur));
    if has("File::create") {
        // `File::create(version_file)` truncates as well
        if !text.contains(&format!("File::create({}", cx.vfile)) {
            return Err(format!("unexpected File::create `{text}`"));
        }
        return Ok(if writes_all { Ev::TruncWrite } else { Ev::Trunc });
    }
    if text.contains("OpenOptions") {
        if !opens_trunc {
            return Err(format!("unexpected OpenOptions chain `{text}`"));
        }
        return Ok(if writes_all { Ev::TruncWrite } else { Ev::Trunc });
    }
    if m("write_all") || m("write") {
        if !writes_all {
            return Err(format!("unexpected write `{text}`"));
        }
        return Ok(Ev::Write);
    }
    if !fsp.is_empty() {
        return Err(format!("unexpected file-system call in `{text}`"));
    }
    if let Some(d) = c.methods.iter().find(|x| DANGER_METHODS.contains(&x.as_str())) {
        return Err(format!("unexpected `.{d}(..)` in `{text}`"));
    }
    Ok(Ev::Inert)
}

/// (wipe present, index of wipe, index of truncate, index of write) of a flat event list; Err on duplicates / bad order
fn flat(evs: &[Ev]) -> Result<(Option<usize>, Option<usize>, Option<usize>), String> {
    let (mut w, mut t, mut wr) = (None, None, None);
    for (i, e) in evs.iter().enumerate() {
        match e {
            Ev::Wipe => {
                if w.replace(i).is_some() {
                    return Err("two wipes".into());
                }
            }
            Ev::Trunc => {
                if t.replace(i).is_some() {
                    return Err("the version file is truncated twice".into());
                }
            }
            Ev::Write => {
                if wr.replace(i).is_some() {
                    return Err("the version file is written twice".into());
                }
            }
            Ev::TruncWrite => {
                if t.replace(i).is_some() || wr.replace(i).is_some() {
                    return Err("the version file is written twice".into());
                }
            }
            Ev::Inert => {}
            Ev::Read | Ev::If(_) => return Err("unexpected read / test here".into()),
        }
    }
    match (t, wr) {
        (None, None) => {}
        (Some(a), Some(b)) if a <= b => {
            if let Some(x) = w {
                if a < x && x < b {
                    return Err("the wipe sits between truncating and writing the version file".into());
                }
            }
        }
        _ => return Err("truncate and write of the version file do not come as a pair, in this order".into()),
    }
    Ok((w, t, wr))
}

pub fn generate(repo: &PathBuf) -> Result<String, String> {
    let rel = "ant-networking/src/driver.rs";
    let file = parse_file(&repo.join(rel))?;
    let f = free_fn(&file, "check_and_wipe_storage_dir_if_necessary")?;
    let e = |m: String| format!("check_and_wipe_storage_dir_if_necessary: {m}");
    let params: Vec<String> = f.sig.inputs.iter().filter_map(|a| match a {
        syn::FnArg::Typed(t) => match &*t.pat {
            syn::Pat::Ident(i) => Some(i.ident.to_string()),
            _ => None,
        },
        _ => None,
    }).collect();
    let [root, storage, cur] = params.as_slice() else { return Err(e(format!("expected three parameters, found {params:?}"))) };
    // locals: `let mut prev = String::new();` and `let version_file = root_dir.join("network_key_version");`
    let mut prev = None;
    let mut vfile = None;
    for s in &f.block.stmts {
        if let syn::Stmt::Local(l) = s {
            let (syn::Pat::Ident(id), Some(init)) = (&l.pat, &l.init) else { continue };
            let it = ts(&*init.expr);
            if it == "String::new()" {
                prev = Some(id.ident.to_string());
            } else if it == format!("{root}.join(\"network_key_version\")") {
                vfile = Some(id.ident.to_string());
            }
        }
    }
    let cx = Ctx {
        cur: cur.clone(),
        prev: prev.ok_or_else(|| e("no `let mut prev = String::new()`".into()))?,
        vfile: vfile.ok_or_else(|| e(format!("no `let version_file = {root}.join(\"network_key_version\")`")))?,
        storage: storage.clone(),
    };
    // statement-level events; a bare block `{ … }` is looked into
    let mut evs: Vec<Ev> = vec![];
    for s in &f.block.stmts {
        match s {
            syn::Stmt::Expr(syn::Expr::Block(b), _) if b.block.stmts.len() == 1 => evs.push(classify(&b.block.stmts[0], &cx, false).map_err(&e)?),
            syn::Stmt::Expr(syn::Expr::Path(_), None) | syn::Stmt::Expr(syn::Expr::Call(_), None) if ts(s) == "Ok(())" => evs.push(Ev::Inert),
            other => evs.push(classify(other, &cx, false).map_err(&e)?),
        }
    }
    let evs: Vec<Ev> = evs.into_iter().filter(|x| *x != Ev::Inert).collect();
    let (only_on_mismatch, wipe_first) = match evs.as_slice() {
        [Ev::Read, Ev::If(inner)] => {
            let (w, t, wr) = flat(inner).map_err(&e)?;
            match (w, t, wr) {
                (Some(w), Some(t), Some(_)) => (true, w < t),
                other => return Err(e(format!("the mismatch branch does not both wipe and rewrite the version file: {other:?}"))),
            }
        }
        [Ev::Read, Ev::If(inner), tail @ ..] | [Ev::Read, tail @ .., Ev::If(inner)] if !tail.is_empty() => {
            let (w, t, wr) = flat(inner).map_err(&e)?;
            if w.is_none() || t.is_some() || wr.is_some() {
                return Err(e("version file written both inside and outside the mismatch branch (or no wipe inside it)".into()));
            }
            let (w2, t2, wr2) = flat(tail).map_err(&e)?;
            if w2.is_some() || t2.is_none() || wr2.is_none() {
                return Err(e(format!("unexpected statements next to the version test: {tail:?}")));
            }
            (false, matches!(evs[1], Ev::If(_)))
        }
        other => return Err(e(format!("unrecognised statement sequence {other:?}"))),
    };

    // build_node calls it with the current network id, before the store is configured
    let bn = impl_fn(&file, "NetworkBuilder", None, "build_node")?;
    let body = ts(&bn.block);
    let call_at = body.find("check_and_wipe_storage_dir_if_necessary(").ok_or("build_node: no call of check_and_wipe_storage_dir_if_necessary")?;
    let call = &body[call_at..];
    let close = call.find(")?").ok_or("build_node: the result of check_and_wipe_storage_dir_if_necessary is not propagated with `?`")?;
    if !call[..close].contains("get_network_id()") {
        return Err("build_node: check_and_wipe_storage_dir_if_necessary is not called with get_network_id()".into());
    }
    let store_at = body.find("NodeRecordStoreConfig{").ok_or("build_node: no NodeRecordStoreConfig { .. }")?;
    if store_at < call_at {
        return Err("build_node: the record store is configured before check_and_wipe_storage_dir_if_necessary runs".into());
    }

    let mut s = header(rel);
    s.push_str("namespace SafeNet.Gen.Startup\n");
    s.push_str(&format!("/-- `check_and_wipe_storage_dir_if_necessary` truncates and rewrites `<root>/network_key_version` only inside the branch `cur_version_str != prev_version_str` (otherwise: unconditionally, at top level) -/\ndef versionWrittenOnlyOnMismatch : Bool := {}\n", lean_bool(only_on_mismatch)));
    s.push_str(&format!("/-- the storage directory is wiped before the version file is truncated and rewritten (otherwise: after) -/\ndef wipeBeforeVersionWrite : Bool := {}\n", lean_bool(wipe_first)));
    s.push_str("/-- `NetworkBuilder::build_node` runs the check with `get_network_id()` (result propagated with `?`) before it configures the record store -/\ndef checkedAtEveryStart : Bool := true\n");
    s.push_str("end SafeNet.Gen.Startup\n");
    Ok(s)
}
