//! `ant-node/src/put_validation.rs` (+ the pieces of ant-evm / evmlib / ant-networking it relies on)
//! -> `Gen/Validate.lean`: which `RecordKind` is routed to which branch in `validate_and_store_record`
//! and `store_replicated_in_record` (read from the match arms), which checks
//! `payment_for_us_exists_and_is_still_valid` performs and in which order, and the comparators /
//! filters of the per-kind store functions.
//!
//! Every generated flag is two-sided: `true` only when the checked shape is positively recognised, `false`
//! only when a known alternative shape is positively recognised, anything else is `Err(..)` (UNTRANSLATABLE;
//! the check then falls back to the committed snapshot and a wider correspondence run).  Recognition works
//! on a canonical text of the function body (token stream, spaces only between words, log macros removed,
//! same-file private helpers inlined one level) and follows the data flow through `let` bindings and
//! parameter names instead of relying on the names of locals.
use crate::util::*;
use quote::ToTokens;
use regex::Regex;
use std::path::PathBuf;

fn toks<T: ToTokens>(t: &T) -> String {
    t.to_token_stream().to_string()
}

const KINDS: [(&str, &str); 8] = [
    ("ChunkWithPayment", "chunkp"),
    ("Chunk", "chunk"),
    ("ScratchpadWithPayment", "padp"),
    ("Scratchpad", "pad"),
    ("TransactionWithPayment", "txp"),
    ("Transaction", "tx"),
    ("RegisterWithPayment", "regp"),
    ("Register", "reg"),
];

fn pat_kinds(p: &syn::Pat, out: &mut Vec<String>) -> Result<(), String> {
    match p {
        syn::Pat::Or(o) => {
            for c in &o.cases {
                pat_kinds(c, out)?;
            }
            Ok(())
        }
        syn::Pat::Path(pp) => {
            let segs: Vec<String> = pp.path.segments.iter().map(|s| s.ident.to_string()).collect();
            if segs.len() == 2 && segs[0] == "RecordKind" {
                out.push(segs[1].clone());
                Ok(())
            } else {
                Err(format!("unexpected pattern {}", toks(p)))
            }
        }
        _ => Err(format!("unexpected pattern {}", toks(p))),
    }
}


// ------------------------------------------------------------------------------------------------
// canonical text
// ------------------------------------------------------------------------------------------------

fn is_word(c: char) -> bool {
    c.is_alphanumeric() || c == '_' || c == '"'
}

/// token stream text with spaces kept only between two word-like tokens
fn compact(s: &str) -> String {
    let cs: Vec<char> = s.chars().collect();
    let mut out = String::with_capacity(cs.len());
    for (i, c) in cs.iter().enumerate() {
        if c.is_whitespace() {
            let prev = out.chars().last();
            let next = cs[i + 1..].iter().find(|x| !x.is_whitespace());
            if let (Some(p), Some(n)) = (prev, next) {
                if is_word(p) && is_word(*n) {
                    out.push(' ');
                }
            }
        } else {
            out.push(*c);
        }
    }
    out
}

/// remove `debug!(..)`, `info!(..)`, `warn!(..)`, `error!(..)`, `trace!(..)` (and a following `;`)
fn strip_logs(s: &str) -> String {
    let re = Regex::new(r"\b(debug|info|warn|error|trace)!\(").expect("re");
    let mut out = String::new();
    let mut rest = s;
    while let Some(m) = re.find(rest) {
        out.push_str(&rest[..m.start()]);
        // skip to the matching parenthesis, honouring string literals
        let bytes: Vec<char> = rest[m.end()..].chars().collect();
        let mut depth = 1usize;
        let mut i = 0usize;
        let mut in_str = false;
        while i < bytes.len() && depth > 0 {
            let c = bytes[i];
            if in_str {
                if c == '\\' {
                    i += 1;
                } else if c == '"' {
                    in_str = false;
                }
            } else if c == '"' {
                in_str = true;
            } else if c == '(' {
                depth += 1;
            } else if c == ')' {
                depth -= 1;
            }
            i += 1;
        }
        let consumed: usize = bytes[..i].iter().map(|c| c.len_utf8()).sum();
        rest = &rest[m.end() + consumed..];
        if let Some(r) = rest.strip_prefix(';') {
            rest = r;
        }
    }
    out.push_str(rest);
    out
}

fn text_of<T: ToTokens>(t: &T) -> String {
    let s = strip_logs(&compact(&toks(t)));
    if std::env::var("RS2LEAN_DEBUG").is_ok() {
        eprintln!("TEXT {s}");
    }
    s
}

/// names of the typed (non-self) parameters
fn params(f: &syn::ImplItemFn) -> Vec<String> {
    sig_params(&f.sig)
}
fn sig_params(sig: &syn::Signature) -> Vec<String> {
    sig.inputs
        .iter()
        .filter_map(|a| match a {
            syn::FnArg::Typed(t) => match &*t.pat {
                syn::Pat::Ident(i) => Some(i.ident.to_string()),
                _ => None,
            },
            _ => None,
        })
        .collect()
}

/// functions analysed on their own (never inlined into a caller)
const ANALYSED: [&str; 10] = [
    "validate_key_and_existence",
    "payment_for_us_exists_and_is_still_valid",
    "store_chunk",
    "validate_and_store_scratchpad_record",
    "validate_merge_and_store_transactions",
    "validate_and_store_register",
    "register_validation",
    "get_local_transactions",
    "validate_and_store_record",
    "store_replicated_in_record",
];

/// inline (one level) calls of private helpers defined in the same file: `self.h(..)` / `Self::h(..)` becomes
/// `self.h⟦<body of h>⟧(..)`
fn inline_helpers(file: &syn::File, text: &str) -> String {
    let re = Regex::new(r"(?:self\.|Self::)(\w+)\(").expect("re");
    let mut out = String::new();
    let mut last = 0;
    for c in re.captures_iter(text) {
        let m = c.get(0).expect("m");
        let name = &c[1];
        out.push_str(&text[last..m.end() - 1]);
        if !ANALYSED.contains(&name) {
            if let Ok(h) = impl_fn(file, "Node", None, name) {
                out.push('⟦');
                out.push_str(&text_of(&h.block));
                out.push('⟧');
            }
        }
        out.push('(');
        last = m.end();
    }
    out.push_str(&text[last..]);
    out
}

/// strip reference / dereference sigils
fn bare(x: &str) -> &str {
    x.trim_start_matches(['&', '*'])
}

/// what a local is bound to: `let [mut] x [: T] = E;` (first binding), followed through up to three levels
fn resolve(text: &str, x: &str) -> String {
    let mut cur = bare(x).to_string();
    for _ in 0..3 {
        if !cur.chars().all(|c| c.is_alphanumeric() || c == '_') {
            break;
        }
        let re = Regex::new(&format!(r"let (?:mut )?{}(?::[^=;]+)?=([^;]+);", regex::escape(&cur))).expect("re");
        match re.captures(text) {
            Some(c) => cur = bare(&c[1]).to_string(),
            None => break,
        }
    }
    cur
}

/// binary comparisons between simple operands (paths, field accesses, nullary method calls)
fn comparisons(text: &str) -> Vec<(String, String, String, usize, usize)> {
    let re = Regex::new(r"([&*]?[A-Za-z_][\w.]*(?:\(\))?(?:\.\w+\(\))?)(==|!=|>=|<=|>|<)([&*]?[A-Za-z_][\w.]*(?:\(\))?(?:\.\w+\(\))?)").expect("re");
    let mut v = vec![];
    let mut at = 0;
    while let Some(c) = re.captures_at(text, at) {
        let m = c.get(0).expect("m");
        v.push((c[1].to_string(), c[2].to_string(), c[3].to_string(), m.start(), m.end()));
        at = m.end();
    }
    v
}

/// the `{..}` block that starts at or after `from`
fn block_after(text: &str, from: usize) -> &str {
    let Some(open) = text[from..].find('{') else { return "" };
    let start = from + open;
    let mut depth = 0usize;
    for (i, c) in text[start..].char_indices() {
        if c == '{' {
            depth += 1;
        } else if c == '}' {
            depth -= 1;
            if depth == 0 {
                return &text[start..start + i + 1];
            }
        }
    }
    ""
}

fn flip(op: &str) -> &'static str {
    match op {
        ">=" => "<=",
        "<=" => ">=",
        ">" => "<",
        "<" => ">",
        "==" => "==",
        _ => "!=",
    }
}

/// `if <presented> != <local bound to ..to_record_key()> { .. RecordKeyMismatch .. }`
///   true: recognised; false: the text neither compares `presented` nor mentions RecordKeyMismatch; else Err
fn key_check(what: &str, text: &str, presented: &str) -> Result<(bool, usize), String> {
    let mut found = None;
    let mut any_cmp = false;
    for (l, op, r, s, e) in comparisons(text) {
        let (other, hit) = if bare(&l) == presented {
            (r.clone(), true)
        } else if bare(&r) == presented {
            (l.clone(), true)
        } else {
            (String::new(), false)
        };
        if !hit {
            continue;
        }
        any_cmp = true;
        if op == "!=" && resolve(text, &other).contains("to_record_key()") && block_after(text, e).contains("RecordKeyMismatch") && (text[..s].ends_with("if ") || text[..s].ends_with("if")) {
            found = Some(s);
        }
    }
    match (found, any_cmp, text.contains("RecordKeyMismatch")) {
        (Some(p), _, _) => Ok((true, p)),
        (None, false, false) => Ok((false, 0)),
        _ => Err(format!("{what}: key comparison with `{presented}` has an unrecognised shape")),
    }
}


// ------------------------------------------------------------------------------------------------
// what is (de)serialised, and whether addresses are recomputed or carried
// ------------------------------------------------------------------------------------------------

/// (derive list, named fields as (name, type) — tuple fields are named 0, 1, ..)
fn struct_def(file: &syn::File, name: &str) -> Result<(Vec<String>, Vec<(String, String)>), String> {
    for it in &file.items {
        if let syn::Item::Struct(st) = it {
            if st.ident == name {
                let mut derives = vec![];
                for a in &st.attrs {
                    if a.path().is_ident("derive") {
                        let t = compact(&toks(&a.meta));
                        let inner = t.trim_start_matches("derive(").trim_end_matches(')');
                        for d in inner.split(',') {
                            let d = d.trim();
                            if !d.is_empty() {
                                derives.push(d.rsplit("::").next().unwrap_or(d).to_string());
                            }
                        }
                    }
                }
                let fields = st
                    .fields
                    .iter()
                    .enumerate()
                    .map(|(i, f)| (f.ident.as_ref().map(|x| x.to_string()).unwrap_or_else(|| i.to_string()), compact(&toks(&f.ty))))
                    .collect();
                return Ok((derives, fields));
            }
        }
    }
    Err(format!("struct {name} not found"))
}

fn has_impl(file: &syn::File, trait_name: &str, ty: &str) -> bool {
    file.items.iter().any(|it| match it {
        syn::Item::Impl(i) => {
            let t = i.trait_.as_ref().and_then(|(_, p, _)| p.segments.last()).map(|s| s.ident.to_string());
            t.as_deref() == Some(trait_name) && compact(&toks(&i.self_ty)) == ty
        }
        _ => false,
    })
}

struct WireShape {
    pad_addr: bool,
    reg_addr: bool,
    chunk_off_wire: bool,
    tx_addr: bool,
    tx_ord: bool,
}

fn wire_shape(repo: &PathBuf) -> Result<WireShape, String> {
    let names = |fs: &[(String, String)]| fs.iter().map(|f| f.0.clone()).collect::<Vec<_>>();
    // ScratchpadAddress: on the wire inside every Scratchpad (derives Deserialize)
    let f = parse_file(&repo.join("ant-protocol/src/storage/address/scratchpad.rs"))?;
    let (d, fields) = struct_def(&f, "ScratchpadAddress")?;
    if !d.contains(&"Deserialize".to_string()) {
        return Err("ScratchpadAddress: no longer derives Deserialize".into());
    }
    let xn = text_of(&impl_fn(&f, "ScratchpadAddress", None, "xorname")?.block);
    let pad_addr = if names(&fields) == ["owner"] && xn == "{XorName::from_content(&self.owner.to_bytes())}" {
        true
    } else if let Some(stored) = fields.iter().find(|(_, t)| t == "XorName") {
        if xn == format!("{{self.{}}}", stored.0) {
            false
        } else {
            return Err("ScratchpadAddress::xorname: shape not recognised".into());
        }
    } else {
        return Err("ScratchpadAddress: fields / xorname() not recognised".into());
    };
    // Scratchpad itself
    let f = parse_file(&repo.join("ant-protocol/src/storage/scratchpad.rs"))?;
    let (d, fields) = struct_def(&f, "Scratchpad")?;
    if !d.contains(&"Deserialize".to_string()) || names(&fields) != ["address", "data_encoding", "encrypted_data", "counter", "signature"] {
        return Err("Scratchpad: serialised fields changed".into());
    }
    if text_of(&impl_fn(&f, "Scratchpad", None, "network_address")?.block) != "{NetworkAddress::ScratchpadAddress(self.address)}" {
        return Err("Scratchpad::network_address: shape not recognised".into());
    }
    // RegisterAddress
    let f = parse_file(&repo.join("ant-registers/src/address.rs"))?;
    let (_, fields) = struct_def(&f, "RegisterAddress")?;
    let xn = text_of(&impl_fn(&f, "RegisterAddress", None, "xorname")?.block);
    let reg_addr = if names(&fields) == ["meta", "owner"]
        && xn.contains("extend_from_slice(&self.meta.0);")
        && xn.contains("extend_from_slice(&self.owner.to_bytes());")
        && xn.ends_with("XorName::from_content(&bytes)}")
    {
        true
    } else if let Some(stored) = fields.iter().find(|(n, t)| t == "XorName" && n != "meta") {
        if xn == format!("{{self.{}}}", stored.0) {
            false
        } else {
            return Err("RegisterAddress::xorname: shape not recognised".into());
        }
    } else {
        return Err("RegisterAddress: fields / xorname() not recognised".into());
    };
    // Chunk: ChunkAddress carries a stored name, but it never comes off the wire: only `value` is serialised and
    // deserialisation rebuilds the address from it
    let f = parse_file(&repo.join("ant-protocol/src/storage/chunks.rs"))?;
    let (d, _) = struct_def(&f, "Chunk")?;
    let chunk_off_wire = if d.contains(&"Deserialize".to_string()) {
        false
    } else {
        let ser = text_of(&impl_fn(&f, "Chunk", Some("Serialize"), "serialize")?.block);
        let de = text_of(&impl_fn(&f, "Chunk", Some("Deserialize"), "deserialize")?.block);
        let new = text_of(&impl_fn(&f, "Chunk", None, "new")?.block);
        if ser == "{self.value.serialize(serialiser)}" && de.ends_with("Ok(Self::new(value))}") && new.contains("address:ChunkAddress::new(XorName::from_content(value.as_ref()))") {
            true
        } else {
            return Err("Chunk: (de)serialisation shape not recognised".into());
        }
    };
    // Transaction: no address on the wire; `address()` recomputes from the owner
    let f = parse_file(&repo.join("ant-protocol/src/storage/transaction.rs"))?;
    let (d, fields) = struct_def(&f, "Transaction")?;
    let fa = parse_file(&repo.join("ant-protocol/src/storage/address/transaction.rs"))?;
    let from_owner = text_of(&impl_fn(&fa, "TransactionAddress", None, "from_owner")?.block);
    let addr = text_of(&impl_fn(&f, "Transaction", None, "address")?.block);
    let tx_addr = if names(&fields) == ["owner", "parents", "content", "outputs", "signature"]
        && addr == "{TransactionAddress::from_owner(self.owner)}"
        && from_owner == "{Self(XorName::from_content(&owner.to_bytes()))}"
    {
        true
    } else if let Some(stored) = fields.iter().find(|(_, t)| t == "TransactionAddress" || t == "XorName") {
        if addr == format!("{{self.{}}}", stored.0) {
            false
        } else {
            return Err("Transaction::address: shape not recognised".into());
        }
    } else {
        return Err("Transaction: fields / address() not recognised".into());
    };
    // set semantics of `BTreeSet<Transaction>`: by value of every field iff Ord/PartialOrd/Eq are derived
    let all_derived = ["Ord", "PartialOrd", "Eq", "PartialEq"].iter().all(|t| d.contains(&t.to_string()));
    let any_manual = ["Ord", "PartialOrd", "Eq", "PartialEq"].iter().any(|t| has_impl(&f, t, "Transaction"));
    let tx_ord = match (all_derived, any_manual) {
        (true, false) => true,
        (false, true) => false,
        _ => return Err("Transaction: ordering / equality neither all derived nor hand-written".into()),
    };
    Ok(WireShape { pad_addr, reg_addr, chunk_off_wire, tx_addr, tx_ord })
}

/// the `match record_header.kind { .. }` of a routing function: (kind name, canonical arm body with helpers inlined)
fn arms(file: &syn::File, f: &syn::ImplItemFn) -> Result<Vec<(String, String)>, String> {
    struct Find<'a>(Option<&'a syn::ExprMatch>);
    impl<'ast> syn::visit::Visit<'ast> for Find<'ast> {
        fn visit_expr_match(&mut self, m: &'ast syn::ExprMatch) {
            if self.0.is_none() && toks(&m.expr).replace(' ', "") == "record_header.kind" {
                self.0 = Some(m);
            }
            syn::visit::visit_expr_match(self, m);
        }
    }
    let mut fnd = Find(None);
    syn::visit::Visit::visit_block(&mut fnd, &f.block);
    let m = fnd.0.ok_or_else(|| format!("{}: no `match record_header.kind`", f.sig.ident))?;
    let mut v = vec![];
    for a in &m.arms {
        if a.guard.is_some() {
            return Err(format!("{}: guarded arm", f.sig.ident));
        }
        let mut ks = vec![];
        pat_kinds(&a.pat, &mut ks)?;
        let body = inline_helpers(file, &text_of(&a.body));
        for k in ks {
            v.push((k, body.clone()));
        }
    }
    for (k, _) in KINDS {
        if v.iter().filter(|(n, _)| n == k).count() != 1 {
            return Err(format!("{}: RecordKind::{k} not matched exactly once", f.sig.ident));
        }
    }
    Ok(v)
}

fn has(body: &str, needle: &str) -> bool {
    body.contains(needle)
}

fn branch_of(client: bool, kind: &str, body: &str) -> Result<&'static str, String> {
    let pay = has(body, "payment_for_us_exists_and_is_still_valid(");
    let chunk = has(body, "store_chunk(");
    let pad = has(body, "validate_and_store_scratchpad_record(");
    let tx = has(body, "validate_merge_and_store_transactions(");
    let reg = has(body, "validate_and_store_register(");
    let unpaid_err = has(body, "InvalidPutWithoutPayment");
    let unexpected = has(body, "UnexpectedRecordWithPayment");
    let stores = [chunk, pad, tx, reg].iter().filter(|b| **b).count();
    let b = match (client, pay, stores, chunk, pad, tx, reg) {
        (true, true, 1, true, _, _, _) => "chunkPaid",
        (true, true, 1, _, true, _, _) => "padPaid",
        (true, true, 1, _, _, true, _) => "txPaid",
        (true, true, 1, _, _, _, true) => "regPaid",
        (true, false, 0, ..) if unpaid_err => "rejectUnpaid",
        (true, false, 1, _, true, _, _) if unpaid_err => "padUpdate",
        (true, false, 1, _, _, _, true) if unpaid_err => "regUpdate",
        (false, false, 0, ..) if unexpected => "rejectPaid",
        (false, false, 1, true, ..) => "chunkRepl",
        (false, false, 1, _, true, _, _) => "padRepl",
        (false, false, 1, _, _, true, _) => "txRepl",
        (false, false, 1, _, _, _, true) => "regRepl",
        _ => return Err(format!("arm for RecordKind::{kind} ({}) has an unrecognised shape", if client { "client" } else { "replication" })),
    };
    Ok(b)
}

/// libp2p-kad's `K_VALUE` (version from Cargo.lock, source from the cargo registry)
fn k_value(repo: &PathBuf) -> Result<u128, String> {
    let lock = std::fs::read_to_string(repo.join("Cargo.lock")).map_err(|e| format!("Cargo.lock: {e}"))?;
    let mut ver = None;
    let mut lines = lock.lines();
    while let Some(l) = lines.next() {
        if l.trim() == "name = \"libp2p-kad\"" {
            if let Some(v) = lines.next() {
                ver = v.trim().strip_prefix("version = \"").and_then(|s| s.strip_suffix('"')).map(|s| s.to_string());
            }
            break;
        }
    }
    let ver = ver.ok_or("libp2p-kad not found in Cargo.lock")?;
    let home = std::env::var("CARGO_HOME").unwrap_or_else(|_| format!("{}/.cargo", std::env::var("HOME").unwrap_or_else(|_| "/root".into())));
    let src = PathBuf::from(home).join("registry/src");
    let mut found = None;
    for d in std::fs::read_dir(&src).map_err(|e| format!("{}: {e}", src.display()))? {
        let p = d.map_err(|e| e.to_string())?.path().join(format!("libp2p-kad-{ver}/src/lib.rs"));
        if p.exists() {
            found = Some(p);
        }
    }
    let p = found.ok_or(format!("libp2p-kad-{ver}/src/lib.rs not found in the cargo registry"))?;
    let file = parse_file(&p)?;
    for (n, e) in consts(&file) {
        if n == "K_VALUE" {
            struct Lits(Vec<u128>);
            impl<'ast> syn::visit::Visit<'ast> for Lits {
                fn visit_lit_int(&mut self, i: &'ast syn::LitInt) {
                    if let Ok(x) = i.base10_parse::<u128>() {
                        self.0.push(x);
                    }
                }
            }
            let mut l = Lits(vec![]);
            syn::visit::Visit::visit_expr(&mut l, &e);
            if l.0.len() == 1 {
                return Ok(l.0[0]);
            }
            return Err(format!("K_VALUE: expected exactly one integer literal in `{}`", toks(&e)));
        }
    }
    Err("K_VALUE not found in libp2p-kad".into())
}


/// `ProofOfPayment::verify_for`:
///   true  — this node must be among the payees, and every quote is checked against the peer decoded from its
///           claimed id, an undecodable id failing the whole proof (for-loop with early `return false`, or `.all(..)`);
///   false — a known weaker shape: no payee test, or an undecodable id is skipped (`continue` / `true`);
///   Err   — anything else.
fn verify_for_shape(f: &syn::ImplItemFn) -> Result<bool, String> {
    let text = text_of(&f.block);
    let ps = params(f);
    let p = ps.first().ok_or("verify_for: no parameter")?;
    let payee_test = text.contains(&format!("if!self.payees().contains(&{p}){{return false;}}"));
    if!payee_test && text.contains("payees()") {
        return Err("verify_for: payee test has an unrecognised shape".into());
    }
    // the match on `..to_peer_id()`
    struct Find<'a>(Option<&'a syn::ExprMatch>);
    impl<'ast> syn::visit::Visit<'ast> for Find<'ast> {
        fn visit_expr_match(&mut self, m: &'ast syn::ExprMatch) {
            if self.0.is_none() && toks(&m.expr).contains("to_peer_id") {
                self.0 = Some(m);
            }
            syn::visit::visit_expr_match(self, m);
        }
    }
    let mut fnd = Find(None);
    syn::visit::Visit::visit_block(&mut fnd, &f.block);
    let m = fnd.0.ok_or("verify_for: no `match ..to_peer_id()`")?;
    let mut ok_binding = None;
    let mut ok_body = String::new();
    let mut other_bodies = vec![];
    for a in &m.arms {
        let pat = compact(&toks(&a.pat));
        if let Some(c) = Regex::new(r"^Ok\((\w+)\)$").expect("re").captures(&pat) {
            ok_binding = Some(c[1].to_string());
            ok_body = text_of(&a.body);
        } else {
            other_bodies.push(text_of(&a.body));
        }
    }
    let okb = ok_binding.ok_or("verify_for: no `Ok(x)` arm")?;
    if other_bodies.is_empty() {
        return Err("verify_for: no arm for an undecodable id".into());
    }
    let skipped = other_bodies.iter().any(|b| matches!(b.as_str(), "{continue;}" | "continue" | "{continue}" | "true" | "{true}"));
    // shape A: for-loop; the match yields the decoded peer, every other arm leaves with false
    let for_re = Regex::new(r"for\((\w+),(\w+)\)in self\.peer_quotes\.iter\(\)\{").expect("re");
    if let Some(c) = for_re.captures(&text) {
        let q = c[2].to_string();
        let bind_re = Regex::new(&format!(r"let (\w+)=match {}\.to_peer_id\(\)", regex::escape(&c[1]))).expect("re");
        let bound = bind_re.captures(&text).map(|c| c[1].to_string());
        let decoded_ok = ok_body == okb;
        let sig_ok = bound.as_ref().map(|b| text.contains(&format!("if!{q}.check_is_signed_by_claimed_peer({b}){{return false;}}"))).unwrap_or(false);
        let ends_true = text.ends_with("}true}");
        if decoded_ok && sig_ok && ends_true {
            if other_bodies.iter().all(|b| b == "{return false;}" || b == "return false") {
                return Ok(payee_test);
            }
            if skipped {
                return Ok(false);
            }
        }
        return Err("verify_for: for-loop shape not recognised".into());
    }
    // shape B: `.all(|(id, quote)| match id.to_peer_id() { Ok(p) => quote.check..(p), Err(_) => false })`
    let all_re = Regex::new(r"self\.peer_quotes\.iter\(\)\.all\(\|\((\w+),(\w+)\)\|match (\w+)\.to_peer_id\(\)").expect("re");
    if let Some(c) = all_re.captures(&text) {
        let q = c[2].to_string();
        if c[1] == c[3] && ok_body == format!("{q}.check_is_signed_by_claimed_peer({okb})") {
            if other_bodies.iter().all(|b| b == "{false}" || b == "false") {
                return Ok(payee_test);
            }
            if skipped {
                return Ok(false);
            }
        }
        return Err("verify_for: `.all(..)` shape not recognised".into());
    }
    Err("verify_for: neither the for-loop nor the `.all(..)` shape".into())
}

fn first_pos(body: &str, needles: &[&str]) -> Option<usize> {
    needles.iter().filter_map(|n| body.find(n)).min()
}

/// the checks of `payment_for_us_exists_and_is_still_valid` in source order (helpers inlined)
fn pay_steps(file: &syn::File, f: &syn::ImplItemFn) -> Result<Vec<&'static str>, String> {
    let t = inline_helpers(file, &text_of(&f.block));
    let w = "payment_for_us_exists_and_is_still_valid";
    let mut steps: Vec<(usize, &'static str)> = vec![];
    // forUs
    if t.contains("verify_for") {
        let re = Regex::new(r"if!\w+\.verify_for\(\w+\)").expect("re");
        let m = re.find(&t).ok_or(format!("{w}: verify_for call has an unrecognised shape"))?;
        if!block_after(&t, m.end()).contains("return Err(") {
            return Err(format!("{w}: a failing verify_for does not return an error"));
        }
        steps.push((m.start(), "forUs"));
    }
    // content
    let mentions_content = t.contains("InvalidQuoteContent") || t.contains(".content");
    if mentions_content {
        let any_form = Regex::new(r"if \w+\.quotes_by_peer\(&?\w+\)\.iter\(\)\.any\(\|(\w+)\|(\w+)\.content!=(\w+)\)\{").expect("re");
        let all_form = Regex::new(r"if!(?:Self::|self\.)\w+⟦[^⟧]*\.quotes_by_peer\(&?\w+\)\.iter\(\)\.all\(\|(\w+)\|(\w+)\.content==(\w+)\)\}?⟧\([^)]*\)\{").expect("re");
        let all_inline = Regex::new(r"if!\w+\.quotes_by_peer\(&?\w+\)\.iter\(\)\.all\(\|(\w+)\|(\w+)\.content==(\w+)\)\{").expect("re");
        let hit = [&any_form, &all_form, &all_inline].iter().find_map(|re| re.captures(&t).map(|c| (c.get(0).expect("m").start(), c.get(0).expect("m").end(), c[1].to_string(), c[2].to_string(), c[3].to_string())));
        let (s, e, a, b, other) = hit.ok_or(format!("{w}: quote content check has an unrecognised shape"))?;
        if a != b || !resolve(&t, &other).contains("as_xorname()") || !block_after(&t, e - 1).contains("return Err(Error::InvalidQuoteContent)") {
            return Err(format!("{w}: quote content is not compared with the address being stored"));
        }
        steps.push((s, "content"));
    }
    // expiry
    if t.contains("has_expired") {
        let re = Regex::new(r"if \w+\.has_expired\(\)").expect("re");
        let m = re.find(&t).ok_or(format!("{w}: has_expired call has an unrecognised shape"))?;
        if!block_after(&t, m.end()).contains("return Err(") {
            return Err(format!("{w}: an expired proof does not return an error"));
        }
        steps.push((m.start(), "expiry"));
    }
    // close
    if t.contains("get_closest_k_value_local_peers") {
        let re = Regex::new(r"let (\w+)=self\.network\(\)\.get_closest_k_value_local_peers\(\)\.await\?;").expect("re");
        let c = re.captures(&t).ok_or(format!("{w}: closest peers are fetched in an unrecognised way"))?;
        let cv = c[1].to_string();
        let pos = c.get(0).expect("m").start();
        let filtered = Regex::new(&format!(r"\.(?:retain|filter)\(\|(\w+)\|!{}\.contains\((\w+)\)\)", regex::escape(&cv)))
            .expect("re")
            .captures(&t)
            .map(|c| c[1] == c[2])
            .unwrap_or(false);
        let rejects = Regex::new(r"if!\w+\.is_empty\(\)\{return Err\(Error::InvalidRequest\(").expect("re").is_match(&t)
            || Regex::new(r"if \w+\.is_empty\(\)\{return Ok\(\(\)\);\}Err\(Error::InvalidRequest\(").expect("re").is_match(&t);
        if!(filtered && rejects && t.contains(".payees()")) {
            return Err(format!("{w}: payee closeness test has an unrecognised shape"));
        }
        // a helper returning Result must be propagated
        if t[..pos].ends_with('⟦') && !Regex::new(r"⟧\([^)]*\)\.await\?;").expect("re").is_match(&t[pos..]) {
            return Err(format!("{w}: result of the closeness helper is not propagated"));
        }
        steps.push((pos, "close"));
    }
    // chain
    if t.contains("verify_data_payment") {
        let re = Regex::new(r"verify_data_payment\([^;]*\)\.await\.map_err\([^;]*\)\?;").expect("re");
        let m = re.find(&t).ok_or(format!("{w}: verify_data_payment result is not propagated in the recognised way"))?;
        steps.push((m.start(), "chain"));
        match t.find("notify_payment_received()") {
            Some(p) if p > m.start() => {}
            _ => return Err(format!("{w}: no notify_payment_received after the on-chain check")),
        }
    } else if!t.contains("notify_payment_received()") {
        return Err(format!("{w}: no notify_payment_received"));
    }
    steps.sort();
    Ok(steps.into_iter().map(|(_, n)| n).collect())
}

/// comparison of the stored and the incoming scratchpad counter, normalised to `stored OP incoming`
fn pad_counter_cmp(f: &syn::ImplItemFn) -> Result<bool, String> {
    let t = text_of(&f.block);
    let incoming = params(f).first().cloned().ok_or("scratchpad fn: no parameter")?;
    let cnt = Regex::new(r"^(\w+)\.count\(\)$").expect("re");
    let mut hits = vec![];
    for (l, op, r, _s, e) in comparisons(&t) {
        let (rl, rr) = (resolve(&t, &l), resolve(&t, &r));
        if let (Some(a), Some(b)) = (cnt.captures(&rl), cnt.captures(&rr)) {
            let (a, b) = (a[1].to_string(), b[1].to_string());
            let op = if a != incoming && b == incoming {
                op.clone()
            } else if a == incoming && b != incoming {
                flip(&op).to_string()
            } else {
                return Err("validate_and_store_scratchpad_record: counter comparison not between stored and incoming".into());
            };
            hits.push((op, block_after(&t, e).contains("IgnoringOutdatedScratchpadPut")));
        }
    }
    match hits.as_slice() {
        [(op, true)] if op == ">=" => Ok(true),
        [(op, true)] if op == ">" => Ok(false),
        _ => Err("validate_and_store_scratchpad_record: counter comparison not recognised".into()),
    }
}


// ------------------------------------------------------------------------------------------------
// "update only" puts and the node's own size test
// ------------------------------------------------------------------------------------------------

/// arguments of the (first) call `name(..)` in `text`, split at top-level commas (a trailing comma is dropped)
fn call_args(text: &str, name: &str) -> Option<Vec<String>> {
    let start = text.find(&format!("{name}("))? + name.len() + 1;
    let mut depth = 0i32;
    let mut cur = String::new();
    let mut out = vec![];
    for c in text[start..].chars() {
        match c {
            '(' | '[' | '{' | '<' => {
                depth += 1;
                cur.push(c);
            }
            ')' | ']' | '}' | '>' if depth > 0 => {
                depth -= 1;
                cur.push(c);
            }
            ')' => {
                if !cur.is_empty() {
                    out.push(cur);
                }
                return Some(out);
            }
            ',' if depth == 0 => {
                out.push(std::mem::take(&mut cur));
            }
            _ => cur.push(c),
        }
    }
    None
}

/// how an arm passes the "must exist locally" argument (the last one) to a store function
#[derive(PartialEq, Debug)]
enum LastArg {
    /// the call has the old arity: there is no such argument
    Absent,
    Lit(bool),
    /// a local that starts `false` and is set to `true` exactly where a failed payment is tolerated because the
    /// key was reported as held: `let mut v=false;if let Err(e)=self.payment_for_us..(..).await{if held{v=true;}else{return Err(e);}}`
    OnToleratedPaymentFailure,
}

fn last_arg(what: &str, arm: &str, callee: &str, old_arity: usize) -> Result<LastArg, String> {
    let args = call_args(arm, callee).ok_or(format!("{what}: call of {callee} not found"))?;
    if arm.matches(&format!("{callee}(")).count() != 1 {
        return Err(format!("{what}: {callee} is not called exactly once"));
    }
    if args.len() == old_arity {
        return Ok(LastArg::Absent);
    }
    if args.len() != old_arity + 1 {
        return Err(format!("{what}: {callee} called with {} arguments", args.len()));
    }
    let a = args[old_arity].as_str();
    match a {
        "true" => return Ok(LastArg::Lit(true)),
        "false" => return Ok(LastArg::Lit(false)),
        _ => {}
    }
    if !a.chars().all(|c| c.is_alphanumeric() || c == '_') {
        return Err(format!("{what}: last argument `{a}` of {callee} is neither a literal nor a local"));
    }
    let v = regex::escape(a);
    let re = Regex::new(&format!(
        r"let mut {v}=false;if let Err\((\w+)\)=self\.payment_for_us_exists_and_is_still_valid\([^;{{}}]*\)\.await\{{if (\w+)\{{{v}=true;\}}else\{{return Err\((\w+)\);\}}\}}"
    ))
    .expect("re");
    let c = re.captures(arm).ok_or(format!("{what}: `{a}` is not set in the recognised way"))?;
    if c[1] != c[3] || !resolve(arm, &c[2]).contains("validate_key_and_existence(") {
        return Err(format!("{what}: `{a}` is not tied to the existence answer / the payment error in the recognised way"));
    }
    // no other assignment
    if Regex::new(&format!(r"\b{v}=[^=]")).expect("re").find_iter(arm).count() != 2 {
        return Err(format!("{what}: `{a}` is assigned elsewhere"));
    }
    Ok(LastArg::OnToleratedPaymentFailure)
}

/// flag of one "update only" site: the store function has the rejection (`has_check`), and the arm in question passes
/// `want`; every other arm must pass `false`.  New shape absent everywhere = `false`.
fn needs_local(what: &str, has_check: Option<bool>, site: &LastArg, want: &LastArg, others: &[&LastArg]) -> Result<bool, String> {
    match has_check {
        None => Err(format!("{what}: the rejection of a put without a local copy has an unrecognised shape")),
        Some(false) => {
            if *site == LastArg::Absent && others.iter().all(|o| **o == LastArg::Absent) {
                Ok(false)
            } else {
                Err(format!("{what}: call sites pass an extra argument the store function does not take"))
            }
        }
        Some(true) => {
            if others.iter().any(|o| **o != LastArg::Lit(false)) {
                return Err(format!("{what}: a paid / replication call site does not pass `false`"));
            }
            if site == want {
                Ok(true)
            } else if *site == LastArg::Lit(false) {
                Ok(false)
            } else {
                Err(format!("{what}: the call site passes {site:?}, expected {want:?} or `false`"))
            }
        }
    }
}

/// source text of a file of a registry crate at the version pinned in Cargo.lock
fn registry_file(repo: &PathBuf, krate: &str, rel: &str) -> Result<String, String> {
    let lock = std::fs::read_to_string(repo.join("Cargo.lock")).map_err(|e| format!("Cargo.lock: {e}"))?;
    let mut ver = None;
    let mut lines = lock.lines();
    while let Some(l) = lines.next() {
        if l.trim() == format!("name = \"{krate}\"") {
            if let Some(v) = lines.next() {
                ver = v.trim().strip_prefix("version = \"").and_then(|s| s.strip_suffix('"')).map(|s| s.to_string());
            }
            break;
        }
    }
    let ver = ver.ok_or(format!("{krate} not found in Cargo.lock"))?;
    let home = std::env::var("CARGO_HOME").unwrap_or_else(|_| format!("{}/.cargo", std::env::var("HOME").unwrap_or_else(|_| "/root".into())));
    let src = PathBuf::from(home).join("registry/src");
    for d in std::fs::read_dir(&src).map_err(|e| format!("{}: {e}", src.display()))? {
        let p = d.map_err(|e| e.to_string())?.path().join(format!("{krate}-{ver}/{rel}"));
        if p.exists() {
            return std::fs::read_to_string(&p).map_err(|e| format!("{}: {e}", p.display()));
        }
    }
    Err(format!("{krate}-{ver}/{rel} not found in the cargo registry"))
}

/// `const NAME: T = a * b * c;` anywhere in `src` (product of integer literals)
fn const_product(src: &str, name: &str) -> Result<u128, String> {
    let re = Regex::new(&format!(r"const {name}\s*:\s*\w+\s*=\s*([0-9_ *]+);")).expect("re");
    let c = re.captures(src).ok_or(format!("{name}: not found as a product of integer literals"))?;
    let mut v: u128 = 1;
    for f in c[1].split('*') {
        let f: String = f.chars().filter(|c| c.is_ascii_digit()).collect();
        v = v.checked_mul(f.parse::<u128>().map_err(|e| format!("{name}: {e}"))?).ok_or(format!("{name}: overflow"))?;
    }
    Ok(v)
}

/// Does the routing function refuse an oversized record before anything else?
///   Some((true, at_limit)): its first statement is `Self::h(&record)?;` / `self.h(&record)?;` where the private helper `h`
///   is `if <param>.value.len() >= | > MAX_PACKET_SIZE { return Err(..) } Ok(())`;
///   Some((false, _)): its first statement is the header parse (no size test at all);  None: anything else.
fn size_gate(file: &syn::File, f: &syn::ImplItemFn) -> Option<(bool, bool)> {
    let t = text_of(&f.block);
    let rec = params(f).first().cloned()?;
    if t.starts_with(&format!("{{let record_header=RecordHeader::from_record(&{rec})?;")) && !t.contains(".len()") && !t.contains("MAX_PACKET_SIZE") {
        return Some((false, true));
    }
    let c = Regex::new(&format!(r"^\{{(?:Self::|self\.)(\w+)\(&{}\)\?;let record_header=RecordHeader::from_record\(&{}\)\?;", regex::escape(&rec), regex::escape(&rec))).expect("re").captures(&t)?;
    let h = impl_fn(file, "Node", None, &c[1]).ok()?;
    let hp = params(h).first().cloned()?;
    let ht = text_of(&h.block);
    let mut found = None;
    for (l, op, r, s, e) in comparisons(&ht) {
        let op = if l == format!("{hp}.value.len()") && r == "MAX_PACKET_SIZE" {
            op.clone()
        } else if r == format!("{hp}.value.len()") && l == "MAX_PACKET_SIZE" {
            flip(&op).to_string()
        } else {
            continue;
        };
        if found.is_some() || !ht.starts_with("{if ") || s != 4 || !block_after(&ht, e).contains("return Err(") {
            return None;
        }
        found = Some(op);
    }
    if !ht.ends_with("}Ok(())}") {
        return None;
    }
    match found.as_deref() {
        Some(">=") => Some((true, true)),
        Some(">") => Some((true, false)),
        _ => None,
    }
}

/// Does the store function `name` hand the record it has just built (`let record = Record { .. }`) to the node's size
/// test — the helper both entry points start with — BEFORE `put_local_record(record)`?  `Err` on an unexpected shape
/// (no single `put_local_record(record)` / no single `let record=Record{`).
fn put_gate(file: &syn::File, entry: &syn::ImplItemFn, name: &str) -> Result<bool, String> {
    let et = text_of(&entry.block);
    let helper = Regex::new(r"^\{(?:Self::|self\.)(\w+)\(&\w+\)\?;").expect("re").captures(&et).map(|c| c[1].to_string());
    let f = impl_fn(file, "Node", None, name)?;
    let t = text_of(&f.block);
    let put = "self.network().put_local_record(record);";
    if t.matches(put).count() != 1 || t.matches("let record=Record{").count() != 1 {
        return Err(format!("{name}: expected exactly one `let record = Record {{..}}` and one `put_local_record(record)`"));
    }
    let (a, b) = (t.find("let record=Record{").expect("found"), t.find(put).expect("found"));
    if a > b {
        return Err(format!("{name}: `put_local_record(record)` precedes the construction of `record`"));
    }
    let between = &t[a..b];
    Ok(match helper {
        Some(h) => between.contains(&format!("Self::{h}(&record)?;")) || between.contains(&format!("self.{h}(&record)?;")),
        None => false,
    })
}

pub fn generate(repo: &PathBuf) -> Result<String, String> {
    let rel = "ant-node/src/put_validation.rs";
    let file = parse_file(&repo.join(rel))?;
    let client = impl_fn(&file, "Node", None, "validate_and_store_record")?;
    let repl = impl_fn(&file, "Node", None, "store_replicated_in_record")?;
    let carms = arms(&file, client)?;
    let rarms = arms(&file, repl)?;

    let mut s = header("ant-node/src/put_validation.rs, ant-evm/src/data_payments.rs, evmlib/src/contract/payment_vault/mod.rs, ant-networking/src/record_store.rs, ant-networking/src/driver.rs, ant-networking/src/cmd.rs, ant-protocol/src/storage/{scratchpad,transaction,chunks}.rs, ant-protocol/src/storage/address/*.rs, ant-registers/src/address.rs");
    s.push_str("namespace SafeNet.Gen.Validate\n");
    s.push_str("/-- `RecordKind` -/\ninductive Kind | chunkp | chunk | padp | pad | txp | tx | regp | reg\nderiving DecidableEq, Repr\n");
    s.push_str("/-- shapes of the match arms of the two routing functions -/\ninductive Branch | chunkPaid | rejectUnpaid | padPaid | padUpdate | txPaid | regUpdate | regPaid | rejectPaid | chunkRepl | padRepl | txRepl | regRepl\nderiving DecidableEq, Repr\n");
    s.push_str("/-- checks of `payment_for_us_exists_and_is_still_valid` -/\ninductive PayStep | forUs | content | expiry | close | chain\nderiving DecidableEq, Repr\n");

    let mut route = |name: &str, doc: &str, arms: &[(String, String)], is_client: bool| -> Result<(), String> {
        s.push_str(&format!("/-- {doc} -/\ndef {name} : Kind → Branch\n"));
        for (rk, lk) in KINDS {
            let body = &arms.iter().find(|(n, _)| n == rk).expect("checked").1;
            s.push_str(&format!("  | .{lk} => .{}\n", branch_of(is_client, rk, body)?));
        }
        Ok(())
    };
    route("clientRoute", "`validate_and_store_record`: kind → branch", &carms, true)?;
    route("replRoute", "`store_replicated_in_record`: kind → branch", &rarms, false)?;

    let arm = |arms: &[(String, String)], k: &str| arms.iter().find(|(n, _)| n == k).expect("checked").1.clone();
    // explicit `record.key != <derived key>` checks in the arms that derive the key themselves
    let flags: Vec<(&str, &str, bool)> = vec![
        ("regUpdateChecksKey", "client `Register` arm compares `record.key` with the derived key", key_check("client Register arm", &arm(&carms, "Register"), "record.key")?.0),
        ("regPaidChecksKey", "client `RegisterWithPayment` arm compares `record.key` with the derived key", key_check("client RegisterWithPayment arm", &arm(&carms, "RegisterWithPayment"), "record.key")?.0),
        ("txPaidChecksKey", "client `TransactionWithPayment` arm compares `record.key` with the derived key", key_check("client TransactionWithPayment arm", &arm(&carms, "TransactionWithPayment"), "record.key")?.0),
        ("regReplChecksKey", "replication `Register` arm compares `record.key` with the derived key", key_check("replication Register arm", &arm(&rarms, "Register"), "record.key")?.0),
    ];

    // validate_key_and_existence: the key comparison, and it must precede the existence short-circuit
    let vke_fn = impl_fn(&file, "Node", None, "validate_key_and_existence")?;
    let vke = text_of(&vke_fn.block);
    let vke_params = params(vke_fn);
    let presented = vke_params.get(1).ok_or("validate_key_and_existence: expected (address, expected_record_key)")?;
    let (vke_checks, vke_pos) = key_check("validate_key_and_existence", &vke, presented)?;
    if vke_checks {
        match vke.find("is_record_key_present_locally(") {
            Some(p) if p > vke_pos => {}
            _ => return Err("validate_key_and_existence: the key comparison no longer precedes the existence test".into()),
        }
    }

    // payment_for_us_exists_and_is_still_valid: which checks, in source order
    let steps = pay_steps(&file, impl_fn(&file, "Node", None, "payment_for_us_exists_and_is_still_valid")?)?;

    // scratchpad store function
    let pad_fn = impl_fn(&file, "Node", None, "validate_and_store_scratchpad_record")?;
    let padf = text_of(&pad_fn.block);
    let pad_params = params(pad_fn);
    let pad_in = pad_params.first().ok_or("validate_and_store_scratchpad_record: no parameter")?;
    let pad_rejects_equal = pad_counter_cmp(pad_fn)?;
    let pad_checks_sig = {
        let re = Regex::new(&format!(r"if!{}\.is_valid\(\)", regex::escape(pad_in))).expect("re");
        match re.find(&padf) {
            Some(m) if block_after(&padf, m.end()).contains("return Err(Error::InvalidScratchpadSignature)") => true,
            None if!padf.contains("is_valid") && !padf.contains("InvalidScratchpadSignature") => false,
            _ => return Err("validate_and_store_scratchpad_record: signature check has an unrecognised shape".into()),
        }
    };
    let pad_checks_key = key_check("validate_and_store_scratchpad_record", &padf, pad_params.get(1).ok_or("scratchpad fn: no record_key parameter")?)?.0;

    // transactions
    let tx_fn = impl_fn(&file, "Node", None, "validate_merge_and_store_transactions")?;
    let txf = text_of(&tx_fn.block);
    let tx_params = params(tx_fn);
    let txk = tx_params.get(1).ok_or("validate_merge_and_store_transactions: no record_key parameter")?;
    let tx_filters_foreign = {
        let mut verdict: Option<bool> = None;
        let mut any = false;
        for (l, op, r, s0, e0) in comparisons(&txf) {
            let other = if bare(&l) == txk { r.clone() } else if bare(&r) == txk { l.clone() } else { continue };
            any = true;
            if!resolve(&txf, &other).contains("to_record_key()") || !txf[..s0].contains(".filter(|") {
                continue;
            }
            // (a) `if k != record_key { return false; } true`   (b) `let b = k == record_key; .. b` as the closure value
            if op == "!=" && (txf[..s0].ends_with("if ") || txf[..s0].ends_with("if")) && block_after(&txf, e0) == "{return false;}" && txf[e0..].starts_with("{return false;}true})") {
                verdict = Some(true);
            }
            if op == "==" {
                if let Some(c) = Regex::new(r"let (\w+)=$").expect("re").captures(&txf[..s0]) {
                    let b = c[1].to_string();
                    if Regex::new(&format!(r"[;}}]{}\}}\)", regex::escape(&b))).expect("re").is_match(&txf[e0..]) {
                        verdict = Some(true);
                    }
                }
            }
        }
        match (verdict, any) {
            (Some(v), _) => v,
            (None, false) => false,
            _ => return Err("validate_merge_and_store_transactions: filter on the record key has an unrecognised shape".into()),
        }
    };
    let tx_filters_invalid = if Regex::new(r"\.filter\(\|(\w+)\|(\w+)\.verify\(\)\)").expect("re").captures(&txf).map(|c| c[1] == c[2]).unwrap_or(false) {
        true
    } else if!txf.contains(".verify()") {
        false
    } else {
        return Err("validate_merge_and_store_transactions: signature filter has an unrecognised shape".into());
    };
    // old shape: `let l = self.get_local_transactions(a).await?;` (a Vec, empty when nothing is held);
    // new shape: `let l = match self.get_local_transactions(a).await? { Some(x) => x, None if <must exist> => { return Err(InvalidPutWithoutPayment) } None => vec![] };`
    let tx_must = tx_params.get(2).cloned();
    let tx_new_shape = tx_must.as_ref().and_then(|m| {
        Regex::new(&format!(
            r"let (\w+)=match self\.get_local_transactions\(\w+\)\.await\?\{{Some\((\w+)\)=>(\w+),None if {}=>\{{return Err\(Error::InvalidPutWithoutPayment\([^;]*\)\);\}}None=>vec!\[\],\}};",
            regex::escape(m)
        ))
        .expect("re")
        .captures(&txf)
        .filter(|c| c[2] == c[3])
        .map(|c| c[1].to_string())
    });
    let tx_plain = !txf.contains("InvalidPutWithoutPayment") && tx_must.is_none();
    let old_call = Regex::new(r"let (\w+)=self\.get_local_transactions\(\w+\)\.await\?;").expect("re").captures(&txf).map(|c| c[1].to_string());
    let (merged_var, tx_has_check): (Option<String>, Option<bool>) = match (old_call, tx_new_shape) {
        (Some(x), None) => (Some(x), if tx_plain { Some(false) } else { None }),
        (None, Some(x)) => (Some(x), if txf.matches("InvalidPutWithoutPayment").count() == 1 { Some(true) } else { None }),
        (None, None) if!txf.contains("get_local_transactions") => (None, if tx_plain { Some(false) } else { None }),
        _ => return Err("validate_merge_and_store_transactions: get_local_transactions call has an unrecognised shape".into()),
    };
    let tx_merges_local = match merged_var {
        Some(x) => {
            let x = regex::escape(&x);
            if Regex::new(&format!(r"\w+\.extend\({x}(?:\.into_iter\(\))?\);")).expect("re").is_match(&txf) {
                true
            } else {
                return Err("validate_merge_and_store_transactions: local transactions fetched but not merged in the recognised way".into());
            }
        }
        None => false,
    };
    // the local copy must be of kind Transaction (a scratchpad of the same owner shares the key)
    let glt = text_of(&impl_fn(&file, "Node", None, "get_local_transactions")?.block);
    if!(glt.contains("RecordKindMismatch(RecordKind::Transaction)") && glt.contains("RecordHeader::from_record(") && glt.contains("RecordKind::Transaction")) {
        return Err("get_local_transactions: the kind check of the local record has an unrecognised shape".into());
    }
    if tx_has_check == Some(true) {
        // `None` must mean exactly "no record is held": returned in the `None` arm of the local read, `Some(..)` at the end
        let none_on_absent = Regex::new(r"match self\.network\(\)\.get_local_record\(&\w+\)\.await\?\{Some\((\w+)\)=>(\w+),None=>\{return Ok\(None\);\}\};").expect("re").captures(&glt).map(|c| c[1] == c[2]).unwrap_or(false);
        if !none_on_absent || glt.matches("Ok(None)").count() != 1 || !Regex::new(r"Ok\(Some\(\w+\)\)\}$").expect("re").is_match(&glt) {
            return Err("get_local_transactions: `None` is not recognisably \"no record held\"".into());
        }
    }

    // registers
    let reg_fn = impl_fn(&file, "Node", None, "register_validation")?;
    let regf = text_of(&reg_fn.block);
    let reg_in = params(reg_fn).first().cloned().ok_or("register_validation: no parameter")?;
    let reg_verifies = if regf.contains(&format!("{reg_in}.verify()?;")) {
        true
    } else if!regf.contains(".verify()") {
        false
    } else {
        return Err("register_validation: verify call has an unrecognised shape".into());
    };
    let reg_verified_merge = if Regex::new(&format!(r"\w+\.verified_merge\({}\)\?;", regex::escape(&reg_in))).expect("re").is_match(&regf) {
        true
    } else if Regex::new(&format!(r"\w+\.merge\({}\)\?;", regex::escape(&reg_in))).expect("re").is_match(&regf) && !regf.contains("verified_merge") {
        false
    } else {
        return Err("register_validation: merge with the local copy has an unrecognised shape".into());
    };

    // "update only" puts: without a (valid) payment a mutable record is accepted only as an update of the copy held
    let pad_must = pad_params.get(3).cloned();
    let pad_has_check: Option<bool> = match &pad_must {
        Some(m) => {
            // `if let Some(l) = self.network().get_local_record(&k).await? { .. } else if <m> { return Err(InvalidPutWithoutPayment) }`
            let re = Regex::new(r"if let Some\(\w+\)=self\.network\(\)\.get_local_record\(&\w+\)\.await\?").expect("re");
            re.find(&padf).and_then(|mm| {
                let b = block_after(&padf, mm.end());
                let after = &padf[mm.end() + padf[mm.end()..].find(b).unwrap_or(0) + b.len()..];
                let want = format!("else if {m}{{return Err(Error::InvalidPutWithoutPayment(");
                if !b.is_empty() && after.starts_with(&want) && padf.matches("InvalidPutWithoutPayment").count() == 1 { Some(true) } else { None }
            })
        }
        None if pad_params.len() == 3 && !padf.contains("InvalidPutWithoutPayment") => Some(false),
        None => None,
    };
    let vreg_fn = impl_fn(&file, "Node", None, "validate_and_store_register")?;
    let vregf = text_of(&vreg_fn.block);
    let vreg_params = params(vreg_fn);
    let reg_has_check: Option<bool> = match vreg_params.get(2) {
        Some(m) => {
            // `let p = ..is_record_key_present_locally(&key).await?; .. if <m> && !p { return Err(InvalidPutWithoutPayment) }` before `register_validation(`
            Regex::new(&format!(r"if {}&&!(\w+)\{{return Err\(Error::InvalidPutWithoutPayment\(", regex::escape(m))).expect("re").captures(&vregf).and_then(|c| {
                let pos = c.get(0).expect("m").start();
                let present = resolve(&vregf, &c[1]).contains("is_record_key_present_locally(");
                let before_validation = vregf.find("register_validation(").map(|p| pos < p).unwrap_or(false);
                if present && before_validation && vregf.matches("InvalidPutWithoutPayment").count() == 1 { Some(true) } else { None }
            })
        }
        None if vreg_params.len() == 2 && !vregf.contains("InvalidPutWithoutPayment") => Some(false),
        None => None,
    };
    let pad_paid = last_arg("client ScratchpadWithPayment arm", &arm(&carms, "ScratchpadWithPayment"), "validate_and_store_scratchpad_record", 3)?;
    let pad_upd = last_arg("client Scratchpad arm", &arm(&carms, "Scratchpad"), "validate_and_store_scratchpad_record", 3)?;
    let pad_repl = last_arg("replication Scratchpad arm", &arm(&rarms, "Scratchpad"), "validate_and_store_scratchpad_record", 3)?;
    let pad_update_needs_local = needs_local("scratchpad update", pad_has_check, &pad_upd, &LastArg::Lit(true), &[&pad_paid, &pad_repl])?;
    let reg_paid = last_arg("client RegisterWithPayment arm", &arm(&carms, "RegisterWithPayment"), "validate_and_store_register", 2)?;
    let reg_upd = last_arg("client Register arm", &arm(&carms, "Register"), "validate_and_store_register", 2)?;
    let reg_repl = last_arg("replication Register arm", &arm(&rarms, "Register"), "validate_and_store_register", 2)?;
    let reg_update_needs_local = needs_local("register update", reg_has_check, &reg_upd, &LastArg::Lit(true), &[&reg_repl])?;
    let reg_failed_pay_needs_local = needs_local("register upload with a failed payment", reg_has_check, &reg_paid, &LastArg::OnToleratedPaymentFailure, &[&reg_repl])?;
    let tx_paid = last_arg("client TransactionWithPayment arm", &arm(&carms, "TransactionWithPayment"), "validate_merge_and_store_transactions", 2)?;
    let tx_repl = last_arg("replication Transaction arm", &arm(&rarms, "Transaction"), "validate_merge_and_store_transactions", 2)?;
    let tx_failed_pay_needs_local = needs_local("transaction upload with a failed payment", tx_has_check, &tx_paid, &LastArg::OnToleratedPaymentFailure, &[&tx_repl])?;

    // the node's own size test at both entry points
    let (client_gate, client_at_limit) = size_gate(&file, client).ok_or("validate_and_store_record: size test / first statement has an unrecognised shape")?;
    let (repl_gate, repl_at_limit) = size_gate(&file, repl).ok_or("store_replicated_in_record: size test / first statement has an unrecognised shape")?;
    if client_gate && repl_gate && client_at_limit != repl_at_limit {
        return Err("the two entry points compare the record size with MAX_PACKET_SIZE differently".into());
    }
    let node_size_at_limit = if client_gate { client_at_limit } else { repl_at_limit };
    // … and on the record a store function builds by merging with the local copy, before it is put
    let tx_merged_gate = put_gate(&file, client, "validate_merge_and_store_transactions")?;
    let reg_merged_gate = put_gate(&file, client, "validate_and_store_register")?;

    // evmlib verify_data_payment
    let ev = parse_file(&repo.join("evmlib/src/contract/payment_vault/mod.rs"))?;
    let vdp_fn = free_fn(&ev, "verify_data_payment")?;
    let vdp = text_of(&vdp_fn.block);
    let owned = sig_params(&vdp_fn.sig).get(1).cloned().ok_or("verify_data_payment: no owned_quote_hashes parameter")?;
    let lp = Regex::new(r"for (\w+) in \w+\{").expect("re").captures(&vdp).ok_or("verify_data_payment: no loop over the verification results")?;
    let rv = regex::escape(&lp[1]);
    let p_invalid = Regex::new(&format!(r"if!{rv}\.isValid\{{return Err\(")).expect("re").find(&vdp).map(|m| m.start());
    let p_owned = Regex::new(&format!(r"{}\.contains\(&{rv}\.quoteHash\)", regex::escape(&owned))).expect("re").find(&vdp).map(|m| m.start());
    let p_sum = Regex::new(&format!(r"\w+\+={rv}\.amountPaid;")).expect("re").find(&vdp).map(|m| m.start());
    let chain_fails_on_invalid = match (p_invalid, p_owned) {
        (Some(v), Some(o)) => v < o,
        (Some(_), None) => true,
        (None, _) if!vdp.contains("isValid") => false,
        _ => return Err("verify_data_payment: validity test has an unrecognised shape".into()),
    };
    let chain_sums_owned = match (p_owned, p_sum) {
        (Some(o), Some(a)) if o < a => true,
        (None, Some(_)) if!vdp.contains(".contains(") => false,
        _ => return Err("verify_data_payment: summation over the owned quotes has an unrecognised shape".into()),
    };

    // ant-evm: expiry
    let dp = parse_file(&repo.join("ant-evm/src/data_payments.rs"))?;
    let exp_secs = const_value(&dp, "QUOTE_EXPIRATION_SECS")?;
    let he = text_of(&impl_fn(&dp, "PaymentQuote", None, "has_expired")?.block);
    let expiry_strict = {
        let mut v = vec![];
        for (l, op, r, _, _) in comparisons(&he) {
            let (age, op) = if r == "QUOTE_EXPIRATION_SECS" { (l.clone(), op.clone()) } else if l == "QUOTE_EXPIRATION_SECS" { (r.clone(), flip(&op).to_string()) } else { continue };
            // the compared value must be a number of seconds: `x.as_secs()` directly or through a binding
            let secs = age.ends_with(".as_secs()") || Regex::new(&format!(r"let {}=match [^;]*\.as_secs\(\)", regex::escape(bare(&age)))).expect("re").is_match(&he) || resolve(&he, &age).ends_with(".as_secs()");
            if !secs {
                return Err("PaymentQuote::has_expired: compared value is not recognisably a number of seconds".into());
            }
            v.push(op);
        }
        match v.as_slice() {
            [op] if op == ">" => true,
            [op] if op == ">=" => false,
            _ => return Err("PaymentQuote::has_expired: comparison not recognised".into()),
        }
    };
    let pe = text_of(&impl_fn(&dp, "ProofOfPayment", None, "has_expired")?.block);
    let proof_any_expired = if Regex::new(r"\.iter\(\)\.any\(\|\(_,(\w+)\)\|(\w+)\.has_expired\(\)\)").expect("re").captures(&pe).map(|c| c[1] == c[2]).unwrap_or(false) {
        true
    } else if Regex::new(r"\.iter\(\)\.all\(\|\(_,(\w+)\)\|(\w+)\.has_expired\(\)\)").expect("re").is_match(&pe) {
        false
    } else {
        return Err("ProofOfPayment::has_expired: shape not recognised".into());
    };
    let verify_for_checks = verify_for_shape(impl_fn(&dp, "ProofOfPayment", None, "verify_for")?)?;

    // ant-networking: the close set served to `GetClosestKLocalPeers`
    let kv = k_value(repo)?;
    let drv = parse_file(&repo.join("ant-networking/src/driver.rs"))?;
    let ck = toks(&impl_fn(&drv, "SwarmDriver", None, "get_closest_k_value_local_peers")?.block).replace(' ', "");
    if!ck.contains("get_closest_local_peers(&self_peer_id)") {
        return Err("get_closest_k_value_local_peers: peers no longer come from kademlia.get_closest_local_peers(self)".into());
    }
    let close_cut_after_chain = if ck.contains("std::iter::once(self.self_peer_id).chain(peers).take(K_VALUE.get()).collect()") {
        true
    } else if ck.contains("std::iter::once(self.self_peer_id).chain(peers.take(K_VALUE.get())).collect()") {
        false
    } else {
        return Err("get_closest_k_value_local_peers: neither `once(self).chain(peers).take(K)` nor `once(self).chain(peers.take(K))`".into());
    };
    // sizes: MAX_PACKET_SIZE, what build_node gives the record store and kad, and the request-response codec
    let max_packet = const_value(&drv, "MAX_PACKET_SIZE")?;
    let bn = text_of(&impl_fn(&drv, "NetworkBuilder", None, "build_node")?.block);
    let store_max_value = if bn.contains("NodeRecordStoreConfig{max_value_bytes:MAX_PACKET_SIZE,") && bn.matches("max_value_bytes").count() == 1 {
        max_packet
    } else {
        return Err("build_node: NodeRecordStoreConfig.max_value_bytes is not MAX_PACKET_SIZE in the recognised way".into());
    };
    let kad_max_packet = if bn.matches("set_max_packet_size(").count() == 1 && bn.contains(".set_max_packet_size(MAX_PACKET_SIZE)") {
        max_packet
    } else {
        return Err("build_node: kad max packet size is not MAX_PACKET_SIZE in the recognised way".into());
    };
    // request-response: libp2p's cbor codec (its limits are constants of the library; the code cannot set them)
    let bld = text_of(&impl_fn(&drv, "NetworkBuilder", None, "build")?.block);
    if !(bld.contains("request_response::cbor::Behaviour::new(") && bld.matches("request_response::").count() >= 1) {
        return Err("build: the request-response behaviour is no longer libp2p's cbor behaviour".into());
    }
    let cbor = registry_file(repo, "libp2p-request-response", "src/cbor.rs")?;
    let cbor_req_max = const_product(&cbor, "REQUEST_SIZE_MAXIMUM")?;
    let cbor_resp_max = const_product(&cbor, "RESPONSE_SIZE_MAXIMUM")?;
    if !(cbor.contains("io.take(REQUEST_SIZE_MAXIMUM).read_to_end(") && cbor.contains("io.take(RESPONSE_SIZE_MAXIMUM).read_to_end(")) {
        return Err("libp2p-request-response cbor codec: the read limits have an unrecognised shape".into());
    }
    let cmdf = parse_file(&repo.join("ant-networking/src/cmd.rs"))?;
    let hl = toks(&impl_fn(&cmdf, "SwarmDriver", None, "handle_local_cmd")?.block).replace(' ', "");
    if!hl.contains("LocalSwarmCmd::GetClosestKLocalPeers{sender}=>{cmd_string=\"GetClosestKLocalPeers\";let_=sender.send(self.get_closest_k_value_local_peers());}") {
        return Err("handle_local_cmd: GetClosestKLocalPeers no longer answered with get_closest_k_value_local_peers()".into());
    }

    // ant-networking RecordStore::put
    let rsf = parse_file(&repo.join("ant-networking/src/record_store.rs"))?;
    let put = impl_fn(&rsf, "NodeRecordStore", Some("RecordStore"), "put")?;
    let putb = text_of(&put.block);
    let put_refuses_at_limit = {
        let mut v = vec![];
        for (l, op, r, _, e) in comparisons(&putb) {
            let op = if l == "record.value.len()" && r == "self.config.max_value_bytes" {
                op.clone()
            } else if r == "record.value.len()" && l == "self.config.max_value_bytes" {
                flip(&op).to_string()
            } else {
                continue;
            };
            v.push((op, block_after(&putb, e).contains("return Err(Error::ValueTooLarge)")));
        }
        match v.as_slice() {
            [(op, true)] if op == ">=" => true,
            [(op, true)] if op == ">" => false,
            _ => return Err("RecordStore::put: size comparison not recognised".into()),
        }
    };
    let put_never_stores = !["put_verified(", "records.insert(", "records_cache.", "fs::write", "records_by_distance."].iter().any(|n| putb.contains(n));
    let mut always_forward: Vec<&str> = vec![];
    let put_header_err_silent;
    {
        // `match RecordHeader::from_record(&record) { Ok(h) => match h.kind { A | B => {} .. }, Err(_) => return Ok(()) }`
        struct Find {
            empty_arms: Vec<Vec<String>>,
            err_arm: Option<String>,
        }
        impl<'ast> syn::visit::Visit<'ast> for Find {
            fn visit_expr_match(&mut self, m: &'ast syn::ExprMatch) {
                let scrut = compact(&toks(&m.expr));
                if scrut == "RecordHeader::from_record(&record)" {
                    for a in &m.arms {
                        if compact(&toks(&a.pat)).starts_with("Err(") {
                            self.err_arm = Some(text_of(&a.body));
                        }
                    }
                }
                if scrut.ends_with(".kind") {
                    for a in &m.arms {
                        if text_of(&a.body) == "{}" {
                            let mut ks = vec![];
                            if pat_kinds(&a.pat, &mut ks).is_ok() {
                                self.empty_arms.push(ks);
                            }
                        }
                    }
                }
                syn::visit::visit_expr_match(self, m);
            }
        }
        let mut f = Find { empty_arms: vec![], err_arm: None };
        syn::visit::Visit::visit_block(&mut f, &put.block);
        if f.empty_arms.len() != 1 {
            return Err("RecordStore::put: always-forwarded arm not found".into());
        }
        for k in &f.empty_arms[0] {
            let lk = KINDS.iter().find(|(r, _)| r == k).ok_or_else(|| format!("RecordStore::put: unknown kind {k}"))?.1;
            always_forward.push(lk);
        }
        put_header_err_silent = match f.err_arm.as_deref() {
            Some("{return Ok(());}") => true,
            Some(b) if b.contains("return Err(") => false,
            _ => return Err("RecordStore::put: handling of an unparseable header not recognised".into()),
        };
    }

    s.push_str(&format!(
        "/-- checks performed by `payment_for_us_exists_and_is_still_valid`, in source order -/\ndef payCheckOrder : List PayStep := [{}]\n",
        steps.iter().map(|n| format!(".{n}")).collect::<Vec<_>>().join(", ")
    ));
    let mut flag = |name: &str, doc: &str, v: bool| s.push_str(&format!("/-- {doc} -/\ndef {name} : Bool := {}\n", lean_bool(v)));
    for (n, d, v) in flags {
        flag(n, d, v);
    }
    flag("vkeChecksKey", "`validate_key_and_existence` rejects `expected_record_key != data_key`", vke_checks);
    flag("padRejectsEqualCounter", "`local_pad.count() >= scratchpad.count()` ⇒ reject (true: `>=`, false: `>`)", pad_rejects_equal);
    flag("padChecksSignature", "`!scratchpad.is_valid()` ⇒ reject", pad_checks_sig);
    flag("padChecksKey", "`scratchpad_key != record_key` ⇒ reject", pad_checks_key);
    flag("txFiltersForeign", "transactions whose address is not the record key are dropped", tx_filters_foreign);
    flag("txFiltersInvalid", "transactions failing `verify()` are dropped", tx_filters_invalid);
    flag("txMergesLocal", "the stored set is extended with the local transactions", tx_merges_local);
    flag("regVerifies", "`register.verify()?` before anything else", reg_verifies);
    flag("regVerifiedMerge", "`verified_merge` with the local copy", reg_verified_merge);
    flag("chainFailsOnInvalid", "`verify_data_payment` returns `PaymentInvalid` on the first invalid result", chain_fails_on_invalid);
    flag("chainSumsOwnedOnly", "`verify_data_payment` sums `amountPaid` over this node's quote hashes only", chain_sums_owned);
    flag("expiryStrict", "`dur_s > QUOTE_EXPIRATION_SECS` (true) or `>=` (false)", expiry_strict);
    flag("proofExpiredIfAny", "`ProofOfPayment::has_expired` = any quote expired", proof_any_expired);
    flag("verifyForChecksPayeeAndSigs", "`verify_for`: self among payees and every quote signed by its claimed peer", verify_for_checks);
    flag("storePutRefusesAtLimit", "`RecordStore::put`: `len >= max_value_bytes` ⇒ ValueTooLarge (true: `>=`)", put_refuses_at_limit);
    flag("storePutNeverStores", "`RecordStore::put` touches neither the index nor the cache nor the disk", put_never_stores);
    flag("storePutSilentOnBadHeader", "`RecordStore::put` returns Ok without an event when the header does not parse", put_header_err_silent);
    let ws = wire_shape(repo)?;
    flag("padAddressRecomputed", "`ScratchpadAddress` carries only the owner and `xorname()` hashes it (false: a stored name comes off the wire)", ws.pad_addr);
    flag("regAddressRecomputed", "`RegisterAddress` carries meta + owner and `xorname()` hashes them", ws.reg_addr);
    flag("chunkAddressOffWire", "`Chunk` serialises only its value and rebuilds the address when deserialised (the name stored in `ChunkAddress` never comes off the wire)", ws.chunk_off_wire);
    flag("txAddressRecomputed", "`Transaction` has no address field; `address()` = `TransactionAddress::from_owner(owner)` = hash of the owner", ws.tx_addr);
    flag("txOrdDerived", "`Transaction` derives Ord/PartialOrd/Eq/PartialEq: a `BTreeSet<Transaction>` distinguishes transactions by every field", ws.tx_ord);
    flag("padUpdateNeedsLocal", "unpaid `Scratchpad` upload: `get_local_record` = None ⇒ InvalidPutWithoutPayment (accepted only as an update of the copy held)", pad_update_needs_local);
    flag("regUpdateNeedsLocal", "unpaid `Register` upload: key no longer present at the store function's own existence test ⇒ InvalidPutWithoutPayment", reg_update_needs_local);
    flag("txFailedPayNeedsLocal", "`TransactionWithPayment` whose payment failed (tolerated because the key was reported held): local read = None ⇒ InvalidPutWithoutPayment", tx_failed_pay_needs_local);
    flag("regFailedPayNeedsLocal", "`RegisterWithPayment` whose payment failed (tolerated because the key was reported held): key no longer present ⇒ InvalidPutWithoutPayment", reg_failed_pay_needs_local);
    flag("clientPathRefusesOversize", "`validate_and_store_record` compares `record.value.len()` with MAX_PACKET_SIZE before anything else", client_gate);
    flag("replPathRefusesOversize", "`store_replicated_in_record` compares `record.value.len()` with MAX_PACKET_SIZE before anything else", repl_gate);
    flag("nodeSizeRefusesAtLimit", "that comparison is `len >= MAX_PACKET_SIZE` (true) or `>` (false)", node_size_at_limit);
    flag("txMergedPutRefusesOversize", "`validate_merge_and_store_transactions` applies the same size test to the record it builds (delivered ∪ local transactions) before `put_local_record`", tx_merged_gate);
    flag("regMergedPutRefusesOversize", "`validate_and_store_register` applies the same size test to the (merged) register record it builds before `put_local_record`", reg_merged_gate);
    flag("closeCutAfterChain", "`get_closest_k_value_local_peers` = `once(self).chain(peers).take(K_VALUE)` (true) or `once(self).chain(peers.take(K_VALUE))` (false)", close_cut_after_chain);
    s.push_str(&format!("/-- libp2p-kad `K_VALUE` -/\ndef kValue : Nat := {kv}\n"));
    s.push_str(&format!("/-- `MAX_PACKET_SIZE` (driver.rs) -/\ndef maxPacketSize : Nat := {max_packet}\n"));
    s.push_str(&format!("/-- `max_value_bytes` of the record store `build_node` configures -/\ndef storeMaxValueBytes : Nat := {store_max_value}\n"));
    s.push_str(&format!("/-- kad `set_max_packet_size` in `build_node` (bounds a whole kad message, hence a record put / fetched through kad) -/\ndef kadMaxPacketSize : Nat := {kad_max_packet}\n"));
    s.push_str(&format!("/-- libp2p request-response cbor codec (the behaviour `build` creates; version from Cargo.lock): limit on an inbound request -/\ndef cborRequestSizeMaximum : Nat := {cbor_req_max}\n"));
    s.push_str(&format!("/-- ... and on an inbound response (a replicated record arrives in a `GetReplicatedRecord` response) -/\ndef cborResponseSizeMaximum : Nat := {cbor_resp_max}\n"));
    s.push_str(&format!("/-- `QUOTE_EXPIRATION_SECS` -/\ndef quoteExpirationSecs : Nat := {exp_secs}\n"));
    s.push_str(&format!(
        "/-- kinds `RecordStore::put` forwards to validation even when the key is already held -/\ndef storePutAlwaysForwards : List Kind := [{}]\n",
        always_forward.iter().map(|k| format!(".{k}")).collect::<Vec<_>>().join(", ")
    ));
    s.push_str("end SafeNet.Gen.Validate\n");
    Ok(s)
}
