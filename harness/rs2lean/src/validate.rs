//! `ant-node/src/put_validation.rs` (+ the pieces of ant-evm / evmlib / ant-networking it relies on)
//! -> `Gen/Validate.lean`: which `RecordKind` is routed to which branch in `validate_and_store_record`
//! and `store_replicated_in_record` (read from the match arms), which checks
//! `payment_for_us_exists_and_is_still_valid` performs and in which order, and the comparators /
//! filters of the per-kind store functions.
use crate::util::*;
use quote::ToTokens;
use std::path::PathBuf;

fn toks<T: ToTokens>(t: &T) -> String {
    t.to_token_stream().to_string()
}

const KINDS: [(&str, &str); 8] = [
    ("ChunkWithPayment", "chunkp"),
    ("Chunk", "chunk"),
    ("ScratchpadWithPayment", "padp"),
    ("Scratchpad", "pad"),
    ("TransactionWithPayment", "txp"),
    ("Transaction", "tx"),
    ("RegisterWithPayment", "regp"),
    ("Register", "reg"),
];

fn pat_kinds(p: &syn::Pat, out: &mut Vec<String>) -> Result<(), String> {
    match p {
        syn::Pat::Or(o) => {
            for c in &o.cases {
                pat_kinds(c, out)?;
            }
            Ok(())
        }
        syn::Pat::Path(pp) => {
            let segs: Vec<String> = pp.path.segments.iter().map(|s| s.ident.to_string()).collect();
            if segs.len() == 2 && segs[0] == "RecordKind" {
                out.push(segs[1].clone());
                Ok(())
            } else {
                Err(format!("unexpected pattern {}", toks(p)))
            }
        }
        _ => Err(format!("unexpected pattern {}", toks(p))),
    }
}

/// the `match record_header.kind { .. }` of a routing function: (kind name, arm body tokens)
fn arms(f: &syn::ImplItemFn) -> Result<Vec<(String, String)>, String> {
    struct Find<'a>(Option<&'a syn::ExprMatch>);
    impl<'ast> syn::visit::Visit<'ast> for Find<'ast> {
        fn visit_expr_match(&mut self, m: &'ast syn::ExprMatch) {
            if self.0.is_none() && toks(&m.expr).replace(' ', "") == "record_header.kind" {
                self.0 = Some(m);
            }
            syn::visit::visit_expr_match(self, m);
        }
    }
    let mut fnd = Find(None);
    syn::visit::Visit::visit_block(&mut fnd, &f.block);
    let m = fnd.0.ok_or_else(|| format!("{}: no `match record_header.kind`", f.sig.ident))?;
    let mut v = vec![];
    for a in &m.arms {
        if a.guard.is_some() {
            return Err(format!("{}: guarded arm", f.sig.ident));
        }
        let mut ks = vec![];
        pat_kinds(&a.pat, &mut ks)?;
        let body = toks(&a.body);
        for k in ks {
            v.push((k, body.clone()));
        }
    }
    for (k, _) in KINDS {
        if v.iter().filter(|(n, _)| n == k).count() != 1 {
            return Err(format!("{}: RecordKind::{k} not matched exactly once", f.sig.ident));
        }
    }
    Ok(v)
}

fn has(body: &str, needle: &str) -> bool {
    body.contains(needle)
}

fn branch_of(client: bool, kind: &str, body: &str) -> Result<&'static str, String> {
    let pay = has(body, "payment_for_us_exists_and_is_still_valid");
    let chunk = has(body, "store_chunk");
    let pad = has(body, "validate_and_store_scratchpad_record");
    let tx = has(body, "validate_merge_and_store_transactions");
    let reg = has(body, "validate_and_store_register");
    let unpaid_err = has(body, "InvalidPutWithoutPayment");
    let unexpected = has(body, "UnexpectedRecordWithPayment");
    let stores = [chunk, pad, tx, reg].iter().filter(|b| **b).count();
    let b = match (client, pay, stores, chunk, pad, tx, reg) {
        (true, true, 1, true, _, _, _) => "chunkPaid",
        (true, true, 1, _, true, _, _) => "padPaid",
        (true, true, 1, _, _, true, _) => "txPaid",
        (true, true, 1, _, _, _, true) => "regPaid",
        (true, false, 0, ..) if unpaid_err => "rejectUnpaid",
        (true, false, 1, _, true, _, _) if unpaid_err => "padUpdate",
        (true, false, 1, _, _, _, true) if unpaid_err => "regUpdate",
        (false, false, 0, ..) if unexpected => "rejectPaid",
        (false, false, 1, true, ..) => "chunkRepl",
        (false, false, 1, _, true, _, _) => "padRepl",
        (false, false, 1, _, _, true, _) => "txRepl",
        (false, false, 1, _, _, _, true) => "regRepl",
        _ => return Err(format!("arm for RecordKind::{kind} ({}) has an unrecognised shape", if client { "client" } else { "replication" })),
    };
    Ok(b)
}


/// libp2p-kad's `K_VALUE` (version from Cargo.lock, source from the cargo registry)
fn k_value(repo: &PathBuf) -> Result<u128, String> {
    let lock = std::fs::read_to_string(repo.join("Cargo.lock")).map_err(|e| format!("Cargo.lock: {e}"))?;
    let mut ver = None;
    let mut lines = lock.lines();
    while let Some(l) = lines.next() {
        if l.trim() == "name = \"libp2p-kad\"" {
            if let Some(v) = lines.next() {
                ver = v.trim().strip_prefix("version = \"").and_then(|s| s.strip_suffix('"')).map(|s| s.to_string());
            }
            break;
        }
    }
    let ver = ver.ok_or("libp2p-kad not found in Cargo.lock")?;
    let home = std::env::var("CARGO_HOME").unwrap_or_else(|_| format!("{}/.cargo", std::env::var("HOME").unwrap_or_else(|_| "/root".into())));
    let src = PathBuf::from(home).join("registry/src");
    let mut found = None;
    for d in std::fs::read_dir(&src).map_err(|e| format!("{}: {e}", src.display()))? {
        let p = d.map_err(|e| e.to_string())?.path().join(format!("libp2p-kad-{ver}/src/lib.rs"));
        if p.exists() {
            found = Some(p);
        }
    }
    let p = found.ok_or(format!("libp2p-kad-{ver}/src/lib.rs not found in the cargo registry"))?;
    let file = parse_file(&p)?;
    for (n, e) in consts(&file) {
        if n == "K_VALUE" {
            struct Lits(Vec<u128>);
            impl<'ast> syn::visit::Visit<'ast> for Lits {
                fn visit_lit_int(&mut self, i: &'ast syn::LitInt) {
                    if let Ok(x) = i.base10_parse::<u128>() {
                        self.0.push(x);
                    }
                }
            }
            let mut l = Lits(vec![]);
            syn::visit::Visit::visit_expr(&mut l, &e);
            if l.0.len() == 1 {
                return Ok(l.0[0]);
            }
            return Err(format!("K_VALUE: expected exactly one integer literal in `{}`", toks(&e)));
        }
    }
    Err("K_VALUE not found in libp2p-kad".into())
}

/// in `verify_for`: the `match encoded_peer_id.to_peer_id()` must leave the function with `false` in every
/// arm that is not `Ok(..)` (an undecodable claimed id cannot be signature-checked, so the proof is refused)
fn undecodable_id_refused(f: &syn::ImplItemFn) -> bool {
    struct Find {
        seen: bool,
        ok: bool,
    }
    impl<'ast> syn::visit::Visit<'ast> for Find {
        fn visit_expr_match(&mut self, m: &'ast syn::ExprMatch) {
            if toks(&m.expr).contains("to_peer_id") {
                self.seen = true;
                for a in &m.arms {
                    let pat = toks(&a.pat);
                    if pat.starts_with("Ok") {
                        continue;
                    }
                    if !toks(&a.body).contains("return false") {
                        self.ok = false;
                    }
                }
            }
            syn::visit::visit_expr_match(self, m);
        }
    }
    let mut fnd = Find { seen: false, ok: true };
    syn::visit::Visit::visit_block(&mut fnd, &f.block);
    fnd.seen && fnd.ok
}

fn first_pos(body: &str, needles: &[&str]) -> Option<usize> {
    needles.iter().filter_map(|n| body.find(n)).min()
}

pub fn generate(repo: &PathBuf) -> Result<String, String> {
    let rel = "ant-node/src/put_validation.rs";
    let file = parse_file(&repo.join(rel))?;
    let client = impl_fn(&file, "Node", None, "validate_and_store_record")?;
    let repl = impl_fn(&file, "Node", None, "store_replicated_in_record")?;
    let carms = arms(client)?;
    let rarms = arms(repl)?;

    let mut s = header("ant-node/src/put_validation.rs, ant-evm/src/data_payments.rs, evmlib/src/contract/payment_vault/mod.rs, ant-networking/src/record_store.rs, ant-networking/src/driver.rs, ant-networking/src/cmd.rs");
    s.push_str("namespace SafeNet.Gen.Validate\n");
    s.push_str("/-- `RecordKind` -/\ninductive Kind | chunkp | chunk | padp | pad | txp | tx | regp | reg\nderiving DecidableEq, Repr\n");
    s.push_str("/-- shapes of the match arms of the two routing functions -/\ninductive Branch | chunkPaid | rejectUnpaid | padPaid | padUpdate | txPaid | regUpdate | regPaid | rejectPaid | chunkRepl | padRepl | txRepl | regRepl\nderiving DecidableEq, Repr\n");
    s.push_str("/-- checks of `payment_for_us_exists_and_is_still_valid` -/\ninductive PayStep | forUs | content | expiry | close | chain\nderiving DecidableEq, Repr\n");

    let mut route = |name: &str, doc: &str, arms: &[(String, String)], is_client: bool| -> Result<(), String> {
        s.push_str(&format!("/-- {doc} -/\ndef {name} : Kind → Branch\n"));
        for (rk, lk) in KINDS {
            let body = &arms.iter().find(|(n, _)| n == rk).expect("checked").1;
            s.push_str(&format!("  | .{lk} => .{}\n", branch_of(is_client, rk, body)?));
        }
        Ok(())
    };
    route("clientRoute", "`validate_and_store_record`: kind → branch", &carms, true)?;
    route("replRoute", "`store_replicated_in_record`: kind → branch", &rarms, false)?;

    let arm = |arms: &[(String, String)], k: &str| arms.iter().find(|(n, _)| n == k).expect("checked").1.clone();
    // explicit `record.key != key` checks in the arms that derive the key themselves
    let explicit_key_check = |body: &str| has(body, "record . key != key") && has(body, "RecordKeyMismatch");
    let flags: Vec<(&str, &str, bool)> = vec![
        ("regUpdateChecksKey", "client `Register` arm compares `record.key` with the derived key", explicit_key_check(&arm(&carms, "Register"))),
        ("regPaidChecksKey", "client `RegisterWithPayment` arm compares `record.key` with the derived key", explicit_key_check(&arm(&carms, "RegisterWithPayment"))),
        ("txPaidChecksKey", "client `TransactionWithPayment` arm compares `record.key` with the derived key", explicit_key_check(&arm(&carms, "TransactionWithPayment"))),
        ("regReplChecksKey", "replication `Register` arm compares `record.key` with the derived key", explicit_key_check(&arm(&rarms, "Register"))),
    ];

    // validate_key_and_existence
    let vke = toks(&impl_fn(&file, "Node", None, "validate_key_and_existence")?.block);
    let vke_checks = has(&vke, "expected_record_key != & data_key") && has(&vke, "RecordKeyMismatch");

    // payment_for_us_exists_and_is_still_valid: which checks, in source order
    let pay = toks(&impl_fn(&file, "Node", None, "payment_for_us_exists_and_is_still_valid")?.block);
    let mut steps: Vec<(usize, &str)> = vec![];
    if let Some(p) = first_pos(&pay, &["verify_for"]) {
        steps.push((p, "forUs"));
    }
    if let Some(p) = first_pos(&pay, &["InvalidQuoteContent"]) {
        // the check must compare a quote's `content` with the address being stored
        if !(has(&pay, ". content") && has(&pay, "as_xorname")) {
            return Err("payment_for_us_exists_and_is_still_valid: InvalidQuoteContent without a content/address comparison".into());
        }
        steps.push((p, "content"));
    }
    if let Some(p) = first_pos(&pay, &["has_expired"]) {
        steps.push((p, "expiry"));
    }
    if let Some(p) = first_pos(&pay, &["get_closest_k_value_local_peers"]) {
        if !(has(&pay, "payees") && has(&pay, "contains")) {
            return Err("payment_for_us_exists_and_is_still_valid: closest peers fetched but payees not compared".into());
        }
        steps.push((p, "close"));
    }
    if let Some(p) = first_pos(&pay, &["verify_data_payment"]) {
        steps.push((p, "chain"));
    }
    steps.sort();
    if !has(&pay, "notify_payment_received") {
        return Err("payment_for_us_exists_and_is_still_valid: no notify_payment_received".into());
    }

    // scratchpad store function
    let padf = toks(&impl_fn(&file, "Node", None, "validate_and_store_scratchpad_record")?.block);
    let pad_rejects_equal = if has(&padf, "local_pad . count () >= scratchpad . count ()") {
        true
    } else if has(&padf, "local_pad . count () > scratchpad . count ()") {
        false
    } else {
        return Err("validate_and_store_scratchpad_record: counter comparison not recognised".into());
    };
    let pad_checks_sig = has(&padf, "! scratchpad . is_valid ()") && has(&padf, "InvalidScratchpadSignature");
    let pad_checks_key = has(&padf, "scratchpad_key != record_key") && has(&padf, "RecordKeyMismatch");

    // transactions
    let txf = toks(&impl_fn(&file, "Node", None, "validate_merge_and_store_transactions")?.block);
    let tx_filters_foreign = has(&txf, "& transaction_record_key != record_key") && has(&txf, "return false");
    let tx_filters_invalid = has(&txf, ". filter (| t | t . verify ())");
    let tx_merges_local = has(&txf, "validated_transactions . extend (local_txs");

    // registers
    let regf = toks(&impl_fn(&file, "Node", None, "register_validation")?.block);
    let reg_verifies = has(&regf, "register . verify () ?");
    let reg_verified_merge = has(&regf, "merged_register . verified_merge (register) ?");

    // evmlib verify_data_payment
    let ev = parse_file(&repo.join("evmlib/src/contract/payment_vault/mod.rs"))?;
    let vdp = toks(&free_fn(&ev, "verify_data_payment")?.block);
    // the `isValid` test must apply to every returned result, i.e. stand before (outside) the owned-hash branch
    let chain_fails_on_invalid = match (
        vdp.find("if ! payment_verification_result . isValid { return Err"),
        vdp.find("if owned_quote_hashes . contains (& payment_verification_result . quoteHash)"),
    ) {
        (Some(v), Some(o)) => v < o,
        (Some(_), None) => true,
        _ => false,
    };
    let chain_sums_owned = has(&vdp, "owned_quote_hashes . contains (& payment_verification_result . quoteHash)") && has(&vdp, "amount +=");

    // ant-evm: expiry
    let dp = parse_file(&repo.join("ant-evm/src/data_payments.rs"))?;
    let exp_secs = const_value(&dp, "QUOTE_EXPIRATION_SECS")?;
    let he = toks(&impl_fn(&dp, "PaymentQuote", None, "has_expired")?.block);
    let expiry_strict = if has(&he, "dur_s > QUOTE_EXPIRATION_SECS") {
        true
    } else if has(&he, "dur_s >= QUOTE_EXPIRATION_SECS") {
        false
    } else {
        return Err("PaymentQuote::has_expired: comparison not recognised".into());
    };
    let pe = toks(&impl_fn(&dp, "ProofOfPayment", None, "has_expired")?.block);
    let proof_any_expired = has(&pe, ". any (");
    let vf_fn = impl_fn(&dp, "ProofOfPayment", None, "verify_for")?;
    let vf = toks(&vf_fn.block);
    let verify_for_checks = has(&vf, "! self . payees () . contains (& peer_id)")
        && has(&vf, "if ! quote . check_is_signed_by_claimed_peer (peer_id) { return false ; }")
        && undecodable_id_refused(vf_fn);

    // ant-networking: the close set served to `GetClosestKLocalPeers`
    let kv = k_value(repo)?;
    let drv = parse_file(&repo.join("ant-networking/src/driver.rs"))?;
    let ck = toks(&impl_fn(&drv, "SwarmDriver", None, "get_closest_k_value_local_peers")?.block).replace(' ', "");
    if !ck.contains("get_closest_local_peers(&self_peer_id)") {
        return Err("get_closest_k_value_local_peers: peers no longer come from kademlia.get_closest_local_peers(self)".into());
    }
    let close_cut_after_chain = if ck.contains("std::iter::once(self.self_peer_id).chain(peers).take(K_VALUE.get()).collect()") {
        true
    } else if ck.contains("std::iter::once(self.self_peer_id).chain(peers.take(K_VALUE.get())).collect()") {
        false
    } else {
        return Err("get_closest_k_value_local_peers: neither `once(self).chain(peers).take(K)` nor `once(self).chain(peers.take(K))`".into());
    };
    let cmdf = parse_file(&repo.join("ant-networking/src/cmd.rs"))?;
    let hl = toks(&impl_fn(&cmdf, "SwarmDriver", None, "handle_local_cmd")?.block).replace(' ', "");
    if !hl.contains("LocalSwarmCmd::GetClosestKLocalPeers{sender}=>{cmd_string=\"GetClosestKLocalPeers\";let_=sender.send(self.get_closest_k_value_local_peers());}") {
        return Err("handle_local_cmd: GetClosestKLocalPeers no longer answered with get_closest_k_value_local_peers()".into());
    }

    // ant-networking RecordStore::put
    let rsf = parse_file(&repo.join("ant-networking/src/record_store.rs"))?;
    let put = impl_fn(&rsf, "NodeRecordStore", Some("RecordStore"), "put")?;
    let putb = toks(&put.block);
    let put_refuses_at_limit = if has(&putb, "record . value . len () >= self . config . max_value_bytes") {
        true
    } else if has(&putb, "record . value . len () > self . config . max_value_bytes") {
        false
    } else {
        return Err("RecordStore::put: size comparison not recognised".into());
    };
    let put_never_stores = !has(&putb, "put_verified") && !has(&putb, "records . insert") && !has(&putb, "records_cache");
    let mut always_forward: Vec<&str> = vec![];
    {
        // the arm `RecordKind::A | RecordKind::B => { debug!(..always be processed..) }`
        struct Find(Vec<String>);
        impl<'ast> syn::visit::Visit<'ast> for Find {
            fn visit_arm(&mut self, a: &'ast syn::Arm) {
                let body = toks(&a.body);
                if body.contains("shall always be processed") {
                    let mut ks = vec![];
                    if pat_kinds(&a.pat, &mut ks).is_ok() {
                        self.0 = ks;
                    }
                }
                syn::visit::visit_arm(self, a);
            }
        }
        let mut f = Find(vec![]);
        syn::visit::Visit::visit_block(&mut f, &put.block);
        if f.0.is_empty() {
            return Err("RecordStore::put: always-forwarded arm not found".into());
        }
        for k in &f.0 {
            let lk = KINDS.iter().find(|(r, _)| r == k).ok_or_else(|| format!("RecordStore::put: unknown kind {k}"))?.1;
            always_forward.push(lk);
        }
    }
    let put_header_err_silent = has(&putb, "Err (err) => { error ! (") && has(&putb, "return Ok (()) ;");

    s.push_str(&format!(
        "/-- checks performed by `payment_for_us_exists_and_is_still_valid`, in source order -/\ndef payCheckOrder : List PayStep := [{}]\n",
        steps.iter().map(|(_, n)| format!(".{n}")).collect::<Vec<_>>().join(", ")
    ));
    let mut flag = |name: &str, doc: &str, v: bool| s.push_str(&format!("/-- {doc} -/\ndef {name} : Bool := {}\n", lean_bool(v)));
    for (n, d, v) in flags {
        flag(n, d, v);
    }
    flag("vkeChecksKey", "`validate_key_and_existence` rejects `expected_record_key != data_key`", vke_checks);
    flag("padRejectsEqualCounter", "`local_pad.count() >= scratchpad.count()` ⇒ reject (true: `>=`, false: `>`)", pad_rejects_equal);
    flag("padChecksSignature", "`!scratchpad.is_valid()` ⇒ reject", pad_checks_sig);
    flag("padChecksKey", "`scratchpad_key != record_key` ⇒ reject", pad_checks_key);
    flag("txFiltersForeign", "transactions whose address is not the record key are dropped", tx_filters_foreign);
    flag("txFiltersInvalid", "transactions failing `verify()` are dropped", tx_filters_invalid);
    flag("txMergesLocal", "the stored set is extended with the local transactions", tx_merges_local);
    flag("regVerifies", "`register.verify()?` before anything else", reg_verifies);
    flag("regVerifiedMerge", "`verified_merge` with the local copy", reg_verified_merge);
    flag("chainFailsOnInvalid", "`verify_data_payment` returns `PaymentInvalid` on the first invalid result", chain_fails_on_invalid);
    flag("chainSumsOwnedOnly", "`verify_data_payment` sums `amountPaid` over this node's quote hashes only", chain_sums_owned);
    flag("expiryStrict", "`dur_s > QUOTE_EXPIRATION_SECS` (true) or `>=` (false)", expiry_strict);
    flag("proofExpiredIfAny", "`ProofOfPayment::has_expired` = any quote expired", proof_any_expired);
    flag("verifyForChecksPayeeAndSigs", "`verify_for`: self among payees and every quote signed by its claimed peer", verify_for_checks);
    flag("storePutRefusesAtLimit", "`RecordStore::put`: `len >= max_value_bytes` ⇒ ValueTooLarge (true: `>=`)", put_refuses_at_limit);
    flag("storePutNeverStores", "`RecordStore::put` touches neither the index nor the cache nor the disk", put_never_stores);
    flag("storePutSilentOnBadHeader", "`RecordStore::put` returns Ok without an event when the header does not parse", put_header_err_silent);
    flag("closeCutAfterChain", "`get_closest_k_value_local_peers` = `once(self).chain(peers).take(K_VALUE)` (true) or `once(self).chain(peers.take(K_VALUE))` (false)", close_cut_after_chain);
    s.push_str(&format!("/-- libp2p-kad `K_VALUE` -/\ndef kValue : Nat := {kv}\n"));
    s.push_str(&format!("/-- `QUOTE_EXPIRATION_SECS` -/\ndef quoteExpirationSecs : Nat := {exp_secs}\n"));
    s.push_str(&format!(
        "/-- kinds `RecordStore::put` forwards to validation even when the key is already held -/\ndef storePutAlwaysForwards : List Kind := [{}]\n",
        always_forward.iter().map(|k| format!(".{k}")).collect::<Vec<_>>().join(", ")
    ));
    s.push_str("end SafeNet.Gen.Validate\n");
    Ok(s)
}
