//! Shapes of the serde-derived wire types -> Gen/WireShape.lean: for every enum the variant names (these ARE the wire
//! representation: rmp_serde and cbor4ii encode a variant by its name) with the shape of the payload (unit / newtype /
//! named or positional fields), for every struct the field names in declaration order (structs travel as positional arrays).
//! Anything that would make the derive deviate from that (a `#[serde(..)]` attribute, a hand-written impl where a derive
//! is expected, generics) is a refusal.
use crate::util::*;
use quote::ToTokens;
use std::path::PathBuf;

fn toks<T: ToTokens>(t: &T) -> String {
    t.to_token_stream().to_string().replace(' ', "")
}

fn check_attrs(what: &str, attrs: &[syn::Attribute], need_derive: bool) -> Result<(), String> {
    let all: String = attrs.iter().map(toks).collect();
    if all.contains("serde(") {
        return Err(format!("{what}: carries a #[serde(..)] attribute"));
    }
    if need_derive && !(all.contains("Serialize") && all.contains("Deserialize")) {
        return Err(format!("{what}: Serialize/Deserialize are not both derived"));
    }
    Ok(())
}

fn enum_shape(file: &syn::File, rel: &str, name: &str) -> Result<Vec<(String, String)>, String> {
    for it in &file.items {
        if let syn::Item::Enum(e) = it {
            if e.ident == name {
                if !e.generics.params.is_empty() {
                    return Err(format!("{rel}: enum {name} is generic"));
                }
                check_attrs(&format!("{rel}: enum {name}"), &e.attrs, true)?;
                let mut v = vec![];
                for var in &e.variants {
                    check_attrs(&format!("{rel}: {name}::{}", var.ident), &var.attrs, false)?;
                    if var.discriminant.is_some() {
                        return Err(format!("{rel}: {name}::{} has an explicit discriminant", var.ident));
                    }
                    for f in var.fields.iter() {
                        check_attrs(&format!("{rel}: a field of {name}::{}", var.ident), &f.attrs, false)?;
                    }
                    let shape = match &var.fields {
                        syn::Fields::Unit => ".unit".to_string(),
                        syn::Fields::Unnamed(u) if u.unnamed.len() == 1 => ".newtype".to_string(),
                        syn::Fields::Unnamed(u) => format!(".fields [{}]", (0..u.unnamed.len()).map(|i| format!("\"{i}\"")).collect::<Vec<_>>().join(", ")),
                        syn::Fields::Named(n) => format!(
                            ".fields [{}]",
                            n.named.iter().map(|f| format!("\"{}\"", f.ident.as_ref().map(|x| x.to_string()).unwrap_or_default())).collect::<Vec<_>>().join(", ")
                        ),
                    };
                    v.push((var.ident.to_string(), shape));
                }
                return Ok(v);
            }
        }
    }
    Err(format!("{rel}: enum {name} not found"))
}

fn struct_fields(file: &syn::File, rel: &str, name: &str) -> Result<Vec<String>, String> {
    for it in &file.items {
        if let syn::Item::Struct(s) = it {
            if s.ident == name {
                if !s.generics.params.is_empty() {
                    return Err(format!("{rel}: struct {name} is generic"));
                }
                check_attrs(&format!("{rel}: struct {name}"), &s.attrs, true)?;
                let mut v = vec![];
                for (i, f) in s.fields.iter().enumerate() {
                    check_attrs(&format!("{rel}: field {i} of {name}"), &f.attrs, false)?;
                    v.push(f.ident.as_ref().map(|x| x.to_string()).unwrap_or_else(|| i.to_string()));
                }
                return Ok(v);
            }
        }
    }
    Err(format!("{rel}: struct {name} not found"))
}

/// the type argument of every `try_deserialize_record` call in the node's and the networking layer's record paths
fn deserialize_call_types(repo: &PathBuf) -> Result<Vec<String>, String> {
    struct V {
        found: Vec<String>,
        errs: Vec<String>,
    }
    fn callee(e: &syn::Expr) -> Option<&syn::ExprCall> {
        match e {
            syn::Expr::Try(t) => callee(&t.expr),
            syn::Expr::Paren(p) => callee(&p.expr),
            syn::Expr::Call(c) => match &*c.func {
                syn::Expr::Path(p) if p.path.segments.last().map(|s| s.ident == "try_deserialize_record").unwrap_or(false) => Some(c),
                _ => None,
            },
            _ => None,
        }
    }
    fn turbofish(c: &syn::ExprCall) -> Option<String> {
        if let syn::Expr::Path(p) = &*c.func {
            if let syn::PathArguments::AngleBracketed(a) = &p.path.segments.last()?.arguments {
                if a.args.len() == 1 {
                    return Some(toks(&a.args[0]));
                }
            }
        }
        None
    }
    impl<'ast> syn::visit::Visit<'ast> for V {
        fn visit_local(&mut self, l: &'ast syn::Local) {
            if let (syn::Pat::Type(pt), Some(init)) = (&l.pat, &l.init) {
                if let Some(c) = callee(&init.expr) {
                    if turbofish(c).is_none() {
                        self.found.push(toks(&pt.ty));
                        for a in &c.args {
                            self.visit_expr(a);
                        }
                        return;
                    }
                }
            }
            syn::visit::visit_local(self, l);
        }
        fn visit_expr_call(&mut self, c: &'ast syn::ExprCall) {
            if callee(&syn::Expr::Call(c.clone())).is_some() {
                match turbofish(c) {
                    Some(t) => self.found.push(t),
                    None => self.errs.push("a try_deserialize_record call whose type is inferred (no turbofish, no annotated let)".into()),
                }
            }
            syn::visit::visit_expr_call(self, c);
        }
    }
    let mut v = V { found: vec![], errs: vec![] };
    for rel in ["ant-node/src/put_validation.rs", "ant-networking/src/transactions.rs", "ant-networking/src/driver.rs", "ant-networking/src/record_store.rs", "ant-networking/src/lib.rs"] {
        let file = parse_file(&repo.join(rel))?;
        let before = v.errs.len();
        syn::visit::Visit::visit_file(&mut v, &file);
        if v.errs.len() > before {
            return Err(format!("{rel}: {}", v.errs[before]));
        }
    }
    v.found.sort();
    v.found.dedup();
    Ok(v.found)
}

pub fn generate(repo: &PathBuf) -> Result<String, String> {
    let enums: [(&str, &str); 10] = [
        ("ant-protocol/src/lib.rs", "NetworkAddress"),
        ("ant-protocol/src/storage/header.rs", "RecordType"),
        ("ant-protocol/src/messages.rs", "Request"),
        ("ant-protocol/src/messages.rs", "Response"),
        ("ant-protocol/src/messages/cmd.rs", "Cmd"),
        ("ant-protocol/src/messages/query.rs", "Query"),
        ("ant-protocol/src/messages/response.rs", "QueryResponse"),
        ("ant-protocol/src/messages/response.rs", "CmdResponse"),
        ("ant-protocol/src/error.rs", "Error"),
        ("ant-registers/src/permissions.rs", "Permissions"),
    ];
    let structs: [(&str, &str); 15] = [
        ("ant-protocol/src/storage/header.rs", "RecordHeader"),
        ("ant-evm/src/data_payments.rs", "PaymentQuote"),
        ("ant-evm/src/data_payments.rs", "ProofOfPayment"),
        ("evmlib/src/quoting_metrics.rs", "QuotingMetrics"),
        ("ant-protocol/src/storage/scratchpad.rs", "Scratchpad"),
        ("ant-protocol/src/storage/transaction.rs", "Transaction"),
        ("ant-registers/src/address.rs", "RegisterAddress"),
        ("ant-protocol/src/storage/address/scratchpad.rs", "ScratchpadAddress"),
        // newtype structs inside messages (transparent on the wire; listed so that a serde attribute or a hand-written impl on them is refused)
        ("ant-protocol/src/storage/address/chunk.rs", "ChunkAddress"),
        ("ant-protocol/src/storage/address/transaction.rs", "TransactionAddress"),
        ("ant-protocol/src/messages/chunk_proof.rs", "ChunkProof"),
        ("ant-evm/src/data_payments.rs", "EncodedPeerId"),
        // the payload of the two register kinds
        ("ant-registers/src/register.rs", "Register"),
        ("ant-registers/src/register.rs", "SignedRegister"),
        ("ant-registers/src/register_op.rs", "RegisterOp"),
    ];
    let mut s = header("the serde-derived wire types of ant-protocol, ant-evm, evmlib, ant-registers");
    s.push_str("namespace SafeNet.Gen.WireShape\n");
    s.push_str("/-- payload shape of an enum variant as serde's derive sees it -/\ninductive VShape | unit | newtype | fields (names : List String)\n  deriving DecidableEq, Repr\n");
    for (rel, name) in enums {
        let file = parse_file(&repo.join(rel))?;
        let v = enum_shape(&file, rel, name)?;
        let body = v.iter().map(|(n, sh)| format!("(\"{n}\", {sh})")).collect::<Vec<_>>().join(", ");
        s.push_str(&format!("/-- `enum {name}` ({rel}): variants in declaration order -/\ndef enum_{name} : List (String × VShape) := [{body}]\n"));
    }
    for (rel, name) in structs {
        let file = parse_file(&repo.join(rel))?;
        let v = struct_fields(&file, rel, name)?;
        let body = v.iter().map(|n| format!("\"{n}\"")).collect::<Vec<_>>().join(", ");
        s.push_str(&format!("/-- `struct {name}` ({rel}): fields in declaration order -/\ndef struct_{name} : List String := [{body}]\n"));
    }
    let tys = deserialize_call_types(repo)?;
    let body = tys.iter().map(|n| format!("\"{n}\"")).collect::<Vec<_>>().join(", ");
    s.push_str(&format!("/-- the types records are deserialised as: every `try_deserialize_record::<T>(..)` / `let _: T = try_deserialize_record(..)`\nin ant-node/src/put_validation.rs and ant-networking/src/{{transactions,driver,record_store,lib}}.rs (sorted, spaces removed) -/\ndef deserializeRecordTypes : List String := [{body}]\n"));
    s.push_str("end SafeNet.Gen.WireShape\n");
    Ok(s)
}
