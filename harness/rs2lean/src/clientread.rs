//! C15: which checks `chunk_get` and `get_vault_from_network` perform (autonomi/src/client/data/public.rs, vault.rs).
use crate::util::*;
use quote::ToTokens;
use std::path::PathBuf;
use syn::visit::Visit;

fn norm(t: impl ToTokens) -> String {
    t.to_token_stream().to_string().replace(' ', "")
}

/// every `if cond { .. }` whose then-block leaves with an error (`return Err(..)` or a final `Err(..)`), as (cond, then)
#[derive(Default)]
struct ErrIfs {
    found: Vec<(String, String)>,
}
impl<'ast> Visit<'ast> for ErrIfs {
    fn visit_expr_if(&mut self, i: &'ast syn::ExprIf) {
        let then = norm(&i.then_branch);
        if then.contains("returnErr(") || then.contains("Err(") {
            self.found.push((norm(&i.cond), then));
        }
        syn::visit::visit_expr_if(self, i);
    }
}

/// arms of the first `match` whose scrutinee mentions `needle`
struct MatchOn<'a> {
    needle: &'a str,
    arms: Option<Vec<(String, syn::Expr)>>,
}
impl<'ast, 'a> Visit<'ast> for MatchOn<'a> {
    fn visit_expr_match(&mut self, m: &'ast syn::ExprMatch) {
        if self.arms.is_none() && norm(&m.expr).contains(self.needle) {
            self.arms = Some(m.arms.iter().map(|a| (norm(&a.pat), (*a.body).clone())).collect());
        }
        syn::visit::visit_expr_match(self, m);
    }
}

/// closures handed to `.filter(..)` and whether `.filter_map(.. .ok())` / `collect::<Result<..>>` occur
#[derive(Default)]
struct Filters {
    filters: Vec<String>,
    filter_map_ok: bool,
    collect_result: bool,
}
impl<'ast> Visit<'ast> for Filters {
    fn visit_expr_method_call(&mut self, m: &'ast syn::ExprMethodCall) {
        let name = m.method.to_string();
        if name == "filter" {
            if let Some(syn::Expr::Closure(c)) = m.args.first() {
                self.filters.push(norm(&c.body));
            }
        }
        if name == "filter_map" && norm(&m.args).contains(".ok()") {
            self.filter_map_ok = true;
        }
        if name == "collect" && norm(&m.turbofish).contains("Result<") {
            self.collect_result = true;
        }
        syn::visit::visit_expr_method_call(self, m);
    }
}

fn owner_ne(d: &str) -> bool {
    d.contains(".owner()!=") && d.contains("client_pk") || (d.contains("client_pk!=") && d.contains(".owner()"))
}
fn owner_eq(d: &str) -> bool {
    d.contains(".owner()==") && d.contains("client_pk") || (d.contains("client_pk==") && d.contains(".owner()"))
}

/// the block of the `RecordKind::Scratchpad => { .. }` arm (a pattern naming only that kind)
struct PadArm {
    blocks: Vec<syn::Block>,
}
impl<'ast> Visit<'ast> for PadArm {
    fn visit_arm(&mut self, a: &'ast syn::Arm) {
        if norm(&a.pat) == "RecordKind::Scratchpad" {
            if let syn::Expr::Block(b) = &*a.body {
                self.blocks.push(b.block.clone());
            }
        }
        syn::visit::visit_arm(self, a);
    }
}

/// Does the scratchpad arm of `Network::handle_split_record_error` skip a scratchpad whose own address does not map to
/// the record key being read?  Two-sided: `true` only on recognising that comparison (an `if <pad's record key> != <key>
/// { .. continue }` ahead of every use of the counter), `false` only on recognising the arm as it was before the check
/// existed; any other shape is an error (UNTRANSLATABLE).
pub fn net_split_checks_pad_key(repo: &PathBuf) -> Result<bool, String> {
    let rel = "ant-networking/src/lib.rs";
    let file = parse_file(&repo.join(rel))?;
    let f = impl_fn(&file, "Network", None, "handle_split_record_error")?;
    let has_key_param = f.sig.inputs.iter().any(|a| norm(a) == "key:&RecordKey");
    if !has_key_param {
        return Err(format!("{rel}:handle_split_record_error: no `key: &RecordKey` parameter"));
    }
    let mut v = PadArm { blocks: vec![] };
    v.visit_block(&f.block);
    if v.blocks.len() != 1 {
        return Err(format!("{rel}:handle_split_record_error: {} `RecordKind::Scratchpad` arms with a block body", v.blocks.len()));
    }
    let arm = &v.blocks[0];
    // statements of the arm, log macros dropped
    let stmts: Vec<&syn::Stmt> = arm.stmts.iter().filter(|s| !matches!(s, syn::Stmt::Macro(_))).collect();
    let texts: Vec<String> = stmts.iter().map(|s| norm(s)).collect();
    let ends_with_continue = |b: &syn::Block| match b.stmts.last() {
        Some(syn::Stmt::Expr(syn::Expr::Continue(c), _)) => c.label.is_none(),
        _ => false,
    };
    let is_pad_key = |side: &str| {
        side.contains("scratchpad")
            && side.ends_with(".to_record_key()")
            && (side.contains(".network_address()") || side.contains("from_scratchpad_address(") || side.contains("ScratchpadAddress("))
    };
    let is_req_key = |side: &str| side == "*key" || side == "key" || side == "&*key" || side == "key.clone()";
    let mut key_ifs: Vec<usize> = vec![];
    for (i, s) in stmts.iter().enumerate() {
        if let syn::Stmt::Expr(syn::Expr::If(e), _) = s {
            let c = norm(&e.cond);
            if !c.contains("to_record_key") {
                continue;
            }
            let sides: Vec<&str> = c.split("!=").collect();
            let ok = sides.len() == 2
                && ((is_pad_key(sides[0]) && is_req_key(sides[1])) || (is_pad_key(sides[1]) && is_req_key(sides[0])))
                && !c.contains("||")
                && !c.contains("&&")
                && e.else_branch.is_none()
                && ends_with_continue(&e.then_branch)
                && !norm(&e.then_branch).contains("valid_scratchpad=");
            if !ok {
                return Err(format!("{rel}:handle_split_record_error: scratchpad arm compares a record key in an unknown way: `{c}`"));
            }
            key_ifs.push(i);
        }
    }
    let first_count = texts.iter().position(|t| t.contains(".count()") || t.contains("valid_scratchpad="));
    let deser = texts.iter().position(|t| t.starts_with("letOk(scratchpad)=try_deserialize_record::<Scratchpad>(record)else{") && t.contains("continue"));
    let Some(deser) = deser else {
        return Err(format!("{rel}:handle_split_record_error: scratchpad arm does not deserialise `scratchpad` with let-else-continue"));
    };
    let Some(first_count) = first_count else {
        return Err(format!("{rel}:handle_split_record_error: scratchpad arm never compares counters / selects a scratchpad"));
    };
    match key_ifs.as_slice() {
        [i] if deser < *i && *i < first_count => Ok(true),
        [] => {
            // the arm as it was: deserialise, `if !scratchpad.is_valid() { continue }`, `if let Some(old) = &valid_scratchpad {..}`,
            // and no other mention of the key or of the pad's address/owner
            let old_shape = texts.len() == 3
                && deser == 0
                && texts[1].starts_with("if!scratchpad.is_valid(){")
                && texts[2].starts_with("ifletSome(old)=&valid_scratchpad{ifold.count()>=scratchpad.count(){");
            let mentions = texts.iter().any(|t| {
                let t = t.replace("pretty_key", "");
                t.contains("key") || t.contains(".address()") || t.contains(".owner()") || t.contains("network_address")
            });
            if old_shape && !mentions {
                Ok(false)
            } else {
                Err(format!("{rel}:handle_split_record_error: scratchpad arm is neither the known shape without an address check nor one with a recognised `!= *key` check"))
            }
        }
        _ => Err(format!("{rel}:handle_split_record_error: the record-key check of the scratchpad arm is misplaced or repeated")),
    }
}

/// the block of the `RecordKind::Register => { .. }` arm
struct RegArm {
    blocks: Vec<syn::Block>,
}
impl<'ast> Visit<'ast> for RegArm {
    fn visit_arm(&mut self, a: &'ast syn::Arm) {
        if norm(&a.pat) == "RecordKind::Register" {
            if let syn::Expr::Block(b) = &*a.body {
                self.blocks.push(b.block.clone());
            }
        }
        syn::visit::visit_arm(self, a);
    }
}

/// Does the register arm of `Network::handle_split_record_error` skip a register whose own address does not map to the
/// record key being read (before `verify()` / collecting it)?  Two-sided like `net_split_checks_pad_key`.
pub fn net_split_reg_checks_key(repo: &PathBuf) -> Result<bool, String> {
    let rel = "ant-networking/src/lib.rs";
    let file = parse_file(&repo.join(rel))?;
    let f = impl_fn(&file, "Network", None, "handle_split_record_error")?;
    let mut v = RegArm { blocks: vec![] };
    v.visit_block(&f.block);
    if v.blocks.len() != 1 {
        return Err(format!("{rel}:handle_split_record_error: {} `RecordKind::Register` arms with a block body", v.blocks.len()));
    }
    let arm = &v.blocks[0];
    let stmts: Vec<&syn::Stmt> = arm.stmts.iter().filter(|s| !matches!(s, syn::Stmt::Macro(_))).collect();
    let texts: Vec<String> = stmts.iter().map(|s| norm(s)).collect();
    let deser = texts.iter().position(|t| t.starts_with("letOk(register)=try_deserialize_record::<SignedRegister>(record)else{") && t.contains("continue"));
    let Some(deser) = deser else {
        return Err(format!("{rel}:handle_split_record_error: register arm does not deserialise `register` with let-else-continue"));
    };
    let first_use = texts.iter().position(|t| t.contains(".verify()") || t.contains("collected_registers.push("));
    let Some(first_use) = first_use else {
        return Err(format!("{rel}:handle_split_record_error: register arm never verifies / collects a register"));
    };
    let is_reg_key = |side: &str| side.contains("register") && side.contains(".address()") && side.contains("from_register_address(") && side.ends_with(".to_record_key()");
    let is_req_key = |side: &str| side == "*key" || side == "key" || side == "&*key" || side == "key.clone()";
    let mut key_ifs: Vec<usize> = vec![];
    for (i, s) in stmts.iter().enumerate() {
        if let syn::Stmt::Expr(syn::Expr::If(e), _) = s {
            let c = norm(&e.cond);
            if !c.contains("to_record_key") {
                continue;
            }
            let sides: Vec<&str> = c.split("!=").collect();
            let ends_with_continue = matches!(e.then_branch.stmts.last(), Some(syn::Stmt::Expr(syn::Expr::Continue(c), _)) if c.label.is_none());
            let ok = sides.len() == 2
                && ((is_reg_key(sides[0]) && is_req_key(sides[1])) || (is_reg_key(sides[1]) && is_req_key(sides[0])))
                && !c.contains("||")
                && !c.contains("&&")
                && e.else_branch.is_none()
                && ends_with_continue
                && !norm(&e.then_branch).contains("collected_registers");
            if !ok {
                return Err(format!("{rel}:handle_split_record_error: register arm compares a record key in an unknown way: `{c}`"));
            }
            key_ifs.push(i);
        }
    }
    match key_ifs.as_slice() {
        [i] if deser < *i && *i < first_use => Ok(true),
        [] => {
            let old_shape = texts.len() == 2 && deser == 0 && texts[1].starts_with("matchregister.verify(){Ok(_)=>{collected_registers.push(register);}Err(_)=>{");
            let mentions = texts.iter().any(|t| {
                let t = t.replace("pretty_key", "");
                t.contains("key") || t.contains("to_record_key") || t.contains("network_address")
            });
            if old_shape && !mentions {
                Ok(false)
            } else {
                Err(format!("{rel}:handle_split_record_error: register arm is neither the known shape without an address check nor one with a recognised `!= *key` check"))
            }
        }
        _ => Err(format!("{rel}:handle_split_record_error: the record-key check of the register arm is misplaced or repeated")),
    }
}

/// every `for` loop
#[derive(Default)]
struct ForLoops {
    found: Vec<syn::ExprForLoop>,
}
impl<'ast> Visit<'ast> for ForLoops {
    fn visit_expr_for_loop(&mut self, l: &'ast syn::ExprForLoop) {
        self.found.push(l.clone());
        syn::visit::visit_expr_for_loop(self, l);
    }
}
/// every `if` with an else branch, as (cond, then, else)
#[derive(Default)]
struct IfElses {
    found: Vec<(String, String, String)>,
}
impl<'ast> Visit<'ast> for IfElses {
    fn visit_expr_if(&mut self, i: &'ast syn::ExprIf) {
        if let Some((_, e)) = &i.else_branch {
            self.found.push((norm(&i.cond), norm(&i.then_branch), norm(e)));
        }
        syn::visit::visit_expr_if(self, i);
    }
}

/// The split branch of `SwarmDriver::accumulate_get_record_found` (event/kad.rs): is the union of the versions'
/// transactions answered as one record only when EVERY version decoded as transactions (`true`: a flag initialised
/// `true`, set `false` in the `Err(_)` arm of the loop's match on `get_transactions_from_record`, and the merged record
/// guarded by `<flag> && !<set>.is_empty()`), or as soon as any did (`false`: `Err(_) => continue`, guard
/// `!<set>.is_empty()`)?  Anything else is an error.
pub fn net_acc_merge_needs_all_tx(repo: &PathBuf) -> Result<bool, String> {
    let rel = "ant-networking/src/event/kad.rs";
    let file = parse_file(&repo.join(rel))?;
    let f = impl_fn(&file, "SwarmDriver", None, "accumulate_get_record_found")?;
    let mut fl = ForLoops::default();
    fl.visit_block(&f.block);
    let loops: Vec<&syn::ExprForLoop> = fl.found.iter().filter(|l| norm(&l.body).contains("get_transactions_from_record(")).collect();
    let [lp] = loops.as_slice() else {
        return Err(format!("{rel}:accumulate_get_record_found: expected one loop calling get_transactions_from_record, found {}", loops.len()));
    };
    if !norm(&lp.expr).ends_with("result_map.values()") {
        return Err(format!("{rel}:accumulate_get_record_found: the version loop iterates `{}`", norm(&lp.expr)));
    }
    let body = norm(&lp.body);
    let set = "accumulated_transactions";
    let head = format!("{{matchget_transactions_from_record(record){{Ok(transactions)=>{{{set}.extend(transactions);}}Err(_)=>{{");
    let Some(err_arm) = body.strip_prefix(&head).and_then(|t| t.strip_suffix("}}}")) else {
        return Err(format!("{rel}:accumulate_get_record_found: unexpected version loop `{body}`"));
    };
    let mut ie = IfElses::default();
    ie.visit_block(&f.block);
    let guards: Vec<&(String, String, String)> = ie.found.iter().filter(|(c, t, _)| c.contains(&format!("{set}.is_empty()")) && t.contains("try_serialize_record(")).collect();
    let [(cond, _, els)] = guards.as_slice() else {
        return Err(format!("{rel}:accumulate_get_record_found: expected one guarded merged-transactions record, found {}", guards.len()));
    };
    if !els.contains("SplitRecord") {
        return Err(format!("{rel}:accumulate_get_record_found: the else branch of the merged-transactions test does not answer SplitRecord"));
    }
    let nonempty = format!("!{set}.is_empty()");
    if err_arm == "continue;" {
        return if *cond == nonempty { Ok(false) } else { Err(format!("{rel}:accumulate_get_record_found: versions that are no transactions are skipped but the merge is guarded by `{cond}`")) };
    }
    let Some(flag) = err_arm.strip_suffix("=false;") else {
        return Err(format!("{rel}:accumulate_get_record_found: unexpected Err(_) arm `{err_arm}`"));
    };
    if flag.is_empty() || !flag.chars().all(|c| c.is_alphanumeric() || c == '_') {
        return Err(format!("{rel}:accumulate_get_record_found: unexpected Err(_) arm `{err_arm}`"));
    }
    let all = norm(&f.block);
    let init_true = all.matches(&format!("letmut{flag}=true;")).count() == 1;
    let assigns = all.matches(&format!("{flag}=")).count() - all.matches(&format!("{flag}==")).count();
    if !init_true || assigns != 2 {
        return Err(format!("{rel}:accumulate_get_record_found: `{flag}` is not initialised true and assigned false exactly once"));
    }
    if *cond == format!("{flag}&&{nonempty}") || *cond == format!("{nonempty}&&{flag}") {
        Ok(true)
    } else {
        Err(format!("{rel}:accumulate_get_record_found: the merged record is guarded by `{cond}`"))
    }
}

/// `Client::get_or_create_scratchpad` (the read of the vault write path): is a NEW vault created only when the read
/// failed with `RecordNotFound` (`true`: a `match pad_res` whose only arm building `Scratchpad::new(..)` is the one for
/// `Err(VaultError::Network(NetworkError::GetRecordError(GetRecordError::RecordNotFound)))`, every other `Err` arm
/// returns an error), or on ANY failure of the read (`false`: `if let Ok(existing_data) = pad_res { .. } else { new }`)?
pub fn vault_write_creates_only_on_not_found(vault: &syn::File) -> Result<bool, String> {
    let rel = "autonomi/src/client/vault.rs:get_or_create_scratchpad";
    let f = impl_fn(vault, "Client", None, "get_or_create_scratchpad")?;
    let body = norm(&f.block);
    if body.matches("get_vault_from_network(secret_key)").count() != 1 || !body.contains("letpad_res=self.get_vault_from_network(secret_key).await;") {
        return Err(format!("{rel}: does not read the vault once into `pad_res`"));
    }
    if body.matches("Scratchpad::new(").count() != 1 {
        return Err(format!("{rel}: expected exactly one `Scratchpad::new(..)`"));
    }
    let mut m = MatchOn { needle: "pad_res", arms: None };
    m.visit_block(&f.block);
    match m.arms {
        Some(arms) => {
            let mut saw_nf = false;
            let mut saw_ok = false;
            for (pat, arm_body) in &arms {
                let b = norm(arm_body);
                let p = pat.replace(",)", ")");
                if p.starts_with("Ok(") {
                    saw_ok = true;
                    if b.contains("Scratchpad::new(") {
                        return Err(format!("{rel}: the Ok arm builds a new scratchpad"));
                    }
                } else if p == "Err(VaultError::Network(NetworkError::GetRecordError(GetRecordError::RecordNotFound)))" {
                    saw_nf = true;
                    if !b.contains("Scratchpad::new(client_pk,content_type)") || b.contains("return") {
                        return Err(format!("{rel}: the RecordNotFound arm does not build the new scratchpad"));
                    }
                } else if p.starts_with("Err(") {
                    if !b.contains("returnErr(") || b.contains("Scratchpad::new(") {
                        return Err(format!("{rel}: the arm `{pat}` does not return an error"));
                    }
                } else {
                    return Err(format!("{rel}: unexpected arm `{pat}`"));
                }
            }
            if saw_nf && saw_ok {
                Ok(true)
            } else {
                Err(format!("{rel}: `match pad_res` lacks the Ok / RecordNotFound arm"))
            }
        }
        None => {
            if body.contains("letscratch=ifletOk(existing_data)=pad_res{") && body.contains("}else{trace!(\"newscratchpadcreation\");Scratchpad::new(client_pk,content_type)}") {
                Ok(false)
            } else {
                Err(format!("{rel}: neither the known `if let Ok(..) = pad_res {{..}} else {{ new }}` nor a recognised `match pad_res`"))
            }
        }
    }
}

pub fn generate(repo: &PathBuf) -> Result<String, String> {
    let net_split_checks = net_split_checks_pad_key(repo)?;
    let net_split_reg_checks = net_split_reg_checks_key(repo)?;
    let net_acc_needs_all_tx = net_acc_merge_needs_all_tx(repo)?;
    let rel_pub = "autonomi/src/client/data/public.rs";
    let rel_vault = "autonomi/src/client/vault.rs";
    let public = parse_file(&repo.join(rel_pub))?;
    let vault = parse_file(&repo.join(rel_vault))?;

    // ---- chunk_get
    let chunk_get = impl_fn(&public, "Client", None, "chunk_get")?;
    let body = norm(&chunk_get.block);
    if !body.contains("get_record_from_network(") || !body.contains("try_deserialize_record(") {
        return Err(format!("{rel_pub}:chunk_get: unexpected shape (no get_record_from_network / try_deserialize_record)"));
    }
    let checks_kind = body.contains("ifletRecordKind::Chunk=header.kind") && body.contains("RecordKindMismatch");
    let mut ifs = ErrIfs::default();
    ifs.visit_block(&chunk_get.block);
    // `if <recomputed address of chunk> != <addr> { .. Err }`
    // exactly: the name recomputed from the deserialised content (`chunk` bound once from `try_deserialize_record(&record)`,
    // `Chunk::new` hashes the value on deserialisation) against the REQUESTED address (the parameter `addr`, never rebound);
    // a comparison with anything else — e.g. an address derived from `record.key`, which the replying holder chooses — is
    // not this check. Any other `!=` that mentions the chunk's name/address is refused rather than guessed at.
    let addr_is_param = chunk_get.sig.inputs.iter().any(|a| matches!(a, syn::FnArg::Typed(t) if norm(&t.pat) == "addr"));
    let addr_rebound = body.contains("letaddr=") || body.contains("letmutaddr") || body.contains(";addr=") || body.contains("{addr=");
    let chunk_bound_once = body.matches("letchunk:Chunk=try_deserialize_record(&record)?;").count() == 1 && body.matches("letchunk").count() == 1;
    if !addr_is_param || addr_rebound {
        return Err(format!("{rel_pub}:chunk_get: `addr` is not a parameter that is never rebound"));
    }
    let name_cmps: Vec<&(String, String)> = ifs.found.iter().filter(|(c, _)| c.contains("!=") && (c.contains("chunk.name()") || c.contains("chunk.address()"))).collect();
    let compares = match name_cmps.as_slice() {
        [] => false,
        [(c, then)] => {
            let exact = ["chunk.name()!=&addr", "*chunk.name()!=addr", "&addr!=chunk.name()", "addr!=*chunk.name()", "chunk.address().xorname()!=&addr", "*chunk.address().xorname()!=addr"];
            if exact.contains(&c.as_str()) && then.contains("returnErr(") && chunk_bound_once {
                true
            } else {
                return Err(format!("{rel_pub}:chunk_get: the chunk's name is compared in an unknown way: `{c}`"));
            }
        }
        _ => return Err(format!("{rel_pub}:chunk_get: the chunk's name is compared more than once")),
    };

    // ---- get_vault_from_network
    let get_vault = impl_fn(&vault, "Client", None, "get_vault_from_network")?;
    let mut m = MatchOn { needle: "get_record_from_network", arms: None };
    m.visit_block(&get_vault.block);
    let arms = m.arms.ok_or(format!("{rel_vault}:get_vault_from_network: no match on get_record_from_network(..)"))?;
    let ok_arm = arms.iter().find(|(p, _)| p.starts_with("Ok(")).ok_or(format!("{rel_vault}: no Ok(record) arm"))?;
    let split_arm = arms.iter().find(|(p, _)| p.contains("SplitRecord")).ok_or(format!("{rel_vault}: no SplitRecord arm"))?;
    if !norm(&ok_arm.1).contains("try_deserialize_record::<Scratchpad>(") || !norm(&split_arm.1).contains("try_deserialize_record::<Scratchpad>(") {
        return Err(format!("{rel_vault}: arms do not deserialise a Scratchpad"));
    }
    let mut ok_ifs = ErrIfs::default();
    ok_ifs.visit_expr(&ok_arm.1);
    let mut ok_owner = false;
    let mut ok_valid = false;
    for (c, then) in &ok_ifs.found {
        if !then.contains("returnErr(") {
            continue;
        }
        for d in c.split("||") {
            if owner_ne(d) {
                ok_owner = true;
            }
            if d.contains("!") && d.contains(".is_valid()") && !d.contains("!=") {
                ok_valid = true;
            }
        }
    }
    let mut f = Filters::default();
    f.visit_expr(&split_arm.1);
    let mut sp_owner = false;
    let mut sp_valid = false;
    for c in &f.filters {
        for d in c.split("&&") {
            if owner_eq(d) {
                sp_owner = true;
            }
            if d.contains(".is_valid()") && !d.contains("!") {
                sp_valid = true;
            }
        }
    }
    if f.filter_map_ok == f.collect_result {
        return Err(format!("{rel_vault}: SplitRecord arm neither drops nor propagates undeserialisable records in a known way"));
    }
    let sp = norm(&split_arm.1);
    if !(sp.contains("sort_by_key(") && sp.contains(".count()") && sp.contains("max_version")) {
        return Err(format!("{rel_vault}: SplitRecord arm no longer selects the highest count in the known way"));
    }

    // does the owner/signature filter run before the highest count is determined?
    let pos_auth = [sp.find(".owner()=="), sp.find(".is_valid()")].into_iter().flatten().min();
    let pos_sort = sp.find("sort_by_key(").ok_or(format!("{rel_vault}: SplitRecord arm has no sort_by_key"))?;
    let filters_before_max = match pos_auth {
        Some(a) => a < pos_sort,
        None => true,
    };

    let mut s = header(&format!("{rel_pub}, {rel_vault}, ant-networking/src/lib.rs, ant-networking/src/event/kad.rs"));
    s.push_str("namespace SafeNet.Gen.ClientRead\n");
    s.push_str("/-- `chunk_get` requires the record header kind `RecordKind::Chunk` -/\n");
    s.push_str(&format!("def chunkGetChecksKind : Bool := {}\n", lean_bool(checks_kind)));
    s.push_str("/-- `chunk_get` compares the address recomputed from the returned content with the requested one and fails otherwise -/\n");
    s.push_str(&format!("def chunkGetComparesAddress : Bool := {}\n", lean_bool(compares)));
    s.push_str("/-- `get_vault_from_network`, `Ok(record)` arm: `pad.owner()` compared with the requested key / `pad.is_valid()` required -/\n");
    s.push_str(&format!("def vaultOkChecksOwner : Bool := {}\n", lean_bool(ok_owner)));
    s.push_str(&format!("def vaultOkChecksValid : Bool := {}\n", lean_bool(ok_valid)));
    s.push_str("/-- `SplitRecord` arm: pads filtered by owner / by `is_valid()` before the latest version is taken -/\n");
    s.push_str(&format!("def vaultSplitChecksOwner : Bool := {}\n", lean_bool(sp_owner)));
    s.push_str(&format!("def vaultSplitChecksValid : Bool := {}\n", lean_bool(sp_valid)));
    s.push_str("/-- `SplitRecord` arm: undeserialisable records are dropped (`filter_map(..ok())`) instead of failing the whole read -/\n");
    s.push_str(&format!("def vaultSplitDropsUndeserialisable : Bool := {}\n", lean_bool(f.filter_map_ok)));
    s.push_str("/-- `SplitRecord` arm: the owner/signature filter is applied before `sort_by_key` / `max_version` (forged versions cannot set the latest version) -/\n");
    s.push_str(&format!("def vaultSplitFiltersBeforeMax : Bool := {}\n", lean_bool(filters_before_max)));
    s.push_str("/-- `Network::handle_split_record_error`, `Scratchpad` arm: a scratchpad whose own address does not map to the record key being read is skipped before counters are compared -/\n");
    s.push_str(&format!("def netSplitChecksPadKey : Bool := {}\n", lean_bool(net_split_checks)));
    s.push_str("/-- `Network::handle_split_record_error`, `Register` arm: a register whose own address does not map to the record key being read is skipped before it is verified or collected -/\n");
    s.push_str(&format!("def netSplitRegChecksKey : Bool := {}\n", lean_bool(net_split_reg_checks)));
    let write_only_nf = vault_write_creates_only_on_not_found(&vault)?;
    s.push_str("/-- `Client::get_or_create_scratchpad`: a new vault is created (and paid for) only when the read failed with `RecordNotFound`; any other failure of the read is an error of the write (false: every failed read was taken for 'no vault yet') -/\n");
    s.push_str(&format!("def vaultWriteCreatesOnlyOnNotFound : Bool := {}\n", lean_bool(write_only_nf)));
    s.push_str("/-- `SwarmDriver::accumulate_get_record_found`, split branch: the union of the versions' transactions is answered as one record only when every version decoded as transactions (false: as soon as any did; versions of another kind were silently left out) -/\n");
    s.push_str(&format!("def netAccMergeNeedsAllTx : Bool := {}\n", lean_bool(net_acc_needs_all_tx)));
    s.push_str("end SafeNet.Gen.ClientRead\n");
    Ok(s)
}
