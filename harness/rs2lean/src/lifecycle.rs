//! C19: the few lifecycle facts that can be read robustly from the source as flags (the call sequences of
//! start/stop/remove/upgrade are control flow and stay in the hand model + correspondence run):
//!  * `add_node`: how the first new service number is derived (registry length vs. highest recorded number), that
//!    the name is `antnode{node_number}` and the data dir is `<base>/<service_name>`;
//!  * `NodeService::on_stop` clears the pid and sets Stopped; `on_remove` sets Removed;
//!  * `NodeService::on_start` writes pid/status only after the RPC block.
use crate::util::*;
use quote::ToTokens;
use std::path::PathBuf;

fn toks<T: ToTokens>(t: &T) -> String {
    t.to_token_stream().to_string().replace(' ', "")
}

/// top-level `self.service_data.<field> = <rhs>` assignments of a block: (index, field, rhs)
fn assignments(block: &syn::Block) -> Vec<(usize, String, String)> {
    let mut v = vec![];
    for (i, st) in block.stmts.iter().enumerate() {
        if let syn::Stmt::Expr(syn::Expr::Assign(a), _) = st {
            let lhs = toks(&a.left);
            if let Some(f) = lhs.strip_prefix("self.service_data.") {
                v.push((i, f.to_string(), toks(&a.right)));
            }
        }
    }
    v
}

pub fn generate(repo: &PathBuf) -> Result<String, String> {
    let rel_add = "ant-node-manager/src/add_services/mod.rs";
    let file = parse_file(&repo.join(rel_add))?;
    let add = free_fn(&file, "add_node")?;
    // the bindings are found by their initialisers, not by their names (a rename is harmless)
    let lets: Vec<(String, String)> = add
        .block
        .stmts
        .iter()
        .filter_map(|st| match st {
            syn::Stmt::Local(l) => l.init.as_ref().map(|i| (toks(&l.pat).trim_start_matches("mut").to_string(), toks(&i.expr))),
            _ => None,
        })
        .collect();
    let (base, cur, from_max) = lets
        .iter()
        .find_map(|(n, e)| match e.as_str() {
            "node_registry.nodes.len()asu16" => Some((n.clone(), e.clone(), false)),
            "node_registry.nodes.iter().map(|node|node.number).max().unwrap_or(0)" => Some((n.clone(), e.clone(), true)),
            _ => None,
        })
        .ok_or("add_node: no binding initialised from the registry length or the highest recorded number")?;
    let target = lets
        .iter()
        .find(|(_, e)| *e == format!("{base}+options.count.unwrap_or(1)"))
        .map(|(n, _)| n.clone())
        .ok_or_else(|| format!("add_node: no `let _ = {base} + options.count.unwrap_or(1)`"))?;
    let first = lets
        .iter()
        .find(|(_, e)| *e == format!("{base}+1"))
        .map(|(n, _)| n.clone())
        .ok_or_else(|| format!("add_node: no `let mut _ = {base} + 1`"))?;
    let body = toks(&add.block);
    for needle in [
        format!("letservice_name=format!(\"antnode{{{first}}}\");"),
        "letservice_data_dir_path=options.service_data_dir_path.join(service_name.clone());".to_string(),
        format!("number:{first},"),
        format!("{first}+=1;"),
        format!("while{first}<={target}"),
    ] {
        if !body.contains(&needle) {
            return Err(format!("add_node: expected `{needle}`"));
        }
    }

    let rel_node = "ant-service-management/src/node.rs";
    let nfile = parse_file(&repo.join(rel_node))?;
    let on_stop = impl_fn(&nfile, "NodeService", Some("ServiceStateActions"), "on_stop")?;
    let a = assignments(&on_stop.block);
    if !a.iter().any(|(_, f, r)| f == "status" && r == "ServiceStatus::Stopped") {
        return Err("on_stop: expected `self.service_data.status = ServiceStatus::Stopped`".into());
    }
    if a.iter().any(|(_, f, r)| (f == "pid" && r != "None") || (f == "status" && r != "ServiceStatus::Stopped")) {
        return Err("on_stop: unexpected assignment to pid/status".into());
    }
    let stop_clears_pid = a.iter().any(|(_, f, r)| f == "pid" && r == "None");

    let on_remove = impl_fn(&nfile, "NodeService", Some("ServiceStateActions"), "on_remove")?;
    let a = assignments(&on_remove.block);
    if a.len() != 1 || a[0].1 != "status" || a[0].2 != "ServiceStatus::Removed" {
        return Err("on_remove: expected exactly `self.service_data.status = ServiceStatus::Removed`".into());
    }

    let on_start = impl_fn(&nfile, "NodeService", Some("ServiceStateActions"), "on_start")?;
    // statement 0 must be the `let (connected_peers, pid, peer_id) = if full_refresh {..} else {..};` block holding the RPC calls
    let rpc_stmt = on_start.block.stmts.first().map(toks).unwrap_or_default();
    if !rpc_stmt.starts_with("let(connected_peers,pid,peer_id)=iffull_refresh{") || !rpc_stmt.contains(".node_info().await") || !rpc_stmt.contains(".network_info().await") {
        return Err("on_start: first statement is not the `if full_refresh` RPC block".into());
    }
    let a = assignments(&on_start.block);
    let st = a.iter().find(|(_, f, r)| f == "status" && r == "ServiceStatus::Running").ok_or("on_start: no `status = ServiceStatus::Running`")?;
    let pd = a.iter().find(|(_, f, r)| f == "pid" && r == "pid").ok_or("on_start: no `pid = pid`")?;
    let inside = rpc_stmt.contains("self.service_data.status=") || rpc_stmt.contains("self.service_data.pid=");
    let writes_after_rpc = st.0 > 0 && pd.0 > 0 && !inside;

    let mut s = header(&format!("{rel_add}, {rel_node}"));
    s.push_str("namespace SafeNet.Gen.Lifecycle\n");
    s.push_str(&format!("/-- `add_node`: `current_node_count` is the highest recorded `number` (true) or `nodes.len()` (false); source: `{cur}` -/\ndef numberFromMax : Bool := {}\n", lean_bool(from_max)));
    s.push_str(&format!("/-- `NodeService::on_stop` assigns `pid = None` -/\ndef onStopClearsPid : Bool := {}\n", lean_bool(stop_clears_pid)));
    s.push_str(&format!("/-- `NodeService::on_start` assigns pid/status only after the block holding the RPC calls -/\ndef onStartWritesAfterRpc : Bool := {}\n", lean_bool(writes_after_rpc)));
    s.push_str("end SafeNet.Gen.Lifecycle\n");
    Ok(s)
}
