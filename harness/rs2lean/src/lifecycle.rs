//! C19: the few lifecycle facts that can be read robustly from the source as flags (the call sequences of
//! start/stop/remove/upgrade are control flow and stay in the hand model + correspondence run):
//!  * `add_node`: how the first new service number is derived (registry length vs. highest recorded number), that
//!    the name is `antnode{node_number}` and the data dir is `<base>/<service_name>`;
//!  * `NodeService::on_stop` clears the pid and sets Stopped; `on_remove` sets Removed;
//!  * `NodeService::on_start` writes pid/status only after the RPC block;
//!  * `ServiceManager::stop`: whether a failed `service_control.stop` is followed by a process lookup + `on_stop`;
//!  * `add_node`: whether the requested node / metrics / RPC ranges are checked against each other
//!    (`check_port_ranges_disjoint`) between the per-range checks against the registry and the install loop;
//!  * the command layer (`cmd/node.rs`, `bin/daemon/main.rs::restart_handler`): save and refresh sites, see
//!    `lifecycle_cmd.rs`;
//!  * `rpc::restart_node_service` (the daemon's restart): how the replacement service of `retain_peer_id = false` is
//!    numbered, and whether it is pushed to the registry before the `?` on the result of its first start.
use crate::util::*;
use quote::ToTokens;
use std::path::PathBuf;

#[path = "lifecycle_cmd.rs"]
mod cmd;

fn toks<T: ToTokens>(t: &T) -> String {
    t.to_token_stream().to_string().replace(' ', "")
}

/// top-level `self.service_data.<field> = <rhs>` assignments of a block: (index, field, rhs)
fn assignments(block: &syn::Block) -> Vec<(usize, String, String)> {
    let mut v = vec![];
    for (i, st) in block.stmts.iter().enumerate() {
        if let syn::Stmt::Expr(syn::Expr::Assign(a), _) = st {
            let lhs = toks(&a.left);
            if let Some(f) = lhs.strip_prefix("self.service_data.") {
                v.push((i, f.to_string(), toks(&a.right)));
            }
        }
    }
    v
}

pub fn generate(repo: &PathBuf) -> Result<String, String> {
    let rel_add = "ant-node-manager/src/add_services/mod.rs";
    let file = parse_file(&repo.join(rel_add))?;
    let add = free_fn(&file, "add_node")?;
    // the bindings are found by their initialisers, not by their names (a rename is harmless)
    let lets: Vec<(String, String)> = add
        .block
        .stmts
        .iter()
        .filter_map(|st| match st {
            syn::Stmt::Local(l) => l.init.as_ref().map(|i| (toks(&l.pat).trim_start_matches("mut").to_string(), toks(&i.expr))),
            _ => None,
        })
        .collect();
    let (base, cur, from_max) = lets
        .iter()
        .find_map(|(n, e)| match e.as_str() {
            "node_registry.nodes.len()asu16" => Some((n.clone(), e.clone(), false)),
            "node_registry.nodes.iter().map(|node|node.number).max().unwrap_or(0)" => Some((n.clone(), e.clone(), true)),
            _ => None,
        })
        .ok_or("add_node: no binding initialised from the registry length or the highest recorded number")?;
    let target = lets
        .iter()
        .find(|(_, e)| *e == format!("{base}+options.count.unwrap_or(1)"))
        .map(|(n, _)| n.clone())
        .ok_or_else(|| format!("add_node: no `let _ = {base} + options.count.unwrap_or(1)`"))?;
    let first = lets
        .iter()
        .find(|(_, e)| *e == format!("{base}+1"))
        .map(|(n, _)| n.clone())
        .ok_or_else(|| format!("add_node: no `let mut _ = {base} + 1`"))?;
    let body = toks(&add.block);
    for needle in [
        format!("letservice_name=format!(\"antnode{{{first}}}\");"),
        "letservice_data_dir_path=options.service_data_dir_path.join(service_name.clone());".to_string(),
        format!("number:{first},"),
        format!("{first}+=1;"),
        format!("while{first}<={target}"),
    ] {
        if !body.contains(&needle) {
            return Err(format!("add_node: expected `{needle}`"));
        }
    }

    // ---- port validation: after the three per-range checks against the registry, are the requested ranges checked
    // against each other (before anything is allocated or installed)?
    let stmts: Vec<String> = add.block.stmts.iter().map(toks).collect();
    let disjoint_call = "check_port_ranges_disjoint(&[&options.node_port,&options.metrics_port,&options.rpc_port])?;";
    let avail: Vec<usize> = stmts
        .iter()
        .enumerate()
        .filter(|(_, t)| t.starts_with("ifletSome(port_option)=&options.") && t.contains("check_port_availability(port_option,&node_registry.nodes)?;"))
        .map(|(i, _)| i)
        .collect();
    let loop_at = stmts.iter().position(|t| t.starts_with(&format!("while{first}<={target}"))).ok_or("add_node: no install loop")?;
    if avail.len() != 3 || avail.iter().any(|i| *i > loop_at) {
        return Err("add_node: expected three `if let Some(port_option) = &options.<x>_port { validate; check_port_availability }` in front of the install loop".into());
    }
    let ranges_disjoint_checked = match (stmts.iter().position(|t| t == disjoint_call), body.matches("check_port_ranges_disjoint").count()) {
        (None, 0) => false,
        (Some(k), 1) if k > *avail.iter().max().unwrap_or(&0) && k < loop_at => true,
        _ => return Err("add_node: `check_port_ranges_disjoint` is not called once, on the three requested ranges, between the per-range checks and the install loop".into()),
    };
    // (first-fit report of the helper: the lowest port shared with an EARLIER range, ranges taken in the order node, metrics, rpc)
    if ranges_disjoint_checked {
        let hfile = parse_file(&repo.join("ant-node-manager/src/helpers.rs"))?;
        let h = toks(&free_fn(&hfile, "check_port_ranges_disjoint")?.block);
        for needle in ["requested.iter().take(i)", "letfirst_shared=*start.max(other_start);", "iffirst_shared<=*end.min(other_end)"] {
            if !h.contains(needle) {
                return Err(format!("check_port_ranges_disjoint: expected `{needle}`"));
            }
        }
    }

    let rel_node = "ant-service-management/src/node.rs";
    let nfile = parse_file(&repo.join(rel_node))?;
    let on_stop = impl_fn(&nfile, "NodeService", Some("ServiceStateActions"), "on_stop")?;
    let a = assignments(&on_stop.block);
    if !a.iter().any(|(_, f, r)| f == "status" && r == "ServiceStatus::Stopped") {
        return Err("on_stop: expected `self.service_data.status = ServiceStatus::Stopped`".into());
    }
    if a.iter().any(|(_, f, r)| (f == "pid" && r != "None") || (f == "status" && r != "ServiceStatus::Stopped")) {
        return Err("on_stop: unexpected assignment to pid/status".into());
    }
    let stop_clears_pid = a.iter().any(|(_, f, r)| f == "pid" && r == "None");

    let on_remove = impl_fn(&nfile, "NodeService", Some("ServiceStateActions"), "on_remove")?;
    let a = assignments(&on_remove.block);
    if a.len() != 1 || a[0].1 != "status" || a[0].2 != "ServiceStatus::Removed" {
        return Err("on_remove: expected exactly `self.service_data.status = ServiceStatus::Removed`".into());
    }

    let on_start = impl_fn(&nfile, "NodeService", Some("ServiceStateActions"), "on_start")?;
    // statement 0 must be the `let (connected_peers, pid, peer_id) = if full_refresh {..} else {..};` block holding the RPC calls
    let rpc_stmt = on_start.block.stmts.first().map(toks).unwrap_or_default();
    if !rpc_stmt.starts_with("let(connected_peers,pid,peer_id)=iffull_refresh{") || !rpc_stmt.contains(".node_info().await") || !rpc_stmt.contains(".network_info().await") {
        return Err("on_start: first statement is not the `if full_refresh` RPC block".into());
    }
    let a = assignments(&on_start.block);
    let st = a.iter().find(|(_, f, r)| f == "status" && r == "ServiceStatus::Running").ok_or("on_start: no `status = ServiceStatus::Running`")?;
    let pd = a.iter().find(|(_, f, r)| f == "pid" && r == "pid").ok_or("on_start: no `pid = pid`")?;
    let inside = rpc_stmt.contains("self.service_data.status=") || rpc_stmt.contains("self.service_data.pid=");
    let writes_after_rpc = st.0 > 0 && pd.0 > 0 && !inside;

    // ---- ServiceManager::stop: what happens when `service_control.stop` returns an error
    let rel_lib = "ant-node-manager/src/lib.rs";
    let lfile = parse_file(&repo.join(rel_lib))?;
    let stop = impl_fn(&lfile, "ServiceManager", None, "stop")?;
    let sbody = toks(&stop.block);
    let stop_call = "self.service_control.stop(&name,self.service.is_user_mode())";
    let stop_fail_checks = if sbody.contains(&format!("{stop_call}?;")) {
        false
    } else if sbody.contains(&format!(
        "ifletErr(err)={stop_call}{{ifself.service_control.get_process_pid(&self.service.bin_path()).is_err(){{self.service.on_stop().await?;}}returnErr(err.into());}}"
    )) {
        true
    } else {
        return Err("ServiceManager::stop: the handling of an error from service_control.stop has an unexpected shape".into());
    };

    // ---- the daemon's restart path
    let rel_rpc = "ant-node-manager/src/rpc.rs";
    let rfile = parse_file(&repo.join(rel_rpc))?;
    let restart = free_fn(&rfile, "restart_node_service")?;
    let rlets: Vec<(String, String)> = restart
        .block
        .stmts
        .iter()
        .filter_map(|st| match st {
            syn::Stmt::Local(l) => l.init.as_ref().map(|i| (toks(&l.pat).trim_start_matches("mut").to_string(), toks(&i.expr))),
            _ => None,
        })
        .collect();
    let (rbase, rcur, restart_from_max) = rlets
        .iter()
        .find_map(|(n, e)| match e.as_str() {
            "node_registry.nodes.len()" => Some((n.clone(), e.clone(), false)),
            "node_registry.nodes.iter().map(|node|node.number).max().unwrap_or(0)" => Some((n.clone(), e.clone(), true)),
            _ => None,
        })
        .ok_or("restart_node_service: no binding initialised from the registry length or the highest recorded number")?;
    // the `if retain_peer_id { .. } else { .. }` statement; its else block creates the replacement service
    let else_block = restart
        .block
        .stmts
        .iter()
        .find_map(|st| match st {
            syn::Stmt::Expr(syn::Expr::If(i), _) if toks(&i.cond) == "retain_peer_id" => match i.else_branch.as_ref().map(|(_, e)| e.as_ref()) {
                Some(syn::Expr::Block(b)) => Some(b.block.clone()),
                _ => None,
            },
            _ => None,
        })
        .ok_or("restart_node_service: no `if retain_peer_id { .. } else { .. }` statement")?;
    let ebody = toks(&else_block);
    for needle in [
        format!("letnew_node_number={rbase}+1;"),
        "letnew_service_name=format!(\"antnode{new_node_number}\");".to_string(),
        "data_dir_path.join(&new_service_name)".to_string(),
        "service_name:new_service_name.clone(),".to_string(),
    ] {
        if !ebody.contains(&needle) {
            return Err(format!("restart_node_service: expected `{needle}`"));
        }
    }
    if !ebody.contains("number:new_node_number,") && !ebody.contains("number:new_node_numberasu16,") {
        return Err("restart_node_service: expected `number: new_node_number`".into());
    }
    let estmts: Vec<String> = else_block.stmts.iter().map(toks).collect();
    let push_at = estmts
        .iter()
        .position(|t| t.starts_with("node_registry.nodes.push(service_manager.service.service_data.clone())"))
        .ok_or("restart_node_service: no `node_registry.nodes.push(service_manager.service.service_data.clone())`")?;
    let start_q_before = estmts[..push_at].iter().any(|t| t.contains("service_manager.start().await?"));
    let start_bound = estmts[..push_at]
        .iter()
        .find_map(|t| t.strip_prefix("let").and_then(|r| r.strip_suffix("=service_manager.start().await;")).map(|n| n.to_string()));
    let records_failed_start = match (start_q_before, &start_bound) {
        (true, None) => false,
        (false, Some(name)) if estmts[push_at + 1..].iter().any(|t| *t == format!("{name}?;")) => true,
        _ => return Err("restart_node_service: cannot tell whether the replacement service is recorded before the `?` on its start".into()),
    };

    let layer = cmd::read(repo)?;

    let mut s = header(&format!("{rel_add}, {rel_node}, {rel_rpc}, {rel_lib}, {}, {}", cmd::REL_CMD, cmd::REL_DAEMON));
    s.push_str("namespace SafeNet.Gen.Lifecycle\n");
    s.push_str(&format!("/-- `add_node`: `current_node_count` is the highest recorded `number` (true) or `nodes.len()` (false); source: `{cur}` -/\ndef numberFromMax : Bool := {}\n", lean_bool(from_max)));
    s.push_str(&format!("/-- `NodeService::on_stop` assigns `pid = None` -/\ndef onStopClearsPid : Bool := {}\n", lean_bool(stop_clears_pid)));
    s.push_str(&format!("/-- `NodeService::on_start` assigns pid/status only after the block holding the RPC calls -/\ndef onStartWritesAfterRpc : Bool := {}\n", lean_bool(writes_after_rpc)));
    s.push_str(&format!("/-- `restart_node_service`, `retain_peer_id = false`: the replacement service is numbered from the highest recorded `number` (true) or from `nodes.len()` (false); source: `{rcur}` -/\ndef restartNumberFromMax : Bool := {}\n", lean_bool(restart_from_max)));
    s.push_str(&format!("/-- `restart_node_service`, `retain_peer_id = false`: the replacement service is pushed to the registry before the `?` on the result of its first start (true), or only after a successful start (false) -/\ndef restartRecordsFailedStart : Bool := {}\n", lean_bool(records_failed_start)));
    s.push_str(&format!("/-- `ServiceManager::stop`: when `service_control.stop` returns an error the process is looked up again and a service whose process has gone is recorded as stopped (`on_stop`) before the error is returned (true), or the error is returned at once (false) -/\ndef stopFailChecksProcess : Bool := {}\n", lean_bool(stop_fail_checks)));
    s.push_str(&format!("/-- `add_node` checks the requested node / metrics / RPC port ranges against each other (`check_port_ranges_disjoint`) after checking each against the registry and before the install loop -/\ndef requestedRangesDisjointChecked : Bool := {}\n", lean_bool(ranges_disjoint_checked)));
    s.push_str(&cmd::emit(&layer));
    s.push_str("end SafeNet.Gen.Lifecycle\n");
    Ok(s)
}
