//! ant-evm/src/data_payments.rs -> Gen/Quote.lean: constants, the ordered parts of `bytes_for_signing`
//! and `hash`, and the comparators of `has_expired`, `is_newer_than`, `historical_verify`.
use crate::util::*;
use quote::ToTokens;
use std::path::PathBuf;
use syn::visit::Visit;

fn toks<T: ToTokens>(t: &T) -> String {
    t.to_token_stream().to_string().replace(' ', "")
}

fn cmp_lean(op: &syn::BinOp) -> Result<&'static str, String> {
    Ok(match op {
        syn::BinOp::Gt(_) => ">",
        syn::BinOp::Ge(_) => "≥",
        syn::BinOp::Lt(_) => "<",
        syn::BinOp::Le(_) => "≤",
        syn::BinOp::Eq(_) => "=",
        syn::BinOp::Ne(_) => "≠",
        other => return Err(format!("unexpected comparison operator {}", other.to_token_stream())),
    })
}

/// the same comparison with the operands swapped
fn flip(op: &'static str) -> &'static str {
    match op {
        ">" => "<",
        "<" => ">",
        "≥" => "≤",
        "≤" => "≥",
        o => o,
    }
}

/// (name, type) of the typed parameters of a fn, in order
fn typed_params(sig: &syn::Signature) -> Vec<(String, String)> {
    sig.inputs
        .iter()
        .filter_map(|a| if let syn::FnArg::Typed(t) = a { Some((toks(&t.pat), toks(&t.ty))) } else { None })
        .collect()
}

#[derive(Default)]
struct Ifs {
    conds: Vec<syn::Expr>,
}
impl<'ast> Visit<'ast> for Ifs {
    fn visit_expr_if(&mut self, i: &'ast syn::ExprIf) {
        self.conds.push((*i.cond).clone());
        syn::visit::visit_expr_if(self, i);
    }
}

pub fn generate(repo: &PathBuf) -> Result<String, String> {
    let rel = "ant-evm/src/data_payments.rs";
    let file = parse_file(&repo.join(rel))?;
    let exp = const_value(&file, "QUOTE_EXPIRATION_SECS")?;
    let margin = const_value(&file, "LIVE_TIME_MARGIN")?;

    // ---- bytes_for_signing: ordered parts.  Parameters are recognised by TYPE, locals by what they are bound to.
    let f = impl_fn(&file, "PaymentQuote", None, "bytes_for_signing")?;
    let by_type = |needle: &str| -> Result<String, String> {
        typed_params(&f.sig)
            .into_iter()
            .find(|(_, t)| t.contains(needle))
            .map(|(n, _)| n)
            .ok_or_else(|| format!("bytes_for_signing: no parameter of type {needle}"))
    };
    let (p_xor, p_ts, p_qm, p_rw) = (by_type("XorName")?, by_type("SystemTime")?, by_type("QuotingMetrics")?, by_type("Address")?);
    let mut parts: Vec<&str> = vec![];
    let mut acc: Option<String> = None;
    let mut locals: Vec<(String, String)> = vec![];
    let n_stmts = f.block.stmts.len();
    for (i, st) in f.block.stmts.iter().enumerate() {
        match st {
            syn::Stmt::Local(l) => {
                let name = toks(&l.pat).trim_start_matches("mut").to_string();
                let init = l.init.as_ref().map(|i| toks(&i.expr)).unwrap_or_default();
                if acc.is_none() && init == format!("{p_xor}.to_vec()") {
                    acc = Some(name);
                    parts.push("content");
                } else {
                    locals.push((name, init));
                }
            }
            syn::Stmt::Macro(_) => {} // logging
            syn::Stmt::Expr(syn::Expr::MethodCall(m), Some(_)) if acc.as_deref() == Some(toks(&m.receiver).as_str()) && (m.method == "extend_from_slice" || m.method == "extend") && m.args.len() == 1 => {
                let raw = toks(&m.args[0]);
                let arg = raw.trim_start_matches('&').to_string();
                // a local stands for what it is bound to
                let arg = locals.iter().find(|(n, _)| *n == arg).map(|(_, i)| i.clone()).unwrap_or(arg);
                let ts_prefix = format!("{p_ts}.duration_since(SystemTime::UNIX_EPOCH).");
                if arg.starts_with(&ts_prefix) && arg.ends_with(".as_secs().to_le_bytes()") {
                    let mid = &arg[ts_prefix.len()..arg.len() - ".as_secs().to_le_bytes()".len()];
                    if mid == "unwrap()" || (mid.starts_with("expect(\"") && mid.ends_with("\")")) {
                        parts.push("secsLE8");
                    } else {
                        return Err(format!("bytes_for_signing: unexpected handling of the epoch error `{mid}`"));
                    }
                } else if arg == format!("rmp_serde::to_vec({p_qm}).unwrap_or_default()") || arg == format!("rmp_serde::to_vec(&{p_qm}).unwrap_or_default()") {
                    parts.push("metrics");
                } else if arg == format!("{p_rw}.as_slice()") || arg == format!("{p_rw}.as_ref()") {
                    parts.push("rewards");
                } else {
                    return Err(format!("bytes_for_signing: unexpected part `{raw}`"));
                }
            }
            syn::Stmt::Expr(e, None) if i + 1 == n_stmts && Some(toks(e)) == acc => {}
            other => return Err(format!("bytes_for_signing: unexpected statement `{}`", toks(other))),
        }
    }
    if acc.is_none() {
        return Err("bytes_for_signing: no accumulator initialised with the content address".into());
    }
    // bytes_for_sig passes self's own fields in order
    let f = impl_fn(&file, "PaymentQuote", None, "bytes_for_sig")?;
    let body = toks(&f.block).replace(",)", ")");
    if body != "{Self::bytes_for_signing(self.content,self.timestamp,&self.quoting_metrics,&self.rewards_address)}" {
        return Err(format!("bytes_for_sig: unexpected body {body}"));
    }

    // ---- hash: bytes_for_sig ++ pub_key ++ signature
    let f = impl_fn(&file, "PaymentQuote", None, "hash")?;
    let mut hparts: Vec<&str> = vec![];
    let mut acc: Option<String> = None;
    let n_stmts = f.block.stmts.len();
    for (i, st) in f.block.stmts.iter().enumerate() {
        match st {
            syn::Stmt::Local(l) if acc.is_none() => {
                let init = l.init.as_ref().map(|i| toks(&i.expr)).unwrap_or_default();
                if init != "self.bytes_for_sig()" {
                    return Err(format!("hash: unexpected initial value `{init}`"));
                }
                acc = Some(toks(&l.pat).trim_start_matches("mut").to_string());
                hparts.push("sigBytes");
            }
            syn::Stmt::Macro(_) => {}
            syn::Stmt::Expr(syn::Expr::MethodCall(m), Some(_)) if acc.as_deref() == Some(toks(&m.receiver).as_str()) && (m.method == "extend_from_slice" || m.method == "extend") && m.args.len() == 1 => {
                match toks(&m.args[0]).as_str() {
                    "self.pub_key.as_slice()" | "&self.pub_key" => hparts.push("pubKey"),
                    "self.signature.as_slice()" | "&self.signature" => hparts.push("signature"),
                    a => return Err(format!("hash: unexpected part `{a}`")),
                }
            }
            syn::Stmt::Expr(e, None) if i + 1 == n_stmts && acc.as_ref().map(|a| toks(e).ends_with(&format!("hash({a})"))).unwrap_or(false) => {}
            other => return Err(format!("hash: unexpected statement `{}`", toks(other))),
        }
    }

    // ---- has_expired: `NOW = SystemTime::now()`; AGE = whole seconds of NOW.duration_since(self.timestamp), a failure
    //      returns a constant; result = AGE <cmp> QUOTE_EXPIRATION_SECS (either operand order)
    let f = impl_fn(&file, "PaymentQuote", None, "has_expired")?;
    let mut now: Option<String> = None;
    let mut age_names: Vec<String> = vec![]; // expressions that denote the whole seconds elapsed
    let mut dur_names: Vec<String> = vec![]; // locals bound to the Ok(Duration)
    let mut future: Option<bool> = None;
    let ret_const = |e: &syn::Expr| -> Option<bool> {
        match toks(e).trim_matches(|c| c == '{' || c == '}' || c == ';' || c == ',') {
            "returntrue" => Some(true),
            "returnfalse" => Some(false),
            _ => None,
        }
    };
    let mut exp_op: Option<&'static str> = None;
    let n_stmts = f.block.stmts.len();
    for (i, st) in f.block.stmts.iter().enumerate() {
        match st {
            syn::Stmt::Macro(_) => {}
            syn::Stmt::Local(l) => {
                let init = l.init.as_ref().ok_or("has_expired: uninitialised local")?;
                let it = toks(&init.expr);
                let name = toks(&l.pat);
                if it == "SystemTime::now()" {
                    now = Some(name);
                } else if let (Some(n), Some((_, div))) = (&now, &init.diverge) {
                    // let Ok(D) = NOW.duration_since(self.timestamp) else { return C };
                    if it != format!("{n}.duration_since(self.timestamp)") || !name.starts_with("Ok(") {
                        return Err(format!("has_expired: unexpected `let .. else` on `{it}`"));
                    }
                    dur_names.push(name[3..name.len() - 1].to_string());
                    future = Some(ret_const(div).ok_or("has_expired: the else branch must return a constant")?);
                } else if let (Some(n), syn::Expr::Match(m)) = (&now, &*init.expr) {
                    if toks(&m.expr) != format!("{n}.duration_since(self.timestamp)") || m.arms.len() != 2 {
                        return Err(format!("has_expired: unexpected match on `{}`", toks(&m.expr)));
                    }
                    for arm in &m.arms {
                        let pat = toks(&arm.pat);
                        if let Some(d) = pat.strip_prefix("Ok(").and_then(|r| r.strip_suffix(')')) {
                            if toks(&arm.body) != format!("{d}.as_secs()") {
                                return Err(format!("has_expired: the elapsed time is taken as `{}`, not as whole seconds", toks(&arm.body)));
                            }
                        } else if pat.starts_with("Err(") {
                            future = Some(ret_const(&arm.body).ok_or("has_expired: the Err arm must return a constant")?);
                        } else {
                            return Err(format!("has_expired: unexpected arm `{pat}`"));
                        }
                    }
                    age_names.push(name);
                } else if dur_names.iter().any(|d| it == format!("{d}.as_secs()")) {
                    age_names.push(name);
                } else {
                    return Err(format!("has_expired: unexpected local `{name} = {it}`"));
                }
            }
            syn::Stmt::Expr(syn::Expr::Binary(b), None) if i + 1 == n_stmts => {
                let is_age = |t: &str| age_names.iter().any(|a| a == t) || dur_names.iter().any(|d| t == format!("{d}.as_secs()"));
                let (l, r) = (toks(&b.left), toks(&b.right));
                exp_op = Some(if is_age(&l) && r == "QUOTE_EXPIRATION_SECS" {
                    cmp_lean(&b.op)?
                } else if is_age(&r) && l == "QUOTE_EXPIRATION_SECS" {
                    flip(cmp_lean(&b.op)?)
                } else {
                    return Err(format!("has_expired: unexpected final comparison `{}`", toks(b)));
                });
            }
            other => return Err(format!("has_expired: unexpected statement `{}`", toks(other))),
        }
    }
    let future = future.ok_or("has_expired: no verdict for a timestamp later than now")?;
    let exp_op = exp_op.ok_or("has_expired: no final comparison with QUOTE_EXPIRATION_SECS")?;

    // ---- is_newer_than
    let f = impl_fn(&file, "PaymentQuote", None, "is_newer_than")?;
    let other = typed_params(&f.sig).into_iter().next().map(|(n, _)| n).ok_or("is_newer_than: no parameter")?;
    let newer_op = match f.block.stmts.as_slice() {
        [syn::Stmt::Expr(syn::Expr::Binary(b), None)] => {
            let (l, r) = (toks(&b.left), toks(&b.right));
            if l == "self.timestamp" && r == format!("{other}.timestamp") {
                cmp_lean(&b.op)?
            } else if r == "self.timestamp" && l == format!("{other}.timestamp") {
                flip(cmp_lean(&b.op)?)
            } else {
                return Err(format!("is_newer_than: unexpected comparison `{}`", toks(b)));
            }
        }
        _ => return Err("is_newer_than: expected a single comparison of the two timestamps".into()),
    };

    // ---- historical_verify
    let f = impl_fn(&file, "PaymentQuote", None, "historical_verify")?;
    let other = typed_params(&f.sig).into_iter().next().map(|(n, _)| n).ok_or("historical_verify: no parameter")?;
    let body = toks(&f.block);
    // all locals of the function (nested blocks included are not needed: the bindings we use are top level)
    let mut hl: Vec<(String, String)> = vec![];
    for st in &f.block.stmts {
        if let syn::Stmt::Local(l) = st {
            hl.push((toks(&l.pat), l.init.as_ref().map(|i| toks(&i.expr)).unwrap_or_default()));
        }
    }
    let newer_call = format!("self.is_newer_than({other})");
    let newer_local = hl.iter().find(|(_, i)| *i == newer_call).map(|(n, _)| n.clone());
    let is_newer_cond = |c: &str| c == newer_call || Some(c.to_string()) == newer_local;
    // (OLD, NEW) = if self-is-newer { (other, self) } else { (self, other) }
    let (old_q, new_q) = hl
        .iter()
        .find_map(|(pat, init)| {
            let names = pat.strip_prefix('(')?.strip_suffix(')')?.split_once(',')?;
            let rest = init.strip_prefix("if")?;
            let (cond, branches) = rest.split_once('{')?;
            if is_newer_cond(cond) && branches == format!("({other},self)}}else{{(self,{other})}}") {
                Some((names.0.to_string(), names.1.to_string()))
            } else {
                None
            }
        })
        .ok_or("historical_verify: cannot find `(old, new) = if self_is_newer { (other, self) } else { (self, other) }`")?;
    // elapsed times: locals bound (through `if let Ok(..) = X.timestamp.elapsed() {..} else {return ..}`) to old / new
    let elapsed_of = |q: &str| hl.iter().find(|(_, i)| i.starts_with(&format!("ifletOk(")) && i.contains(&format!("={q}.timestamp.elapsed()"))).map(|(n, _)| n.clone());
    let (old_e, new_e) = (elapsed_of(&old_q).ok_or("historical_verify: no elapsed() of the old quote")?, elapsed_of(&new_q).ok_or("historical_verify: no elapsed() of the new quote")?);
    let time_diff = hl
        .iter()
        .find(|(_, i)| *i == format!("{old_e}.as_secs().saturating_sub({new_e}.as_secs())"))
        .map(|(n, _)| n.clone())
        .ok_or("historical_verify: expected `old_elapsed.as_secs().saturating_sub(new_elapsed.as_secs())`")?;
    let live_diff = hl
        .iter()
        .find(|(_, i)| *i == format!("{new_q}.quoting_metrics.live_time-{old_q}.quoting_metrics.live_time"))
        .map(|(n, _)| n.clone())
        .ok_or("historical_verify: expected `new.live_time - old.live_time`")?;
    let mut ifs = Ifs::default();
    ifs.visit_block(&f.block);
    let mut live = None;
    let mut paid = None;
    let mut sync = None;
    let mut order = vec![];
    let norm = |b: &syn::ExprBinary, left: &[String], right: &[String]| -> Result<Option<&'static str>, String> {
        let (l, r) = (toks(&b.left), toks(&b.right));
        if left.contains(&l) && right.contains(&r) {
            Ok(Some(cmp_lean(&b.op)?))
        } else if left.contains(&r) && right.contains(&l) {
            Ok(Some(flip(cmp_lean(&b.op)?)))
        } else {
            Ok(None)
        }
    };
    for c in &ifs.conds {
        if let syn::Expr::Binary(b) = c {
            if let Some(op) = norm(b, &[format!("{new_q}.quoting_metrics.live_time")], &[format!("{old_q}.quoting_metrics.live_time")])? {
                live = Some(op);
                order.push("live");
            } else if let Some(op) = norm(b, &[format!("{new_q}.quoting_metrics.received_payment_count")], &[format!("{old_q}.quoting_metrics.received_payment_count")])? {
                paid = Some(op);
                order.push("paid");
            } else if let Some(op) = norm(b, &[live_diff.clone()], &[format!("{time_diff}+LIVE_TIME_MARGIN"), format!("LIVE_TIME_MARGIN+{time_diff}")])? {
                sync = Some(op);
                order.push("sync");
            } else {
                return Err(format!("historical_verify: unexpected condition `{}`", toks(c)));
            }
        }
    }
    if order != ["live", "paid", "sync"] {
        return Err(format!("historical_verify: expected the three checks live, paid, sync in order; found {order:?}"));
    }
    // every failed check returns false; elapsed() failures return true
    let n_false = body.matches("returnfalse;").count();
    let n_true = body.matches("returntrue;").count();
    if n_false != 3 || n_true != 2 || !body.ends_with("true}") {
        return Err(format!("historical_verify: unexpected verdicts ({n_false} `return false`, {n_true} `return true`)"));
    }

    // ---- ant-networking/src/cmd.rs: SwarmDriver::verify_peer_quote — order of the two checks against the remembered quote
    let rel2 = "ant-networking/src/cmd.rs";
    let cfile = parse_file(&repo.join(rel2))?;
    let f = impl_fn(&cfile, "SwarmDriver", None, "verify_peer_quote")?;
    let vp = typed_params(&f.sig);
    let (p_peer, p_quote) = match vp.as_slice() {
        [(a, ta), (b, tb)] if ta.contains("PeerId") && tb.contains("PaymentQuote") => (a.clone(), b.clone()),
        _ => return Err("verify_peer_quote: expected (peer: PeerId, quote: PaymentQuote)".into()),
    };
    let (iflet, insert) = match f.block.stmts.as_slice() {
        [syn::Stmt::Expr(syn::Expr::If(i), _), last] => (i, toks(last)),
        _ => return Err("verify_peer_quote: expected `if let Some(h) = history.get(peer) {..}` followed by the insert".into()),
    };
    if insert.trim_end_matches(';').trim_start_matches("let_=") != format!("self.quotes_history.insert({p_peer},{p_quote})") || iflet.else_branch.is_some() {
        return Err(format!("verify_peer_quote: unexpected final statement `{insert}`"));
    }
    let hist = toks(&iflet.cond)
        .strip_prefix("letSome(")
        .and_then(|r| r.strip_suffix(&format!(")=self.quotes_history.get(&{p_peer})")).map(|x| x.to_string()))
        .ok_or_else(|| format!("verify_peer_quote: unexpected condition `{}`", toks(&iflet.cond)))?;
    let mut checks: Vec<&str> = vec![];
    for st in &iflet.then_branch.stmts {
        match st {
            syn::Stmt::Macro(_) => {}
            syn::Stmt::Expr(syn::Expr::If(i), _) if i.else_branch.is_none() => {
                let cond = toks(&i.cond);
                // the branch body without log macros
                let body: Vec<String> = i.then_branch.stmts.iter().filter(|s| !matches!(s, syn::Stmt::Macro(_))).map(|s| toks(s)).collect();
                if cond == format!("!{hist}.historical_verify(&{p_quote})") {
                    if body != [format!("self.record_node_issue({p_peer},NodeIssue::BadQuoting);"), "return;".to_string()] {
                        return Err("verify_peer_quote: a failed historical_verify is expected to record NodeIssue::BadQuoting and return".into());
                    }
                    checks.push("verify");
                } else if cond == format!("{hist}.is_newer_than(&{p_quote})") {
                    if body != ["return;".to_string()] {
                        return Err("verify_peer_quote: a newer remembered quote is expected to return without recording".into());
                    }
                    checks.push("newer");
                } else {
                    return Err(format!("verify_peer_quote: unexpected condition `{cond}`"));
                }
            }
            other => return Err(format!("verify_peer_quote: unexpected statement `{}`", toks(other))),
        }
    }
    if checks.len() != 2 || checks[0] == checks[1] {
        return Err(format!("verify_peer_quote: expected the two checks once each, found {checks:?}"));
    }
    let hf = impl_fn(&cfile, "SwarmDriver", None, "handle_local_cmd")?;
    let hb = toks(&hf.block);
    if !hb.contains("LocalSwarmCmd::QuoteVerification{quotes}=>{cmd_string=\"QuoteVerification\";for(peer_id,quote)inquotes{ifletSome((_issues,is_bad))=self.bad_nodes.get(&peer_id){if*is_bad{continue;}}self.verify_peer_quote(peer_id,quote);}}") {
        return Err("handle_local_cmd: unexpected QuoteVerification arm".into());
    }

    let list = |v: &[&str]| v.iter().map(|p| format!(".{p}")).collect::<Vec<_>>().join(", ");
    let mut s = header(&format!("{rel} and {rel2}"));
    s.push_str("namespace SafeNet.Gen.Quote\n");
    s.push_str(&format!("/-- `QUOTE_EXPIRATION_SECS` -/\ndef quoteExpirationSecs : Nat := {exp}\n"));
    s.push_str(&format!("/-- `LIVE_TIME_MARGIN` -/\ndef liveTimeMargin : Nat := {margin}\n"));
    s.push_str("/-- the pieces `bytes_for_signing` can append -/\ninductive Part | content | secsLE8 | metrics | rewards\n  deriving DecidableEq, Repr\n");
    s.push_str(&format!("/-- `PaymentQuote::bytes_for_signing`: parts in the order they are appended -/\ndef signingParts : List Part := [{}]\n", list(&parts)));
    s.push_str("inductive HashPart | sigBytes | pubKey | signature\n  deriving DecidableEq, Repr\n");
    s.push_str(&format!("/-- `PaymentQuote::hash`: what is fed to the hash, in order -/\ndef hashParts : List HashPart := [{}]\n", list(&hparts)));
    s.push_str(&format!("/-- `has_expired`: final comparison `elapsed_secs {exp_op} QUOTE_EXPIRATION_SECS` -/\ndef expiredCmp (durS limit : Nat) : Bool := decide (durS {exp_op} limit)\n"));
    s.push_str(&format!("/-- `has_expired`: verdict when the timestamp is later than now (`duration_since` fails) -/\ndef futureExpired : Bool := {}\n", lean_bool(future)));
    s.push_str(&format!("/-- `is_newer_than`: `self.timestamp {newer_op} other.timestamp` -/\ndef newerCmp (self other : Nat) : Bool := decide (self {newer_op} other)\n"));
    s.push_str(&format!("/-- `historical_verify`: `new.live_time {} old.live_time` ⇒ false -/\ndef liveOutOfSeq (new old : Nat) : Bool := decide (new {} old)\n", live.unwrap(), live.unwrap()));
    s.push_str(&format!("/-- `historical_verify`: `new.received_payment_count {} old.received_payment_count` ⇒ false -/\ndef paidOutOfSeq (new old : Nat) : Bool := decide (new {} old)\n", paid.unwrap(), paid.unwrap()));
    s.push_str(&format!("/-- `historical_verify`: `live_time_diff {} time_diff + LIVE_TIME_MARGIN` ⇒ false -/\ndef liveOutOfSync (liveDiff timeDiff : Nat) : Bool := decide (liveDiff {} timeDiff + liveTimeMargin)\n", sync.unwrap(), sync.unwrap()));
    s.push_str("/-- the checks `SwarmDriver::verify_peer_quote` (ant-networking/src/cmd.rs) runs against the remembered quote -/\ninductive HistCheck | verify | newer\n  deriving DecidableEq, Repr\n");
    s.push_str(&format!("/-- ... in source order (`verify`: failed `historical_verify` ⇒ record `BadQuoting`, return; `newer`: remembered quote newer ⇒ return) -/\ndef historyChecks : List HistCheck := [{}]\n", list(&checks)));
    s.push_str("end SafeNet.Gen.Quote\n");
    Ok(s)
}
