//! ant-evm/src/data_payments.rs -> Gen/Quote.lean: constants, the ordered parts of `bytes_for_signing`
//! and `hash`, and the comparators of `has_expired`, `is_newer_than`, `historical_verify`.
use crate::util::*;
use quote::ToTokens;
use std::path::PathBuf;
use syn::visit::Visit;

fn toks<T: ToTokens>(t: &T) -> String {
    t.to_token_stream().to_string().replace(' ', "")
}

fn cmp_lean(op: &syn::BinOp) -> Result<&'static str, String> {
    Ok(match op {
        syn::BinOp::Gt(_) => ">",
        syn::BinOp::Ge(_) => "≥",
        syn::BinOp::Lt(_) => "<",
        syn::BinOp::Le(_) => "≤",
        syn::BinOp::Eq(_) => "=",
        syn::BinOp::Ne(_) => "≠",
        other => return Err(format!("unexpected comparison operator {}", other.to_token_stream())),
    })
}

#[derive(Default)]
struct Ifs {
    conds: Vec<syn::Expr>,
}
impl<'ast> Visit<'ast> for Ifs {
    fn visit_expr_if(&mut self, i: &'ast syn::ExprIf) {
        self.conds.push((*i.cond).clone());
        syn::visit::visit_expr_if(self, i);
    }
}

/// `bytes.extend_from_slice(&X)` statements in order (receiver must be `recv`)
fn extends(block: &syn::Block, recv: &str) -> Vec<String> {
    let mut v = vec![];
    for st in &block.stmts {
        if let syn::Stmt::Expr(syn::Expr::MethodCall(m), _) = st {
            if m.method == "extend_from_slice" && toks(&m.receiver) == recv && m.args.len() == 1 {
                v.push(toks(&m.args[0]));
            }
        }
    }
    v
}

fn local_init(block: &syn::Block, name: &str) -> Option<String> {
    for st in &block.stmts {
        if let syn::Stmt::Local(l) = st {
            if toks(&l.pat).trim_start_matches("mut") == name {
                return l.init.as_ref().map(|i| toks(&i.expr));
            }
        }
    }
    None
}

pub fn generate(repo: &PathBuf) -> Result<String, String> {
    let rel = "ant-evm/src/data_payments.rs";
    let file = parse_file(&repo.join(rel))?;
    let exp = const_value(&file, "QUOTE_EXPIRATION_SECS")?;
    let margin = const_value(&file, "LIVE_TIME_MARGIN")?;

    // ---- bytes_for_signing: ordered parts
    let f = impl_fn(&file, "PaymentQuote", None, "bytes_for_signing")?;
    let mut parts: Vec<&str> = vec![];
    match local_init(&f.block, "bytes").as_deref() {
        Some("xorname.to_vec()") => parts.push("content"),
        other => return Err(format!("bytes_for_signing: unexpected initial value of `bytes`: {other:?}")),
    }
    for a in extends(&f.block, "bytes") {
        if a == "&timestamp.duration_since(SystemTime::UNIX_EPOCH).expect(\"Unixepochtobeinthepast\").as_secs().to_le_bytes()" {
            parts.push("secsLE8");
        } else if a == "&serialised_quoting_metrics" {
            match local_init(&f.block, "serialised_quoting_metrics").as_deref() {
                Some("rmp_serde::to_vec(quoting_metrics).unwrap_or_default()") => parts.push("metrics"),
                other => return Err(format!("bytes_for_signing: unexpected serialisation of the metrics: {other:?}")),
            }
        } else if a == "rewards_address.as_slice()" {
            parts.push("rewards");
        } else {
            return Err(format!("bytes_for_signing: unexpected part `{a}`"));
        }
    }
    match f.block.stmts.last() {
        Some(syn::Stmt::Expr(e, None)) if toks(e) == "bytes" => {}
        _ => return Err("bytes_for_signing: expected to return `bytes`".into()),
    }
    // bytes_for_sig passes self's own fields in order
    let f = impl_fn(&file, "PaymentQuote", None, "bytes_for_sig")?;
    let body = toks(&f.block);
    if body != "{Self::bytes_for_signing(self.content,self.timestamp,&self.quoting_metrics,&self.rewards_address,)}" {
        return Err(format!("bytes_for_sig: unexpected body {body}"));
    }

    // ---- hash: bytes_for_sig ++ pub_key ++ signature
    let f = impl_fn(&file, "PaymentQuote", None, "hash")?;
    let mut hparts: Vec<&str> = vec![];
    match local_init(&f.block, "bytes").as_deref() {
        Some("self.bytes_for_sig()") => hparts.push("sigBytes"),
        other => return Err(format!("hash: unexpected initial value {other:?}")),
    }
    for a in extends(&f.block, "bytes") {
        match a.as_str() {
            "self.pub_key.as_slice()" => hparts.push("pubKey"),
            "self.signature.as_slice()" => hparts.push("signature"),
            _ => return Err(format!("hash: unexpected part `{a}`")),
        }
    }

    // ---- has_expired
    let f = impl_fn(&file, "PaymentQuote", None, "has_expired")?;
    let body = toks(&f.block);
    if !body.contains("letnow=SystemTime::now();") || !body.contains("matchnow.duration_since(self.timestamp){Ok(dur)=>dur.as_secs(),") {
        return Err("has_expired: expected `now.duration_since(self.timestamp)` with `as_secs`".into());
    }
    let future = if body.contains("Err(_)=>returntrue,") {
        true
    } else if body.contains("Err(_)=>returnfalse,") {
        false
    } else {
        return Err("has_expired: unexpected Err arm".into());
    };
    let exp_op = match f.block.stmts.last() {
        Some(syn::Stmt::Expr(syn::Expr::Binary(b), None)) if toks(&b.left) == "dur_s" && toks(&b.right) == "QUOTE_EXPIRATION_SECS" => cmp_lean(&b.op)?,
        _ => return Err("has_expired: expected final `dur_s <cmp> QUOTE_EXPIRATION_SECS`".into()),
    };

    // ---- is_newer_than
    let f = impl_fn(&file, "PaymentQuote", None, "is_newer_than")?;
    let newer_op = match f.block.stmts.last() {
        Some(syn::Stmt::Expr(syn::Expr::Binary(b), None)) if toks(&b.left) == "self.timestamp" && toks(&b.right) == "other.timestamp" => cmp_lean(&b.op)?,
        _ => return Err("is_newer_than: expected `self.timestamp <cmp> other.timestamp`".into()),
    };

    // ---- historical_verify
    let f = impl_fn(&file, "PaymentQuote", None, "historical_verify")?;
    let body = toks(&f.block);
    if !body.contains("let(old_quote,new_quote)=ifself_is_newer{(other,self)}else{(self,other)};") {
        return Err("historical_verify: unexpected ordering of (old_quote, new_quote)".into());
    }
    if !body.contains("lettime_diff=old_elapsed.as_secs().saturating_sub(new_elapsed.as_secs());") {
        return Err("historical_verify: unexpected time_diff".into());
    }
    if !body.contains("letlive_time_diff=new_quote.quoting_metrics.live_time-old_quote.quoting_metrics.live_time;") {
        return Err("historical_verify: unexpected live_time_diff".into());
    }
    let mut ifs = Ifs::default();
    ifs.visit_block(&f.block);
    let mut live = None;
    let mut paid = None;
    let mut sync = None;
    let mut order = vec![];
    for c in &ifs.conds {
        if let syn::Expr::Binary(b) = c {
            let (l, r) = (toks(&b.left), toks(&b.right));
            if l == "new_quote.quoting_metrics.live_time" && r == "old_quote.quoting_metrics.live_time" {
                live = Some(cmp_lean(&b.op)?);
                order.push("live");
            } else if l == "new_quote.quoting_metrics.received_payment_count" && r == "old_quote.quoting_metrics.received_payment_count" {
                paid = Some(cmp_lean(&b.op)?);
                order.push("paid");
            } else if l == "live_time_diff" && r == "time_diff+LIVE_TIME_MARGIN" {
                sync = Some(cmp_lean(&b.op)?);
                order.push("sync");
            } else {
                return Err(format!("historical_verify: unexpected condition `{}`", toks(c)));
            }
        }
    }
    if order != ["live", "paid", "sync"] {
        return Err(format!("historical_verify: expected the three checks live, paid, sync in order; found {order:?}"));
    }
    // every failed check returns false; elapsed() failures return true
    let n_false = body.matches("returnfalse;").count();
    let n_true = body.matches("returntrue;").count();
    if n_false != 3 || n_true != 2 || !body.ends_with("true}") {
        return Err(format!("historical_verify: unexpected verdicts ({n_false} `return false`, {n_true} `return true`)"));
    }

    // ---- ant-networking/src/cmd.rs: SwarmDriver::verify_peer_quote — order of the two checks against the remembered quote
    let rel2 = "ant-networking/src/cmd.rs";
    let cfile = parse_file(&repo.join(rel2))?;
    let f = impl_fn(&cfile, "SwarmDriver", None, "verify_peer_quote")?;
    let body = toks(&f.block);
    if !body.starts_with("{ifletSome(history_quote)=self.quotes_history.get(&peer_id){") || !body.ends_with("let_=self.quotes_history.insert(peer_id,quote);}") {
        return Err(format!("verify_peer_quote: unexpected frame {body}"));
    }
    let mut ifs = Ifs::default();
    ifs.visit_block(&f.block);
    let mut checks: Vec<&str> = vec![];
    for c in &ifs.conds {
        match toks(c).as_str() {
            "letSome(history_quote)=self.quotes_history.get(&peer_id)" => {}
            "!history_quote.historical_verify(&quote)" => checks.push("verify"),
            "history_quote.is_newer_than(&quote)" => checks.push("newer"),
            other => return Err(format!("verify_peer_quote: unexpected condition `{other}`")),
        }
    }
    if !body.contains("if!history_quote.historical_verify(&quote){info!") || !body.contains("self.record_node_issue(peer_id,NodeIssue::BadQuoting);return;}") {
        return Err("verify_peer_quote: a failed historical_verify is expected to record NodeIssue::BadQuoting and return".into());
    }
    if !body.contains("ifhistory_quote.is_newer_than(&quote){return;}") {
        return Err("verify_peer_quote: `history_quote.is_newer_than(&quote)` is expected to return without recording".into());
    }
    let hf = impl_fn(&cfile, "SwarmDriver", None, "handle_local_cmd")?;
    let hb = toks(&hf.block);
    if !hb.contains("LocalSwarmCmd::QuoteVerification{quotes}=>{cmd_string=\"QuoteVerification\";for(peer_id,quote)inquotes{ifletSome((_issues,is_bad))=self.bad_nodes.get(&peer_id){if*is_bad{continue;}}self.verify_peer_quote(peer_id,quote);}}") {
        return Err("handle_local_cmd: unexpected QuoteVerification arm".into());
    }

    let list = |v: &[&str]| v.iter().map(|p| format!(".{p}")).collect::<Vec<_>>().join(", ");
    let mut s = header(&format!("{rel} and {rel2}"));
    s.push_str("namespace SafeNet.Gen.Quote\n");
    s.push_str(&format!("/-- `QUOTE_EXPIRATION_SECS` -/\ndef quoteExpirationSecs : Nat := {exp}\n"));
    s.push_str(&format!("/-- `LIVE_TIME_MARGIN` -/\ndef liveTimeMargin : Nat := {margin}\n"));
    s.push_str("/-- the pieces `bytes_for_signing` can append -/\ninductive Part | content | secsLE8 | metrics | rewards\n  deriving DecidableEq, Repr\n");
    s.push_str(&format!("/-- `PaymentQuote::bytes_for_signing`: parts in the order they are appended -/\ndef signingParts : List Part := [{}]\n", list(&parts)));
    s.push_str("inductive HashPart | sigBytes | pubKey | signature\n  deriving DecidableEq, Repr\n");
    s.push_str(&format!("/-- `PaymentQuote::hash`: what is fed to the hash, in order -/\ndef hashParts : List HashPart := [{}]\n", list(&hparts)));
    s.push_str(&format!("/-- `has_expired`: final comparison `dur_s {exp_op} QUOTE_EXPIRATION_SECS` -/\ndef expiredCmp (durS limit : Nat) : Bool := decide (durS {exp_op} limit)\n"));
    s.push_str(&format!("/-- `has_expired`: verdict when the timestamp is later than now (`duration_since` fails) -/\ndef futureExpired : Bool := {}\n", lean_bool(future)));
    s.push_str(&format!("/-- `is_newer_than`: `self.timestamp {newer_op} other.timestamp` -/\ndef newerCmp (self other : Nat) : Bool := decide (self {newer_op} other)\n"));
    s.push_str(&format!("/-- `historical_verify`: `new.live_time {} old.live_time` ⇒ false -/\ndef liveOutOfSeq (new old : Nat) : Bool := decide (new {} old)\n", live.unwrap(), live.unwrap()));
    s.push_str(&format!("/-- `historical_verify`: `new.received_payment_count {} old.received_payment_count` ⇒ false -/\ndef paidOutOfSeq (new old : Nat) : Bool := decide (new {} old)\n", paid.unwrap(), paid.unwrap()));
    s.push_str(&format!("/-- `historical_verify`: `live_time_diff {} time_diff + LIVE_TIME_MARGIN` ⇒ false -/\ndef liveOutOfSync (liveDiff timeDiff : Nat) : Bool := decide (liveDiff {} timeDiff + liveTimeMargin)\n", sync.unwrap(), sync.unwrap()));
    s.push_str("/-- the checks `SwarmDriver::verify_peer_quote` (ant-networking/src/cmd.rs) runs against the remembered quote -/\ninductive HistCheck | verify | newer\n  deriving DecidableEq, Repr\n");
    s.push_str(&format!("/-- ... in source order (`verify`: failed `historical_verify` ⇒ record `BadQuoting`, return; `newer`: remembered quote newer ⇒ return) -/\ndef historyChecks : List HistCheck := [{}]\n", list(&checks)));
    s.push_str("end SafeNet.Gen.Quote\n");
    Ok(s)
}
