//! ant-networking/src/replication_fetcher.rs → lean/SafeNet/Gen/Fetcher.lean
//! Constants (MAX_PARALLEL_FETCH through libp2p-kad's K_VALUE, FETCH_TIMEOUT, PENDING_TIMEOUT in seconds)
//! and the comparison operators of the admission / expiry / fullness tests, read from the source.
use crate::util::*;
use std::path::PathBuf;
use syn::visit::Visit;

fn toks(e: &syn::Expr) -> String {
    quote::ToTokens::to_token_stream(e).to_string().replace(' ', "")
}

/// functions of `impl ReplicationFetcher` the translator knows; a call `self.f(..)` to any *other* private fn of the
/// file (a helper extracted by a refactoring) is followed one level deep
const KNOWN_FNS: &[&str] = &[
    "new",
    "set_replication_distance_range",
    "add_keys",
    "set_farthest_on_full",
    "notify_about_new_put",
    "notify_fetch_early_completed",
    "next_keys_to_fetch",
    "prune_expired_keys_and_slow_nodes",
    "remove_stored_keys",
    "send_event",
];

fn helper_fn<'a>(file: &'a syn::File, name: &str) -> Option<&'a syn::ImplItemFn> {
    if KNOWN_FNS.contains(&name) {
        return None;
    }
    impl_fn(file, "ReplicationFetcher", None, name).ok()
}

/// `self.name(..)`
fn self_call(m: &syn::ExprMethodCall) -> Option<String> {
    if toks(&m.receiver) == "self" {
        Some(m.method.to_string())
    } else {
        None
    }
}

fn flip(op: &str) -> String {
    match op {
        "<" => ">",
        "<=" => ">=",
        ">" => "<",
        ">=" => "<=",
        o => o,
    }
    .to_string()
}

fn is_cmp(op: &str) -> bool {
    ["<", "<=", ">", ">=", "==", "!="].contains(&op)
}

/// all comparisons of a function body (left, op, right; spaces removed), following extracted helpers one level
struct Bins<'f> {
    file: &'f syn::File,
    depth: u32,
    v: Vec<(String, String, String)>,
}
impl<'ast, 'f> Visit<'ast> for Bins<'f> {
    fn visit_expr_binary(&mut self, b: &'ast syn::ExprBinary) {
        let op = quote::ToTokens::to_token_stream(&b.op).to_string().replace(' ', "");
        if is_cmp(&op) {
            self.v.push((toks(&b.left), op, toks(&b.right)));
        }
        syn::visit::visit_expr_binary(self, b);
    }
    fn visit_expr_method_call(&mut self, m: &'ast syn::ExprMethodCall) {
        if self.depth == 0 {
            if let Some(h) = self_call(m).and_then(|n| helper_fn(self.file, &n)) {
                self.depth += 1;
                let mut inner = Bins { file: self.file, depth: 1, v: vec![] };
                inner.visit_block(&h.block);
                self.v.extend(inner.v);
                self.depth -= 1;
            }
        }
        syn::visit::visit_expr_method_call(self, m);
    }
}

fn bins(file: &syn::File, f: &syn::ImplItemFn) -> Vec<(String, String, String)> {
    let mut b = Bins { file, depth: 0, v: vec![] };
    b.visit_block(&f.block);
    b.v
}

/// the comparisons having `l` on one side and `r` on the other, normalised so that the `l` side is on the left
/// (`b > a` is read as `a < b`); exactly `expect_n` must exist and agree on the operator
fn find_cmp(
    fname: &str,
    v: &[(String, String, String)],
    l: &dyn Fn(&str) -> bool,
    r: &dyn Fn(&str) -> bool,
    expect_n: usize,
) -> Result<String, String> {
    let mut ops = vec![];
    for (a, op, b) in v {
        if l(a) && r(b) {
            ops.push(op.clone());
        } else if l(b) && r(a) {
            ops.push(flip(op));
        }
    }
    if ops.len() != expect_n {
        return Err(format!("{fname}: expected {expect_n} comparison(s) of the searched shape, found {}", ops.len()));
    }
    if ops.iter().any(|o| o != &ops[0]) {
        return Err(format!("{fname}: the {expect_n} comparisons of the searched shape use different operators"));
    }
    Ok(ops[0].clone())
}

/// `x` or `*x` or `&x` for an identifier `x`
fn is_ident_like(s: &str) -> bool {
    let t = s.trim_start_matches(['*', '&']);
    !t.is_empty() && t.chars().all(|c| c.is_alphanumeric() || c == '_') && !t.chars().next().unwrap().is_numeric()
}

fn bare(s: &str) -> &str {
    s.trim_start_matches(['*', '&'])
}

/// identifiers bound by `if let Some(x) = <scrutinee>` / `let Some(x) = <scrutinee> else` / `match <scrutinee> { Some(x) => .. }`
struct SomeBinders {
    scrutinee: String,
    names: Vec<String>,
}
impl SomeBinders {
    fn from_pat(&mut self, p: &syn::Pat) {
        let t = quote::ToTokens::to_token_stream(p).to_string().replace(' ', "");
        if let Some(inner) = t.strip_prefix("Some(").and_then(|x| x.strip_suffix(')')) {
            let inner = inner.trim_start_matches("ref").trim_start_matches("mut");
            if is_ident_like(inner) {
                self.names.push(inner.to_string());
            }
        }
    }
}
impl<'ast> Visit<'ast> for SomeBinders {
    fn visit_expr_let(&mut self, l: &'ast syn::ExprLet) {
        if toks(&l.expr) == self.scrutinee {
            self.from_pat(&l.pat);
        }
        syn::visit::visit_expr_let(self, l);
    }
    fn visit_local(&mut self, l: &'ast syn::Local) {
        if let Some(init) = &l.init {
            if init.diverge.is_some() && toks(&init.expr) == self.scrutinee {
                self.from_pat(&l.pat);
            }
        }
        syn::visit::visit_local(self, l);
    }
    fn visit_expr_match(&mut self, m: &'ast syn::ExprMatch) {
        if toks(&m.expr) == self.scrutinee {
            for a in &m.arms {
                self.from_pat(&a.pat);
            }
        }
        syn::visit::visit_expr_match(self, m);
    }
}

fn some_binder(fname: &str, f: &syn::ImplItemFn, scrutinee: &str) -> Result<String, String> {
    let mut b = SomeBinders { scrutinee: scrutinee.to_string(), names: vec![] };
    b.visit_block(&f.block);
    b.names.dedup();
    if b.names.len() != 1 {
        return Err(format!("{fname}: expected exactly one `Some(x)` binding of `{scrutinee}`, found {:?}", b.names));
    }
    Ok(b.names.remove(0))
}

/// the single-key fast path of `add_keys`: `if <x>.len() == 1 { .. }` (taken whenever exactly one key of the list is new)
/// or `if <n> == 1 && <x>.len() == 1 { .. }` (either order; `<n>` must be `let <n> = incoming_keys.len();`, the length of the
/// ADVERTISEMENT — checked by the caller). `.1`: the identifier compared with 1 besides the `.len()` test, if any.
struct SingleIfs<'a> {
    v: Vec<(&'a syn::Block, Option<String>)>,
    bad: Vec<String>,
}
fn len_is_one(e: &syn::Expr) -> Option<Result<(), String>> {
    if let syn::Expr::Binary(b) = e {
        let (l, r) = (toks(&b.left), toks(&b.right));
        let op = quote::ToTokens::to_token_stream(&b.op).to_string();
        let len_side = |s: &str| s.ends_with(".len()") && is_ident_like(s.trim_end_matches(".len()"));
        if (len_side(&l) && r == "1") || (len_side(&r) && l == "1") {
            return Some(if op == "==" { Ok(()) } else { Err(op) });
        }
    }
    None
}
fn ident_is_one(e: &syn::Expr) -> Option<String> {
    if let syn::Expr::Binary(b) = e {
        let (l, r) = (toks(&b.left), toks(&b.right));
        let op = quote::ToTokens::to_token_stream(&b.op).to_string();
        if op == "==" {
            if is_ident_like(&l) && !l.contains('.') && r == "1" {
                return Some(l);
            }
            if is_ident_like(&r) && !r.contains('.') && l == "1" {
                return Some(r);
            }
        }
    }
    None
}
impl<'ast> Visit<'ast> for SingleIfs<'ast> {
    fn visit_expr_if(&mut self, i: &'ast syn::ExprIf) {
        match len_is_one(&i.cond) {
            Some(Ok(())) => self.v.push((&i.then_branch, None)),
            Some(Err(op)) => self.bad.push(op),
            None => {
                if let syn::Expr::Binary(b) = &*i.cond {
                    let op = quote::ToTokens::to_token_stream(&b.op).to_string();
                    let sides = [(&*b.left, &*b.right), (&*b.right, &*b.left)];
                    for (a, c) in sides {
                        if let Some(r) = len_is_one(a) {
                            match (r, ident_is_one(c), op.as_str()) {
                                (Ok(()), Some(id), "&&") => self.v.push((&i.then_branch, Some(id))),
                                (Ok(()), _, o) => self.bad.push(format!("`<list>.len() == 1` combined by `{o}` with `{}`", toks(c))),
                                (Err(o), _, _) => self.bad.push(o),
                            }
                            break;
                        }
                    }
                }
            }
        }
        syn::visit::visit_expr_if(self, i);
    }
}

/// what the single-key block does with `on_going_fetches` (extracted helpers followed one level)
struct FastPath<'f> {
    file: &'f syn::File,
    depth: u32,
    cond: u32, // nesting inside if / match / closure / loop
    guarded: u32,
    guarded_without_insert: u32,
    direct_unconditional: u32,
    direct_conditional: u32,
    contains_key: u32,
}
impl<'f> FastPath<'f> {
    fn vacant(&mut self, pat: &syn::Pat, body_toks: &str) {
        let t = quote::ToTokens::to_token_stream(pat).to_string().replace(' ', "");
        let inner = t
            .strip_prefix("Entry::Vacant(")
            .or_else(|| t.strip_prefix("hash_map::Entry::Vacant("))
            .and_then(|x| x.strip_suffix(')'));
        if let Some(id) = inner {
            if is_ident_like(id) && body_toks.contains(&format!("{id}.insert(")) {
                self.guarded += 1;
            } else {
                self.guarded_without_insert += 1;
            }
        }
    }
}
impl<'ast, 'f> Visit<'ast> for FastPath<'f> {
    fn visit_expr_if(&mut self, i: &'ast syn::ExprIf) {
        if let syn::Expr::Let(l) = &*i.cond {
            if toks(&l.expr).starts_with("self.on_going_fetches.entry(") {
                let body = quote::ToTokens::to_token_stream(&i.then_branch).to_string().replace(' ', "");
                self.vacant(&l.pat, &body);
            }
        }
        self.cond += 1;
        syn::visit::visit_expr_if(self, i);
        self.cond -= 1;
    }
    fn visit_expr_match(&mut self, m: &'ast syn::ExprMatch) {
        if toks(&m.expr).starts_with("self.on_going_fetches.entry(") {
            for a in &m.arms {
                let body = toks(&a.body);
                self.vacant(&a.pat, &body);
            }
        }
        self.cond += 1;
        syn::visit::visit_expr_match(self, m);
        self.cond -= 1;
    }
    fn visit_expr_closure(&mut self, c: &'ast syn::ExprClosure) {
        self.cond += 1;
        syn::visit::visit_expr_closure(self, c);
        self.cond -= 1;
    }
    fn visit_expr_for_loop(&mut self, c: &'ast syn::ExprForLoop) {
        self.cond += 1;
        syn::visit::visit_expr_for_loop(self, c);
        self.cond -= 1;
    }
    fn visit_expr_while(&mut self, c: &'ast syn::ExprWhile) {
        self.cond += 1;
        syn::visit::visit_expr_while(self, c);
        self.cond -= 1;
    }
    fn visit_expr_method_call(&mut self, m: &'ast syn::ExprMethodCall) {
        if toks(&m.receiver) == "self.on_going_fetches" {
            match m.method.to_string().as_str() {
                "insert" => {
                    if self.cond == 0 {
                        self.direct_unconditional += 1
                    } else {
                        self.direct_conditional += 1
                    }
                }
                "contains_key" | "get" | "get_mut" => self.contains_key += 1,
                _ => {}
            }
        }
        if self.depth == 0 {
            if let Some(h) = self_call(m).and_then(|n| helper_fn(self.file, &n)) {
                self.depth = 1;
                self.visit_block(&h.block);
                self.depth = 0;
            }
        }
        syn::visit::visit_expr_method_call(self, m);
    }
}

/// how the skip test of the first loop of `add_keys` consults `locally_stored_keys`
#[derive(Default)]
struct HeldTest {
    rt: String, // the loop variable holding the advertised record type
    contains_key: u32,
    get_typed: u32,
    get_other: u32,
}
impl<'ast> Visit<'ast> for HeldTest {
    fn visit_expr_method_call(&mut self, m: &'ast syn::ExprMethodCall) {
        let recv = toks(&m.receiver);
        let meth = m.method.to_string();
        if recv == "locally_stored_keys" && meth == "contains_key" {
            self.contains_key += 1;
        }
        if recv.starts_with("locally_stored_keys.get(") && !recv["locally_stored_keys.get(".len()..].contains(").") {
            // locally_stored_keys.get(..).is_some_and(|(_, t)| t == &record_type)  /  .map_or(false, |..| ..)  /  .is_some_and(|(_, t)| &record_type == t)
            let closure = match meth.as_str() {
                "is_some_and" if m.args.len() == 1 => m.args.first(),
                "map_or" if m.args.len() == 2 && toks(&m.args[0]) == "false" => m.args.iter().nth(1),
                _ => None,
            };
            let mut ok = false;
            if let Some(syn::Expr::Closure(c)) = closure {
                let mut body: &syn::Expr = &c.body;
                while let syn::Expr::Block(b) = body {
                    if b.block.stmts.len() == 1 {
                        if let syn::Stmt::Expr(e, None) = &b.block.stmts[0] {
                            body = e;
                            continue;
                        }
                    }
                    break;
                }
                if let syn::Expr::Binary(b) = body {
                    let op = quote::ToTokens::to_token_stream(&b.op).to_string();
                    let (l, r) = (toks(&b.left), toks(&b.right));
                    let pat = c.inputs.iter().map(|p| quote::ToTokens::to_token_stream(p).to_string()).collect::<Vec<_>>().join(" ");
                    let bound = |s: &str| is_ident_like(s) && pat.split(|ch: char| !(ch.is_alphanumeric() || ch == '_')).any(|w| w == bare(s));
                    let is_rt = |s: &str| is_ident_like(s) && bare(s) == self.rt;
                    if op == "==" && ((bound(&l) && is_rt(&r)) || (bound(&r) && is_rt(&l))) {
                        ok = true;
                    }
                }
            }
            if ok {
                self.get_typed += 1;
            } else {
                self.get_other += 1;
            }
        } else if recv == "locally_stored_keys" && meth == "get" {
            // counted through its consumer above; a bare `.get(..)` that is not consumed by a recognised test:
            // detected by get_other staying 0 while get_typed is 0 as well (see caller)
        }
        syn::visit::visit_expr_method_call(self, m);
    }
}

/// the `if <cond> { continue; }` tests directly inside `for (addr, record_type) in incoming_keys { .. }`
fn skip_conditions<'a>(add: &'a syn::ImplItemFn) -> Result<(String, Vec<&'a syn::Expr>), String> {
    struct Loops<'a>(Vec<&'a syn::ExprForLoop>);
    impl<'ast> Visit<'ast> for Loops<'ast> {
        fn visit_expr_for_loop(&mut self, l: &'ast syn::ExprForLoop) {
            if toks(&l.expr) == "incoming_keys" {
                self.0.push(l);
            }
            syn::visit::visit_expr_for_loop(self, l);
        }
    }
    let mut ls = Loops(vec![]);
    ls.visit_block(&add.block);
    if ls.0.len() != 1 {
        return Err(format!("add_keys: expected one `for .. in incoming_keys` loop, found {}", ls.0.len()));
    }
    let l = ls.0[0];
    let rt = match &*l.pat {
        syn::Pat::Tuple(t) if t.elems.len() == 2 => {
            let s = quote::ToTokens::to_token_stream(&t.elems[1]).to_string().replace(' ', "");
            if !is_ident_like(&s) {
                return Err(format!("add_keys: unexpected loop pattern {s}"));
            }
            s
        }
        p => return Err(format!("add_keys: unexpected loop pattern {}", quote::ToTokens::to_token_stream(p))),
    };
    let mut conds = vec![];
    for st in &l.body.stmts {
        if let syn::Stmt::Expr(syn::Expr::If(i), _) = st {
            let then = quote::ToTokens::to_token_stream(&i.then_branch).to_string().replace(' ', "");
            if then == "{continue;}" && i.else_branch.is_none() {
                conds.push(&*i.cond);
            }
        }
    }
    Ok((rt, conds))
}

fn lean_cmp(name: &str, doc: &str, op: &str) -> Result<String, String> {
    let l = match op {
        "<" => "a < b",
        "<=" => "a ≤ b",
        ">" => "b < a",
        ">=" => "b ≤ a",
        "==" => "a = b",
        "!=" => "a ≠ b",
        o => return Err(format!("{name}: unsupported operator {o}")),
    };
    Ok(format!("/-- {doc}: source operator `{op}` -/\ndef {name} (a b : Nat) : Bool := decide ({l})\n"))
}

fn k_value(repo: &PathBuf) -> Result<u128, String> {
    // version of libp2p-kad from Cargo.lock, source from the cargo registry
    let lock = std::fs::read_to_string(repo.join("Cargo.lock")).map_err(|e| format!("Cargo.lock: {e}"))?;
    let mut ver = None;
    let mut lines = lock.lines();
    while let Some(l) = lines.next() {
        if l.trim() == "name = \"libp2p-kad\"" {
            if let Some(v) = lines.next() {
                ver = v.trim().strip_prefix("version = \"").and_then(|s| s.strip_suffix('"')).map(|s| s.to_string());
            }
            break;
        }
    }
    let ver = ver.ok_or("libp2p-kad not found in Cargo.lock")?;
    let home = std::env::var("CARGO_HOME").unwrap_or_else(|_| format!("{}/.cargo", std::env::var("HOME").unwrap_or_else(|_| "/root".into())));
    let src = PathBuf::from(home).join("registry/src");
    let mut found = None;
    for d in std::fs::read_dir(&src).map_err(|e| format!("{}: {e}", src.display()))? {
        let p = d.map_err(|e| e.to_string())?.path().join(format!("libp2p-kad-{ver}/src/lib.rs"));
        if p.exists() {
            found = Some(p);
        }
    }
    let p = found.ok_or(format!("libp2p-kad-{ver}/src/lib.rs not found in the cargo registry"))?;
    let file = parse_file(&p)?;
    for (n, e) in consts(&file) {
        if n == "K_VALUE" {
            // NonZeroUsize::new(20).unwrap() / unsafe { NonZeroUsize::new_unchecked(20) }: the single integer literal inside
            struct Lits(Vec<u128>);
            impl<'ast> Visit<'ast> for Lits {
                fn visit_lit_int(&mut self, i: &'ast syn::LitInt) {
                    if let Ok(x) = i.base10_parse::<u128>() {
                        self.0.push(x);
                    }
                }
            }
            let mut l = Lits(vec![]);
            l.visit_expr(&e);
            if l.0.len() == 1 {
                return Ok(l.0[0]);
            }
            return Err(format!("K_VALUE: expected exactly one integer literal in `{}`", toks(&e)));
        }
    }
    Err("K_VALUE not found in libp2p-kad".into())
}

pub fn generate(repo: &PathBuf) -> Result<String, String> {
    let rel = "ant-networking/src/replication_fetcher.rs";
    let file = parse_file(&repo.join(rel))?;
    let cs = consts(&file);
    let expr_of = |n: &str| cs.iter().find(|(k, _)| k == n).map(|(_, e)| e.clone()).ok_or(format!("const {n} not found"));

    // MAX_PARALLEL_FETCH must be `K_VALUE.get()` (or a plain constant expression)
    let mpf_e = expr_of("MAX_PARALLEL_FETCH")?;
    let mpf = if toks(&mpf_e) == "K_VALUE.get()" {
        k_value(repo)?
    } else {
        let kv = k_value(repo).ok();
        eval_const(&mpf_e, &|n| if n == "K_VALUE" { kv } else { None })
            .map_err(|e| format!("MAX_PARALLEL_FETCH: {e}"))?
    };
    let secs = |n: &str| -> Result<u128, String> {
        let e = expr_of(n)?;
        let t = toks(&e);
        if !t.starts_with("Duration::from_secs(") {
            return Err(format!("{n}: expected Duration::from_secs(..), got {t}"));
        }
        eval_const(&e, &|_| None).map_err(|e| format!("{n}: {e}"))
    };
    let fetch = secs("FETCH_TIMEOUT")?;
    let pending = secs("PENDING_TIMEOUT")?;

    let now = |x: &str| x == "Instant::now()";
    let add = impl_fn(&file, "ReplicationFetcher", None, "add_keys")?;
    let b = bins(&file, add);
    // `convert_distance_to_u256(dist) OP *distance_range` (either way round)
    let range_op = find_cmp("add_keys/range", &b, &|l| l.starts_with("convert_distance_to_u256(") && l.ends_with(')'), &|r| is_ident_like(r), 1)?;
    // `dist OP farthest` where `farthest` is bound by `Some(x) = self.farthest_acceptable_distance`
    let far_id = some_binder("add_keys/farthest", add, "self.farthest_acceptable_distance")?;
    let far_op = find_cmp("add_keys/farthest", &b, &|l| l.contains(".distance("), &|r| is_ident_like(r) && bare(r) == far_id, 1)?;
    // `*deadline OP Instant::now()` (either way round) in the sweep of `to_be_fetched`
    let alive_op = find_cmp("add_keys/pending", &b, &|l| is_ident_like(l), &now, 1)?;
    // the single-key fast path: `if <list>.len() == 1 { .. }`
    let mut singles = SingleIfs { v: vec![], bad: vec![] };
    singles.visit_block(&add.block);
    if !singles.bad.is_empty() || singles.v.len() != 1 {
        return Err(format!(
            "add_keys: expected exactly one `if <list>.len() == 1` fast path, found {} (other operators: {:?})",
            singles.v.len(),
            singles.bad
        ));
    }
    // two-sided: the fast path is taken for a single-key ADVERTISEMENT only (`<n> == 1 && <new>.len() == 1` with
    // `let <n> = incoming_keys.len();` computed from the parameter before the filtering loop), or whenever one key is new
    let fast_needs_single_advert = match &singles.v[0].1 {
        None => false,
        Some(id) => {
            let body = quote::ToTokens::to_token_stream(&add.block).to_string().replace(' ', "");
            let def = format!("let{id}=incoming_keys.len();");
            let at_def = body.find(&def);
            let at_loop = body.find("inincoming_keys{");
            let is_param = add.sig.inputs.iter().any(|a| quote::ToTokens::to_token_stream(a).to_string().replace(' ', "").starts_with("incoming_keys:"));
            let assigned = body.matches(&format!("{id}=")).count() - body.matches(&format!("{id}==")).count();
            match (at_def, at_loop) {
                (Some(a), Some(b)) if a < b && is_param && assigned == 1 => true,
                _ => return Err(format!("add_keys: the fast path also tests `{id} == 1`, but `{id}` is not `let {id} = incoming_keys.len();` taken from the parameter before the filtering loop")),
            }
        }
    };
    let mut fp = FastPath { file: &file, depth: 0, cond: 0, guarded: 0, guarded_without_insert: 0, direct_unconditional: 0, direct_conditional: 0, contains_key: 0 };
    fp.visit_block(singles.v[0].0);
    let fast_checks_ongoing = if fp.guarded == 1 && fp.guarded_without_insert == 0 && fp.direct_unconditional == 0 && fp.direct_conditional == 0 {
        // insert only through `Entry::Vacant(e)` of `self.on_going_fetches.entry(..)` (if-let or match, inline or in a helper)
        true
    } else if fp.guarded == 0 && fp.guarded_without_insert == 0 && fp.contains_key == 0 && fp.direct_unconditional == 1 && fp.direct_conditional == 0 {
        // known alternative: an unconditional `self.on_going_fetches.insert(..)`
        false
    } else {
        return Err(format!(
            "add_keys: single-key fast path touches on_going_fetches in an unrecognised way (vacant-guarded inserts {}, vacant without insert {}, unconditional inserts {}, conditional inserts {}, lookups {})",
            fp.guarded, fp.guarded_without_insert, fp.direct_unconditional, fp.direct_conditional, fp.contains_key
        ));
    };
    // the locally-stored test of the first loop
    let (rt, conds) = skip_conditions(add)?;
    let mut ht = HeldTest { rt, ..Default::default() };
    for c in &conds {
        ht.visit_expr(c);
    }
    let all_uses = quote::ToTokens::to_token_stream(&add.block).to_string().replace(' ', "").matches("locally_stored_keys.").count() as u32;
    let skip_same_type_only = if ht.get_typed == 1 && ht.get_other == 0 && ht.contains_key == 0 && all_uses == 1 {
        true
    } else if ht.contains_key == 1 && ht.get_typed == 0 && ht.get_other == 0 && all_uses == 1 {
        false
    } else {
        return Err(format!(
            "add_keys: the locally_stored_keys test of the skip condition has an unrecognised shape (typed get {}, other get {}, contains_key {}, uses in add_keys {})",
            ht.get_typed, ht.get_other, ht.contains_key, all_uses
        ));
    };

    let prune = impl_fn(&file, "ReplicationFetcher", None, "prune_expired_keys_and_slow_nodes")?;
    let exp_op = find_cmp("prune/expired", &bins(&file, prune), &|l| is_ident_like(l), &now, 1)?;
    let full = impl_fn(&file, "ReplicationFetcher", None, "set_farthest_on_full")?;
    let fb = bins(&file, full);
    let old_id = some_binder("set_farthest_on_full/old", full, "self.farthest_acceptable_distance")?;
    // `new OP old`: the other side of the only comparison with `old`
    let mut new_ids: Vec<String> = fb
        .iter()
        .filter_map(|(l, _, r)| {
            if bare(r) == old_id && is_ident_like(l) {
                Some(bare(l).to_string())
            } else if bare(l) == old_id && is_ident_like(r) {
                Some(bare(r).to_string())
            } else {
                None
            }
        })
        .collect();
    new_ids.dedup();
    if new_ids.len() != 1 {
        return Err(format!("set_farthest_on_full: expected one comparison `new OP {old_id}`, found {new_ids:?}"));
    }
    let new_id = new_ids.remove(0);
    let noshrink_op = find_cmp("set_farthest_on_full/return", &fb, &|l| is_ident_like(l) && bare(l) == new_id, &|r| is_ident_like(r) && bare(r) == old_id, 1)?;
    let keep_op = find_cmp("set_farthest_on_full/retain", &fb, &|l| l.contains(".distance("), &|r| is_ident_like(r) && bare(r) == new_id, 2)?;
    let full_src = quote::ToTokens::to_token_stream(&full.block).to_string().replace(' ', "");
    if full_src.matches("self.to_be_fetched.retain(").count() != 1 || full_src.matches("self.on_going_fetches.retain(").count() != 1 {
        return Err("set_farthest_on_full: expected one retain on to_be_fetched and one on on_going_fetches".into());
    }
    let next = impl_fn(&file, "ReplicationFetcher", None, "next_keys_to_fetch")?;
    let nb = bins(&file, next);
    // the three cap comparisons are: `>=` (early return), `<` (loop guard), `>=` (break)
    let caps: Vec<String> = nb
        .iter()
        .filter_map(|(l, op, r)| {
            if l == "self.on_going_fetches.len()" && r == "MAX_PARALLEL_FETCH" {
                Some(op.clone())
            } else if r == "self.on_going_fetches.len()" && l == "MAX_PARALLEL_FETCH" {
                Some(flip(op))
            } else {
                None
            }
        })
        .collect();
    if caps != vec![">=".to_string(), "<".to_string(), ">=".to_string()] {
        return Err(format!("next_keys_to_fetch: cap comparisons are {caps:?}, expected [\">=\", \"<\", \">=\"]"));
    }

    // order of the pruning call and the empty-queue early return (top-level statements of next_keys_to_fetch)
    let mut prune_at: Vec<usize> = vec![];
    let mut empty_ret_at: Vec<usize> = vec![];
    let mut other_ret_at: Vec<usize> = vec![];
    for (i, st) in next.block.stmts.iter().enumerate() {
        let t = quote::ToTokens::to_token_stream(st).to_string().replace(' ', "");
        if t == "self.prune_expired_keys_and_slow_nodes();" {
            prune_at.push(i);
        } else if let syn::Stmt::Expr(syn::Expr::If(ifx), _) = st {
            let body = quote::ToTokens::to_token_stream(&ifx.then_branch).to_string().replace(' ', "");
            if body.contains("return") {
                let c = toks(&ifx.cond);
                if c == "self.to_be_fetched.is_empty()" || c == "self.to_be_fetched.len()==0" {
                    empty_ret_at.push(i);
                } else {
                    other_ret_at.push(i);
                }
            }
        } else if matches!(st, syn::Stmt::Expr(syn::Expr::Return(_), _)) {
            other_ret_at.push(i);
        }
    }
    let all_prune_calls = quote::ToTokens::to_token_stream(&next.block).to_string().replace(' ', "").matches("prune_expired_keys_and_slow_nodes(").count();
    if prune_at.len() != 1 || all_prune_calls != 1 || empty_ret_at.len() > 1 {
        return Err(format!(
            "next_keys_to_fetch: expected one top-level `self.prune_expired_keys_and_slow_nodes();` and at most one empty-queue early return (found {} / {} calls, {} returns)",
            prune_at.len(), all_prune_calls, empty_ret_at.len()
        ));
    }
    if other_ret_at.iter().any(|i| *i < prune_at[0]) {
        return Err("next_keys_to_fetch: an early return other than the empty-queue one precedes the pruning call".into());
    }
    let prune_before_empty_return = match empty_ret_at.first() {
        None => true,
        Some(i) => *i > prune_at[0],
    };

    let mut s = header(rel);
    s.push_str("namespace SafeNet.Gen.Fetcher\n");
    s.push_str(&format!("/-- `MAX_PARALLEL_FETCH` = libp2p-kad `K_VALUE.get()` -/\ndef maxParallelFetch : Nat := {mpf}\n"));
    s.push_str(&format!("/-- `FETCH_TIMEOUT` in seconds -/\ndef fetchTimeout : Nat := {fetch}\n"));
    s.push_str(&format!("/-- `PENDING_TIMEOUT` in seconds -/\ndef pendingTimeout : Nat := {pending}\n"));
    s.push_str(&lean_cmp("rangeOk", "add_keys: `convert_distance_to_u256(dist) OP *distance_range` keeps a key of a multi-key list (a = distance, b = range)", &range_op)?);
    s.push_str(&lean_cmp("beyondFarthest", "add_keys: `dist OP farthest_distance` drops an incoming key (a = distance, b = farthest)", &far_op)?);
    s.push_str(&lean_cmp("pendingAlive", "add_keys: `*time_out OP Instant::now()` keeps a to_be_fetched entry (a = deadline, b = clock)", &alive_op)?);
    s.push_str(&lean_cmp("fetchExpired", "prune_expired_keys_and_slow_nodes: `*time_out OP Instant::now()` fails an on_going entry (a = deadline, b = clock)", &exp_op)?);
    s.push_str(&lean_cmp("farthestUnchanged", "set_farthest_on_full: `new OP old` returns without change (a = new, b = old)", &noshrink_op)?);
    s.push_str(&lean_cmp("farthestKeep", "set_farthest_on_full: `dist OP new_farthest_distance` retains an entry, both queues (a = distance, b = new farthest)", &keep_op)?);
    s.push_str(&format!("/-- add_keys: the single-key fast path inserts only through `Entry::Vacant` of on_going_fetches -/\ndef fastPathChecksOngoing : Bool := {}\n", lean_bool(fast_checks_ongoing)));
    s.push_str(&format!("/-- add_keys: the single-key fast path (no range test, no queue) is taken only when the ADVERTISEMENT itself has one key (`total_incoming_keys == 1 && new_incoming_keys.len() == 1`); false = whenever exactly one key of the list is new (`new_incoming_keys.len() == 1`), which lets one new key of a periodic multi-record list skip the range test -/\ndef fastPathNeedsSingleAdvert : Bool := {}\n", lean_bool(fast_needs_single_advert)));
    s.push_str(&format!("/-- add_keys: a locally held key is skipped only when the held record type equals the advertised one -/\ndef skipHeldSameTypeOnly : Bool := {}\n", lean_bool(skip_same_type_only)));
    s.push_str(&format!("/-- next_keys_to_fetch: `prune_expired_keys_and_slow_nodes` runs before the `to_be_fetched.is_empty()` early return (or there is no such return); false = the early return comes first -/\ndef pruneBeforeEmptyQueueReturn : Bool := {}\n", lean_bool(prune_before_empty_return)));
    s.push_str("end SafeNet.Gen.Fetcher\n");
    Ok(s)
}
