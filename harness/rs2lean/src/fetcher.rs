//! ant-networking/src/replication_fetcher.rs → lean/SafeNet/Gen/Fetcher.lean
//! Constants (MAX_PARALLEL_FETCH through libp2p-kad's K_VALUE, FETCH_TIMEOUT, PENDING_TIMEOUT in seconds)
//! and the comparison operators of the admission / expiry / fullness tests, read from the source.
use crate::util::*;
use std::path::PathBuf;
use syn::visit::Visit;

fn toks(e: &syn::Expr) -> String {
    quote::ToTokens::to_token_stream(e).to_string().replace(' ', "")
}

#[derive(Default)]
struct Bins {
    v: Vec<(String, String, String)>, // (left, op, right) with spaces removed
}
impl<'ast> Visit<'ast> for Bins {
    fn visit_expr_binary(&mut self, b: &'ast syn::ExprBinary) {
        self.v.push((
            toks(&b.left),
            quote::ToTokens::to_token_stream(&b.op).to_string().replace(' ', ""),
            toks(&b.right),
        ));
        syn::visit::visit_expr_binary(self, b);
    }
}

fn bins(f: &syn::ImplItemFn) -> Vec<(String, String, String)> {
    let mut b = Bins::default();
    b.visit_block(&f.block);
    b.v
}

/// the unique comparison in `f` whose sides satisfy `l`/`r`
fn find_cmp(
    fname: &str,
    v: &[(String, String, String)],
    l: &dyn Fn(&str) -> bool,
    r: &dyn Fn(&str) -> bool,
    expect_n: usize,
) -> Result<String, String> {
    let hits: Vec<&(String, String, String)> = v
        .iter()
        .filter(|(a, op, b)| l(a) && r(b) && ["<", "<=", ">", ">=", "==", "!="].contains(&op.as_str()))
        .collect();
    if hits.len() != expect_n {
        return Err(format!("{fname}: expected {expect_n} comparison(s) of the searched shape, found {}", hits.len()));
    }
    let op = hits[0].1.clone();
    if hits.iter().any(|h| h.1 != op) {
        return Err(format!("{fname}: the {expect_n} comparisons of the searched shape use different operators"));
    }
    Ok(op)
}

fn lean_cmp(name: &str, doc: &str, op: &str) -> Result<String, String> {
    let l = match op {
        "<" => "a < b",
        "<=" => "a ≤ b",
        ">" => "b < a",
        ">=" => "b ≤ a",
        "==" => "a = b",
        "!=" => "a ≠ b",
        o => return Err(format!("{name}: unsupported operator {o}")),
    };
    Ok(format!("/-- {doc}: source operator `{op}` -/\ndef {name} (a b : Nat) : Bool := decide ({l})\n"))
}

fn k_value(repo: &PathBuf) -> Result<u128, String> {
    // version of libp2p-kad from Cargo.lock, source from the cargo registry
    let lock = std::fs::read_to_string(repo.join("Cargo.lock")).map_err(|e| format!("Cargo.lock: {e}"))?;
    let mut ver = None;
    let mut lines = lock.lines();
    while let Some(l) = lines.next() {
        if l.trim() == "name = \"libp2p-kad\"" {
            if let Some(v) = lines.next() {
                ver = v.trim().strip_prefix("version = \"").and_then(|s| s.strip_suffix('"')).map(|s| s.to_string());
            }
            break;
        }
    }
    let ver = ver.ok_or("libp2p-kad not found in Cargo.lock")?;
    let home = std::env::var("CARGO_HOME").unwrap_or_else(|_| format!("{}/.cargo", std::env::var("HOME").unwrap_or_else(|_| "/root".into())));
    let src = PathBuf::from(home).join("registry/src");
    let mut found = None;
    for d in std::fs::read_dir(&src).map_err(|e| format!("{}: {e}", src.display()))? {
        let p = d.map_err(|e| e.to_string())?.path().join(format!("libp2p-kad-{ver}/src/lib.rs"));
        if p.exists() {
            found = Some(p);
        }
    }
    let p = found.ok_or(format!("libp2p-kad-{ver}/src/lib.rs not found in the cargo registry"))?;
    let file = parse_file(&p)?;
    for (n, e) in consts(&file) {
        if n == "K_VALUE" {
            // NonZeroUsize::new(20).unwrap() / unsafe { NonZeroUsize::new_unchecked(20) }: the single integer literal inside
            struct Lits(Vec<u128>);
            impl<'ast> Visit<'ast> for Lits {
                fn visit_lit_int(&mut self, i: &'ast syn::LitInt) {
                    if let Ok(x) = i.base10_parse::<u128>() {
                        self.0.push(x);
                    }
                }
            }
            let mut l = Lits(vec![]);
            l.visit_expr(&e);
            if l.0.len() == 1 {
                return Ok(l.0[0]);
            }
            return Err(format!("K_VALUE: expected exactly one integer literal in `{}`", toks(&e)));
        }
    }
    Err("K_VALUE not found in libp2p-kad".into())
}

pub fn generate(repo: &PathBuf) -> Result<String, String> {
    let rel = "ant-networking/src/replication_fetcher.rs";
    let file = parse_file(&repo.join(rel))?;
    let cs = consts(&file);
    let expr_of = |n: &str| cs.iter().find(|(k, _)| k == n).map(|(_, e)| e.clone()).ok_or(format!("const {n} not found"));

    // MAX_PARALLEL_FETCH must be `K_VALUE.get()` (or a plain constant expression)
    let mpf_e = expr_of("MAX_PARALLEL_FETCH")?;
    let mpf = if toks(&mpf_e) == "K_VALUE.get()" {
        k_value(repo)?
    } else {
        let kv = k_value(repo).ok();
        eval_const(&mpf_e, &|n| if n == "K_VALUE" { kv } else { None })
            .map_err(|e| format!("MAX_PARALLEL_FETCH: {e}"))?
    };
    let secs = |n: &str| -> Result<u128, String> {
        let e = expr_of(n)?;
        let t = toks(&e);
        if !t.starts_with("Duration::from_secs(") {
            return Err(format!("{n}: expected Duration::from_secs(..), got {t}"));
        }
        eval_const(&e, &|_| None).map_err(|e| format!("{n}: {e}"))
    };
    let fetch = secs("FETCH_TIMEOUT")?;
    let pending = secs("PENDING_TIMEOUT")?;

    let add = impl_fn(&file, "ReplicationFetcher", None, "add_keys")?;
    let b = bins(add);
    let range_op = find_cmp("add_keys/range", &b, &|l| l.starts_with("convert_distance_to_u256("), &|r| r.contains("distance_range"), 1)?;
    let far_op = find_cmp("add_keys/farthest", &b, &|l| l.contains(".distance("), &|r| r == "farthest_distance", 1)?;
    let alive_op = find_cmp("add_keys/pending", &b, &|l| l == "*time_out", &|r| r == "Instant::now()", 1)?;
    let single_op = find_cmp("add_keys/single", &b, &|l| l == "new_incoming_keys.len()", &|r| r == "1", 1)?;
    if single_op != "==" {
        return Err(format!("add_keys: single-key fast path guard is `{single_op} 1`, expected `== 1`"));
    }
    let prune = impl_fn(&file, "ReplicationFetcher", None, "prune_expired_keys_and_slow_nodes")?;
    let exp_op = find_cmp("prune/expired", &bins(prune), &|l| l == "*time_out", &|r| r == "Instant::now()", 1)?;
    let full = impl_fn(&file, "ReplicationFetcher", None, "set_farthest_on_full")?;
    let fb = bins(full);
    let noshrink_op = find_cmp("set_farthest_on_full/return", &fb, &|l| l == "new_farthest_distance", &|r| r == "old_farthest_distance", 1)?;
    let keep_op = find_cmp("set_farthest_on_full/retain", &fb, &|l| l.contains(".distance("), &|r| r == "new_farthest_distance", 2)?;
    let next = impl_fn(&file, "ReplicationFetcher", None, "next_keys_to_fetch")?;
    let nb = bins(next);
    // the three cap comparisons are: `>=` (early return), `<` (loop guard), `>=` (break)
    let caps: Vec<String> = nb
        .iter()
        .filter(|(l, _, r)| l == "self.on_going_fetches.len()" && r == "MAX_PARALLEL_FETCH")
        .map(|(_, op, _)| op.clone())
        .collect();
    if caps != vec![">=".to_string(), "<".to_string(), ">=".to_string()] {
        return Err(format!("next_keys_to_fetch: cap comparisons are {caps:?}, expected [\">=\", \"<\", \">=\"]"));
    }
    // fast path must consult on_going_fetches (Entry::Vacant on on_going_fetches.entry)
    let add_src = quote::ToTokens::to_token_stream(&add.block).to_string().replace(' ', "");
    let fast_checks_ongoing = add_src.contains("ifletEntry::Vacant(entry)=self.on_going_fetches.entry(");
    // the locally-stored test compares the held record type with the advertised one
    let skip_same_type_only = add_src.contains("locally_stored_keys.get(&key).is_some_and(") && !add_src.contains("locally_stored_keys.contains_key(&key)");

    let mut s = header(rel);
    s.push_str("namespace SafeNet.Gen.Fetcher\n");
    s.push_str(&format!("/-- `MAX_PARALLEL_FETCH` = libp2p-kad `K_VALUE.get()` -/\ndef maxParallelFetch : Nat := {mpf}\n"));
    s.push_str(&format!("/-- `FETCH_TIMEOUT` in seconds -/\ndef fetchTimeout : Nat := {fetch}\n"));
    s.push_str(&format!("/-- `PENDING_TIMEOUT` in seconds -/\ndef pendingTimeout : Nat := {pending}\n"));
    s.push_str(&lean_cmp("rangeOk", "add_keys: `convert_distance_to_u256(dist) OP *distance_range` keeps a key of a multi-key list (a = distance, b = range)", &range_op)?);
    s.push_str(&lean_cmp("beyondFarthest", "add_keys: `dist OP farthest_distance` drops an incoming key (a = distance, b = farthest)", &far_op)?);
    s.push_str(&lean_cmp("pendingAlive", "add_keys: `*time_out OP Instant::now()` keeps a to_be_fetched entry (a = deadline, b = clock)", &alive_op)?);
    s.push_str(&lean_cmp("fetchExpired", "prune_expired_keys_and_slow_nodes: `*time_out OP Instant::now()` fails an on_going entry (a = deadline, b = clock)", &exp_op)?);
    s.push_str(&lean_cmp("farthestUnchanged", "set_farthest_on_full: `new OP old` returns without change (a = new, b = old)", &noshrink_op)?);
    s.push_str(&lean_cmp("farthestKeep", "set_farthest_on_full: `dist OP new_farthest_distance` retains an entry, both queues (a = distance, b = new farthest)", &keep_op)?);
    s.push_str(&format!("/-- add_keys: the single-key fast path inserts only through `Entry::Vacant` of on_going_fetches -/\ndef fastPathChecksOngoing : Bool := {}\n", lean_bool(fast_checks_ongoing)));
    s.push_str(&format!("/-- add_keys: a locally held key is skipped only when the held record type equals the advertised one -/\ndef skipHeldSameTypeOnly : Bool := {}\n", lean_bool(skip_same_type_only)));
    s.push_str("end SafeNet.Gen.Fetcher\n");
    Ok(s)
}
