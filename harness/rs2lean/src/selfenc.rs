//! C14: what `pack_data_map` packs at each level, when it stops, in which order chunks are returned
//! (autonomi/src/self_encryption.rs), and what the fetch loop deserialises (autonomi/src/client/utils.rs).
use crate::util::*;
use quote::ToTokens;
use std::path::PathBuf;
use syn::visit::Visit;

fn norm(t: impl ToTokens) -> String {
    t.to_token_stream().to_string().replace(' ', "")
}

/// the first `if` (anywhere) whose condition mentions `needle`
struct IfWith<'a> {
    needle: &'a str,
    found: Option<syn::ExprIf>,
}
impl<'ast, 'a> Visit<'ast> for IfWith<'a> {
    fn visit_expr_if(&mut self, i: &'ast syn::ExprIf) {
        if self.found.is_none() && norm(&i.cond).contains(self.needle) {
            self.found = Some(i.clone());
        }
        syn::visit::visit_expr_if(self, i);
    }
}

/// receivers of `.serialize(..)` calls and arguments of `…::encrypt(..)` calls
#[derive(Default)]
struct SerEnc {
    serialize_receivers: Vec<String>,
    encrypt_args: Vec<String>,
}
impl<'ast> Visit<'ast> for SerEnc {
    fn visit_expr_method_call(&mut self, m: &'ast syn::ExprMethodCall) {
        if m.method == "serialize" {
            self.serialize_receivers.push(norm(&m.receiver));
        }
        syn::visit::visit_expr_method_call(self, m);
    }
    fn visit_expr_call(&mut self, c: &'ast syn::ExprCall) {
        if norm(&c.func).ends_with("self_encryption::encrypt") {
            self.encrypt_args.push(norm(&c.args));
        }
        syn::visit::visit_expr_call(self, c);
    }
}

/// arms of the `match` expressions whose arms mention `DataMapLevel::Additional`
#[derive(Default)]
struct LevelArms {
    arms: Vec<(String, syn::Expr)>,
}
impl<'ast> Visit<'ast> for LevelArms {
    fn visit_expr_match(&mut self, m: &'ast syn::ExprMatch) {
        for a in &m.arms {
            let p = norm(&a.pat);
            if p.contains("DataMapLevel::") {
                self.arms.push((p, (*a.body).clone()));
            }
        }
        syn::visit::visit_expr_match(self, m);
    }
}

/// `let <name>: Chunk = rmp_serde::from_slice(&data)…` bindings and `data_map_level = rmp_serde::from_slice(<arg>)…` assignments
#[derive(Default)]
struct Unpack {
    chunk_lets: Vec<String>,
    level_assign_args: Vec<String>,
}
fn from_slice_arg(e: &syn::Expr) -> Option<String> {
    struct F(Option<String>);
    impl<'ast> Visit<'ast> for F {
        fn visit_expr_call(&mut self, c: &'ast syn::ExprCall) {
            if self.0.is_none() && norm(&c.func).ends_with("rmp_serde::from_slice") {
                self.0 = Some(norm(&c.args));
            }
            syn::visit::visit_expr_call(self, c);
        }
    }
    let mut f = F(None);
    f.visit_expr(e);
    f.0
}
impl<'ast> Visit<'ast> for Unpack {
    fn visit_local(&mut self, l: &'ast syn::Local) {
        if let syn::Pat::Type(pt) = &l.pat {
            if norm(&pt.ty) == "Chunk" {
                if let Some(init) = &l.init {
                    if from_slice_arg(&init.expr).as_deref() == Some("&data") {
                        self.chunk_lets.push(norm(&pt.pat));
                    }
                }
            }
        }
        syn::visit::visit_local(self, l);
    }
    fn visit_expr_assign(&mut self, a: &'ast syn::ExprAssign) {
        if norm(&a.left) == "data_map_level" {
            if let Some(arg) = from_slice_arg(&a.right) {
                self.level_assign_args.push(arg);
            }
        }
        syn::visit::visit_expr_assign(self, a);
    }
}

/// `encrypt_data(data: Bytes)`: a free fn whose only use of `data` is `encrypt(data)`
fn encrypts_caller_bytes_free(f: &syn::ItemFn) -> Result<bool, String> {
    let has_param = f.sig.inputs.iter().any(|a| match a {
        syn::FnArg::Typed(t) => norm(&t.pat) == "data",
        _ => false,
    });
    let b = norm(&f.block);
    if has_param && b.contains("encrypt(data)?") && b.matches("data").count() == 1 {
        Ok(true)
    } else {
        Err("client/external_signer.rs:encrypt_data: cannot tell that the caller's bytes reach encrypt unchanged".into())
    }
}

/// Does `f` call `encrypt(data)` on its own parameter `data`, with no statement before that call that rebinds
/// (`let data`, `let mut data`, a pattern binding `data`) or assigns (`data = ..`) it?
fn encrypts_caller_bytes(f: &syn::ImplItemFn, what: &str) -> Result<bool, String> {
    let has_param = f.sig.inputs.iter().any(|a| match a {
        syn::FnArg::Typed(t) => norm(&t.pat) == "data" || norm(&t.pat) == "mutdata",
        _ => false,
    });
    if !has_param {
        return Err(format!("{what}: no `data` parameter"));
    }
    struct V {
        rebinds_before: bool,
        seen_encrypt: bool,
        encrypt_args: Vec<String>,
    }
    impl<'ast> Visit<'ast> for V {
        fn visit_local(&mut self, l: &'ast syn::Local) {
            // the initialiser is evaluated before the binding takes effect
            if let Some(init) = &l.init {
                self.visit_expr(&init.expr);
            }
            if !self.seen_encrypt {
                struct P(bool);
                impl<'a> Visit<'a> for P {
                    fn visit_pat_ident(&mut self, p: &'a syn::PatIdent) {
                        if p.ident == "data" {
                            self.0 = true;
                        }
                        syn::visit::visit_pat_ident(self, p);
                    }
                }
                let mut p = P(false);
                p.visit_pat(&l.pat);
                if p.0 {
                    self.rebinds_before = true;
                }
            }
        }
        fn visit_expr_assign(&mut self, a: &'ast syn::ExprAssign) {
            if !self.seen_encrypt && norm(&a.left) == "data" {
                self.rebinds_before = true;
            }
            syn::visit::visit_expr_assign(self, a);
        }
        fn visit_expr_call(&mut self, c: &'ast syn::ExprCall) {
            let f = norm(&c.func);
            if f == "encrypt" || f.ends_with("self_encryption::encrypt") {
                self.encrypt_args.push(norm(&c.args));
                self.seen_encrypt = true;
            }
            syn::visit::visit_expr_call(self, c);
        }
    }
    let mut v = V { rebinds_before: false, seen_encrypt: false, encrypt_args: vec![] };
    v.visit_block(&f.block);
    if v.encrypt_args.len() != 1 {
        return Err(format!("{what}: expected exactly one call of encrypt, found {}", v.encrypt_args.len()));
    }
    Ok(!v.rebinds_before && (v.encrypt_args[0] == "data" || v.encrypt_args[0] == "data.clone()"))
}

pub fn generate(repo: &PathBuf) -> Result<String, String> {
    let rel_se = "autonomi/src/self_encryption.rs";
    let rel_utils = "autonomi/src/client/utils.rs";
    let rel_chunks = "ant-protocol/src/storage/chunks.rs";
    let se = parse_file(&repo.join(rel_se))?;
    let utils = parse_file(&repo.join(rel_utils))?;
    let chunks = parse_file(&repo.join(rel_chunks))?;

    // ---- Chunk::serialised_size
    let ss = impl_fn(&chunks, "Chunk", None, "serialised_size")?;
    if norm(&ss.block) != "{self.value.len()}" {
        return Err(format!("{rel_chunks}:serialised_size is no longer `self.value.len()`"));
    }
    // ---- Chunk serialises as its bare value
    let ser = impl_fn(&chunks, "Chunk", Some("Serialize"), "serialize")?;
    if !norm(&ser.block).contains("self.value.serialize(serialiser)") {
        return Err(format!("{rel_chunks}: Chunk::serialize no longer writes only the value"));
    }

    // ---- pack_data_map
    let pack = free_fn(&se, "pack_data_map")?;
    let pack_s = norm(&pack.block);
    if !pack_s.contains("wrap_data_map(&DataMapLevel::First(data_map))") {
        return Err(format!("{rel_se}:pack_data_map: the first level is not wrap_data_map(&DataMapLevel::First(data_map))"));
    }
    let mut iw = IfWith { needle: "MAX_CHUNK_SIZE", found: None };
    iw.visit_block(&pack.block);
    let guard = iw.found.ok_or(format!("{rel_se}:pack_data_map: no size guard on MAX_CHUNK_SIZE"))?;
    let (fits_expr, fits_doc) = match &*guard.cond {
        syn::Expr::Binary(b) => {
            let l = norm(&b.left);
            let r = norm(&b.right);
            let op = norm(&b.op);
            if l == "*MAX_CHUNK_SIZE" && r == "chunk.serialised_size()" {
                match op.as_str() {
                    ">=" => ("max ≥ size", format!("*MAX_CHUNK_SIZE {op} chunk.serialised_size()")),
                    ">" => ("max > size", format!("*MAX_CHUNK_SIZE {op} chunk.serialised_size()")),
                    _ => return Err(format!("{rel_se}:pack_data_map: unexpected comparator {op}")),
                }
            } else if r == "*MAX_CHUNK_SIZE" && l == "chunk.serialised_size()" {
                match op.as_str() {
                    "<=" => ("max ≥ size", format!("chunk.serialised_size() {op} *MAX_CHUNK_SIZE")),
                    "<" => ("max > size", format!("chunk.serialised_size() {op} *MAX_CHUNK_SIZE")),
                    _ => return Err(format!("{rel_se}:pack_data_map: unexpected comparator {op}")),
                }
            } else {
                return Err(format!("{rel_se}:pack_data_map: size guard compares {l} with {r}"));
            }
        }
        other => return Err(format!("{rel_se}:pack_data_map: size guard is not a comparison: {}", norm(other))),
    };
    let then_s = norm(&guard.then_branch);
    if !then_s.contains("break(chunk,chunks)") {
        return Err(format!("{rel_se}:pack_data_map: the fitting branch does not `break (chunk, chunks)`"));
    }
    let reversed = then_s.contains("chunks.reverse()");
    let else_e = guard.else_branch.as_ref().ok_or(format!("{rel_se}:pack_data_map: no else branch"))?.1.clone();
    let else_s = norm(&else_e);
    if !else_s.contains("chunk_content=wrap_data_map(&DataMapLevel::Additional(data_map))") {
        return Err(format!("{rel_se}:pack_data_map: a packed level is not wrapped as DataMapLevel::Additional(data_map)"));
    }
    let mut sv = SerEnc::default();
    sv.visit_expr(&else_e);
    if sv.encrypt_args.len() != 1 {
        return Err(format!("{rel_se}:pack_data_map: expected exactly one self_encryption::encrypt call in the packing branch"));
    }
    let arg = sv.encrypt_args[0].clone();
    let serialises_chunk = if sv.serialize_receivers.len() == 1 {
        if !(arg == "serialized_chunk" && else_s.contains("letserialized_chunk=bytes.into_inner().freeze()")) {
            return Err(format!("{rel_se}:pack_data_map: encrypt argument `{arg}` is not the serialised bytes"));
        }
        match sv.serialize_receivers[0].as_str() {
            "chunk" => true,
            "chunk.value" | "chunk.value()" | "chunk_content" => false,
            other => return Err(format!("{rel_se}:pack_data_map: serialises `{other}`")),
        }
    } else if sv.serialize_receivers.is_empty() {
        let a = arg.trim_end_matches(".clone()").to_string();
        if a == "chunk.value" || a == "chunk.value()" || a == "chunk_content" {
            false
        } else {
            return Err(format!("{rel_se}:pack_data_map: encrypts `{arg}`"));
        }
    } else {
        return Err(format!("{rel_se}:pack_data_map: several serialize calls"));
    };
    let prepended = if else_s.contains(".chain(chunks).collect()") {
        true
    } else if else_s.contains("chunks.extend(") {
        false
    } else {
        return Err(format!("{rel_se}:pack_data_map: cannot tell how the chunks of a further level are accumulated"));
    };
    let uses = pack_s.matches("MAX_CHUNK_SIZE").count();

    // ---- encrypt
    let enc = free_fn(&se, "encrypt")?;
    let enc_s = norm(&enc.block);
    if !(enc_s.contains("self_encryption::encrypt(data)?") && enc_s.contains("pack_data_map(data_map)?") && enc_s.contains(".chain(additional_chunks)") && enc_s.contains("Ok((data_map_chunk,chunks))")) {
        return Err(format!("{rel_se}:encrypt: unexpected shape"));
    }

    // ---- fetch_from_data_map_chunk
    let fetch = impl_fn(&utils, "Client", None, "fetch_from_data_map_chunk")?;
    let mut la = LevelArms::default();
    la.visit_block(&fetch.block);
    let first = la.arms.iter().filter(|(p, _)| p == "DataMapLevel::First(_)").map(|(_, b)| norm(b)).collect::<Vec<_>>();
    if first.len() != 1 || first[0] != "breakOk(data)" {
        return Err(format!("{rel_utils}:fetch_from_data_map_chunk: the First arm does not `break Ok(data)`"));
    }
    let add: Vec<&syn::Expr> = la.arms.iter().filter(|(p, _)| p == "DataMapLevel::Additional(_)").map(|(_, b)| b).collect();
    if add.len() != 1 {
        return Err(format!("{rel_utils}:fetch_from_data_map_chunk: expected one `DataMapLevel::Additional(_)` arm"));
    }
    let mut up = Unpack::default();
    up.visit_expr(add[0]);
    if up.level_assign_args.len() != 1 {
        return Err(format!("{rel_utils}:fetch_from_data_map_chunk: expected one `data_map_level = rmp_serde::from_slice(..)`"));
    }
    let a = up.level_assign_args[0].clone();
    let unwraps = if a == "&data" {
        false
    } else if up.chunk_lets.iter().any(|n| a == format!("{n}.value()") || a == format!("&{n}.value") || a == format!("{n}.value().as_ref()")) {
        true
    } else {
        return Err(format!("{rel_utils}:fetch_from_data_map_chunk: next level deserialised from `{a}`"));
    };
    if !norm(add[0]).contains("continue") {
        return Err(format!("{rel_utils}:fetch_from_data_map_chunk: the Additional arm does not continue the loop"));
    }
    // fetch_from_data_map: one chunk_get per info, bounded concurrency, decrypt_full_set
    let ffdm = impl_fn(&utils, "Client", None, "fetch_from_data_map")?;
    let f_s = norm(&ffdm.block);
    if !(f_s.contains("forinfoindata_map.infos()") && f_s.contains(".chunk_get(info.dst_hash)") && f_s.contains("index:info.index,content:chunk.value")
        && f_s.contains("process_tasks_with_max_concurrency(download_tasks,*CHUNK_DOWNLOAD_BATCH_SIZE)") && f_s.contains("collect::<Result<Vec<EncryptedChunk>,GetError>>()?")
        && f_s.contains("decrypt_full_set(data_map,&encrypted_chunks)"))
    {
        return Err(format!("{rel_utils}:fetch_from_data_map: unexpected shape"));
    }

    // ---- the put entry points
    let rel_data = "autonomi/src/client/data/mod.rs";
    let rel_public = "autonomi/src/client/data/public.rs";
    let data_mod = parse_file(&repo.join(rel_data))?;
    let data_pub = parse_file(&repo.join(rel_public))?;
    let put_private = encrypts_caller_bytes(impl_fn(&data_mod, "Client", None, "data_put")?, &format!("{rel_data}:data_put"))?;
    let put_public = encrypts_caller_bytes(impl_fn(&data_pub, "Client", None, "data_put_public")?, &format!("{rel_public}:data_put_public"))?;
    let cost = encrypts_caller_bytes(impl_fn(&data_pub, "Client", None, "data_cost")?, &format!("{rel_public}:data_cost"))?;

    // ---- every call of the repo's `encrypt` (and of `external_signer::encrypt_data`, which only forwards to it) in
    // autonomi/src must be a listed site: (file, enclosing fn). An unlisted one is an entry point the theorems do not cover.
    struct Sites {
        stack: Vec<String>,
        found: Vec<(String, String)>, // (enclosing fn, callee path)
    }
    impl<'ast> Visit<'ast> for Sites {
        fn visit_item_fn(&mut self, f: &'ast syn::ItemFn) {
            self.stack.push(f.sig.ident.to_string());
            syn::visit::visit_item_fn(self, f);
            self.stack.pop();
        }
        fn visit_impl_item_fn(&mut self, f: &'ast syn::ImplItemFn) {
            self.stack.push(f.sig.ident.to_string());
            syn::visit::visit_impl_item_fn(self, f);
            self.stack.pop();
        }
        fn visit_expr_call(&mut self, c: &'ast syn::ExprCall) {
            if let syn::Expr::Path(p) = &*c.func {
                let path = norm(&p.path);
                if ["encrypt", "self_encryption::encrypt", "crate::self_encryption::encrypt", "encrypt_data", "external_signer::encrypt_data"].contains(&path.as_str()) {
                    self.found.push((self.stack.last().cloned().unwrap_or_default(), path));
                }
            }
            syn::visit::visit_expr_call(self, c);
        }
    }
    fn rs_files(dir: &std::path::Path, out: &mut Vec<PathBuf>) {
        if let Ok(rd) = std::fs::read_dir(dir) {
            let mut es: Vec<PathBuf> = rd.filter_map(|e| e.ok().map(|e| e.path())).collect();
            es.sort();
            for e in es {
                if e.is_dir() {
                    rs_files(&e, out);
                } else if e.extension().map(|x| x == "rs").unwrap_or(false) {
                    out.push(e);
                }
            }
        }
    }
    let src_root = repo.join("autonomi/src");
    let mut files = vec![];
    rs_files(&src_root, &mut files);
    let mut sites: Vec<(String, String, String)> = vec![];
    for f in &files {
        let rel = f.strip_prefix(&src_root).map_err(|e| e.to_string())?.to_string_lossy().to_string();
        let parsed = parse_file(f)?;
        let mut v = Sites { stack: vec![], found: vec![] };
        v.visit_file(&parsed);
        for (func, callee) in v.found {
            sites.push((rel.clone(), func, callee));
        }
    }
    sites.sort();
    // (file, fn, callee, what it is)
    let listed: [(&str, &str, &str); 9] = [
        ("client/data/mod.rs", "data_put", "encrypt"),
        ("client/data/public.rs", "data_cost", "encrypt"),
        ("client/data/public.rs", "data_put_public", "encrypt"),
        ("client/external_signer.rs", "encrypt_data", "encrypt"),
        ("client/files/fs_public.rs", "file_cost", "crate::self_encryption::encrypt"),
        ("client/wasm.rs", "encrypt", "encrypt_data"),
        ("python.rs", "encrypt", "self_encryption::encrypt"),
        ("self_encryption.rs", "encrypt", "self_encryption::encrypt"),
        ("self_encryption.rs", "pack_data_map", "self_encryption::encrypt"),
    ];
    for (f, func, callee) in &sites {
        if !listed.iter().any(|(a, b, c)| a == f && b == func && c == callee) {
            return Err(format!("autonomi/src/{f}:{func}: unlisted call of `{callee}` — an entry point to self-encryption the theorems do not cover"));
        }
    }
    for (a, b, c) in &listed {
        if sites.iter().filter(|(f, func, callee)| f == a && func == b && callee == c).count() != 1 {
            return Err(format!("autonomi/src/{a}:{b}: expected exactly one call of `{c}`"));
        }
    }
    // the further sites hand on the bytes they were given, unchanged
    let ext = parse_file(&src_root.join("client/external_signer.rs"))?;
    let ext_ok = encrypts_caller_bytes_free(free_fn(&ext, "encrypt_data")?)?;
    let fsp = parse_file(&src_root.join("client/files/fs_public.rs"))?;
    let fc = norm(&impl_fn(&fsp, "Client", None, "file_cost")?.block);
    let file_cost_ok = if fc.contains("letdata=tokio::fs::read(&path).await?;letfile_bytes=Bytes::from(data);") && fc.contains("crate::self_encryption::encrypt(file_bytes)?")
        && fc.matches("file_bytes=").count() == 1 && !fc.contains("mutfile_bytes")
    {
        true
    } else {
        return Err("client/files/fs_public.rs:file_cost: cannot tell that the file's bytes reach encrypt unchanged".into());
    };
    // python.rs: `self_encryption` there is the third-party crate (the module has no `use crate::self_encryption`): the
    // binding returns the bare `DataMap`, not the packed `DataMapLevel` chunk the client's reads expect
    let py_src = std::fs::read_to_string(src_root.join("python.rs")).map_err(|e| e.to_string())?;
    let python_bypasses = !py_src.contains("use crate::self_encryption") && !py_src.contains("crate::self_encryption::encrypt");

    // ---- what the put entry points upload: the argument of their single `upload_chunks_with_retries(..)` call
    struct UploadArgs(Vec<String>);
    impl<'ast> Visit<'ast> for UploadArgs {
        fn visit_expr_method_call(&mut self, m: &'ast syn::ExprMethodCall) {
            if m.method == "upload_chunks_with_retries" {
                self.0.push(m.args.first().map(|a| norm(a)).unwrap_or_default());
            }
            syn::visit::visit_expr_method_call(self, m);
        }
    }
    let upload_arg = |f: &syn::ImplItemFn, what: &str| -> Result<String, String> {
        let mut v = UploadArgs(vec![]);
        v.visit_block(&f.block);
        match v.0.as_slice() {
            [a] => Ok(a.clone()),
            other => Err(format!("{what}: expected one call of upload_chunks_with_retries, found {}", other.len())),
        }
    };
    // `let (data_map_chunk, chunks) = encrypt(data)?;` names what is uploaded
    let binds_encrypt = |f: &syn::ImplItemFn| norm(&f.block).contains("let(data_map_chunk,chunks)=encrypt(data)?;");
    let f_put = impl_fn(&data_mod, "Client", None, "data_put")?;
    let f_put_public = impl_fn(&data_pub, "Client", None, "data_put_public")?;
    if !binds_encrypt(f_put) || !binds_encrypt(f_put_public) {
        return Err(format!("{rel_data}/{rel_public}: the put entry points do not bind `let (data_map_chunk, chunks) = encrypt(data)?`"));
    }
    let put_uploads_chunks = match upload_arg(f_put, &format!("{rel_data}:data_put"))?.as_str() {
        "chunks.iter().collect()" => true,
        other => return Err(format!("{rel_data}:data_put: uploads `{other}`, not `chunks.iter().collect()`")),
    };
    let (public_uploads_chunks, public_uploads_data_map) = match upload_arg(f_put_public, &format!("{rel_public}:data_put_public"))?.as_str() {
        "chunks.iter().chain(std::iter::once(&data_map_chunk)).collect()" | "std::iter::once(&data_map_chunk).chain(chunks.iter()).collect()" => (true, true),
        "chunks.iter().collect()" => (true, false),
        "std::iter::once(&data_map_chunk).collect()" | "vec![&data_map_chunk]" => (false, true),
        other => return Err(format!("{rel_public}:data_put_public: uploads `{other}`: neither all chunks nor all chunks + the data-map chunk")),
    };
    // `upload_chunks_with_retries`: the only way a chunk handed in is not PUT is the missing receipt entry
    let ucr = impl_fn(&data_pub, "Client", None, "upload_chunks_with_retries")?;
    let ucr_s = norm(&ucr.block);
    let skip = "letSome((proof,_))=receipt.get(chunk.name())else{";
    let upload_skips_only_unpaid = if ucr_s.contains("forchunkinchunks{") && ucr_s.matches(skip).count() == 1 && ucr_s.matches("continue").count() == 1
        && ucr_s.contains(".chunk_upload_with_payment(chunk,proof.clone())") && !ucr_s.contains("break")
    {
        true
    } else {
        return Err(format!("{rel_public}:upload_chunks_with_retries: unexpected shape (skips other than the missing receipt entry?)"));
    };
    // `chunk_upload_with_payment`: the record is keyed by the chunk's own address and carries the chunk itself
    let cup = impl_fn(&utils, "Client", None, "chunk_upload_with_payment")?;
    let cup_s = norm(&cup.block);
    let put_record_is_chunk = if cup_s.contains("letkey=chunk.network_address().to_record_key();") && cup_s.contains("letrecord_kind=RecordKind::ChunkWithPayment;")
        && cup_s.contains("key:key.clone(),value:try_serialize_record(&(payment,chunk.clone()),record_kind)") && cup_s.contains("self.network.put_record(record,&put_cfg)")
    {
        true
    } else {
        return Err(format!("{rel_utils}:chunk_upload_with_payment: unexpected shape (record key / value)"));
    };

    // one download task per data-map entry: the `for info in data_map.infos()` body is the single `download_tasks.push(..)`
    struct ForInfos(Option<syn::ExprForLoop>);
    impl<'ast> Visit<'ast> for ForInfos {
        fn visit_expr_for_loop(&mut self, f: &'ast syn::ExprForLoop) {
            if self.0.is_none() && norm(&f.expr) == "data_map.infos()" {
                self.0 = Some(f.clone());
            }
            syn::visit::visit_expr_for_loop(self, f);
        }
    }
    let mut fi = ForInfos(None);
    fi.visit_block(&ffdm.block);
    let for_infos = fi.0.ok_or(format!("{rel_utils}:fetch_from_data_map: no `for info in data_map.infos()` loop"))?;
    let every_info = if for_infos.body.stmts.len() == 1 && norm(&for_infos.body).starts_with("{download_tasks.push(") {
        true
    } else if norm(&for_infos.body).contains("continue") {
        false
    } else {
        return Err(format!("{rel_utils}:fetch_from_data_map: cannot tell whether every data-map entry gets a download task"));
    };

    let mut s = header(&format!("{rel_se}, {rel_utils}, {rel_chunks}, {rel_data}, {rel_public}, ant-networking/src/driver.rs"));
    s.push_str("namespace SafeNet.Gen.SelfEnc\n");
    s.push_str(&format!("/-- `pack_data_map`: the loop returns when `{fits_doc}` -/\n"));
    s.push_str(&format!("def packFits (max size : Nat) : Bool := decide ({fits_expr})\n"));
    s.push_str("/-- `Chunk::serialised_size` is `self.value.len()` -/\ndef serialisedSizeIsValueLen : Bool := true\n");
    s.push_str("/-- `pack_data_map` self-encrypts the rmp serialisation of the whole `Chunk` (`chunk.serialize(..)`), not the bare `chunk.value` -/\n");
    s.push_str(&format!("def packSerialisesChunk : Bool := {}\n", lean_bool(serialises_chunk)));
    s.push_str("/-- `fetch_from_data_map_chunk`, `Additional` arm: the decrypted bytes are first deserialised as a `Chunk`, whose value is then deserialised as `DataMapLevel` -/\n");
    s.push_str(&format!("def fetchUnwrapsChunk : Bool := {}\n", lean_bool(unwraps)));
    s.push_str("/-- the chunks of a further level are put in front of those collected so far (`.chain(chunks)`) -/\n");
    s.push_str(&format!("def nextChunksPrepended : Bool := {}\n", lean_bool(prepended)));
    s.push_str("/-- `chunks.reverse()` before returning -/\n");
    s.push_str(&format!("def chunksReversedOnReturn : Bool := {}\n", lean_bool(reversed)));
    s.push_str("/-- number of uses of `MAX_CHUNK_SIZE` in `pack_data_map` -/\n");
    s.push_str(&format!("def maxChunkSizeUses : Nat := {uses}\n"));
    s.push_str("/-- `Client::data_put` / `data_put_public` / `data_cost` call `encrypt(data)` on their `data` parameter, which nothing rebinds or reassigns before -/\n");
    s.push_str(&format!("def dataPutEncryptsCallerBytes : Bool := {}\n", lean_bool(put_private)));
    s.push_str(&format!("def dataPutPublicEncryptsCallerBytes : Bool := {}\n", lean_bool(put_public)));
    s.push_str(&format!("def dataCostEncryptsCallerBytes : Bool := {}\n", lean_bool(cost)));
    s.push_str("/-- every call of the repo's `encrypt` / `encrypt_data` in autonomi/src is one of these sites (an unlisted one makes the translation fail): (file, enclosing fn) -/\n");
    s.push_str(&format!("def encryptCallSites : List (String × String) := [{}]\n", listed.iter().map(|(a, b, _)| format!("({a:?}, {b:?})")).collect::<Vec<_>>().join(", ")));
    s.push_str("/-- `external_signer::encrypt_data` (also behind wasm `encryptData`) and `file_cost` hand the bytes they were given to `encrypt` unchanged -/\n");
    s.push_str(&format!("def externalSignerEncryptsCallerBytes : Bool := {}\ndef fileCostEncryptsFileBytes : Bool := {}\n", lean_bool(ext_ok), lean_bool(file_cost_ok)));
    s.push_str("/-- python.rs `encrypt` calls the third-party crate directly: no `pack_data_map`, the result is a bare `DataMap` (declared uncovered by the round-trip theorems; too-small inputs are rejected by the crate itself) -/\n");
    s.push_str(&format!("def pythonEncryptBypassesPacking : Bool := {}\n", lean_bool(python_bypasses)));
    s.push_str("/-- what the put entry points hand to `upload_chunks_with_retries`: `data_put` all chunks `encrypt` returned; `data_put_public` all of them and the data-map chunk -/\n");
    s.push_str(&format!("def dataPutUploadsChunks : Bool := {}\n", lean_bool(put_uploads_chunks)));
    s.push_str(&format!("def dataPutPublicUploadsChunks : Bool := {}\n", lean_bool(public_uploads_chunks)));
    s.push_str(&format!("def dataPutPublicUploadsDataMap : Bool := {}\n", lean_bool(public_uploads_data_map)));
    s.push_str("/-- `upload_chunks_with_retries` PUTs every chunk it is handed except those the receipt has no entry for (its loop has no other skip) -/\n");
    s.push_str(&format!("def uploadSkipsOnlyUnpaid : Bool := {}\n", lean_bool(upload_skips_only_unpaid)));
    s.push_str("/-- `chunk_upload_with_payment` PUTs a `ChunkWithPayment` record keyed by the chunk's own address whose value holds the chunk unchanged -/\n");
    s.push_str(&format!("def putRecordIsChunkUnderOwnAddress : Bool := {}\n", lean_bool(put_record_is_chunk)));
    s.push_str("/-- `fetch_from_data_map` pushes one download task for every entry of `data_map.infos()` (its loop body has no `continue` / conditional skip) -/\n");
    s.push_str(&format!("def fetchRequestsEveryInfo : Bool := {}\n", lean_bool(every_info)));
    // ---- the size of record a node stores (ant-networking/src/driver.rs): `max_value_bytes: MAX_PACKET_SIZE`
    let rel_driver = "ant-networking/src/driver.rs";
    let driver = parse_file(&repo.join(rel_driver))?;
    let max_packet = const_value(&driver, "MAX_PACKET_SIZE").map_err(|e| format!("{rel_driver}: {e}"))?;
    s.push_str("/-- `ant_networking::MAX_PACKET_SIZE`: the largest record value a node's store accepts (`max_value_bytes`) -/\n");
    s.push_str(&format!("def maxPacketSize : Nat := {max_packet}\n"));
    s.push_str("end SafeNet.Gen.SelfEnc\n");
    Ok(s)
}
