use crate::util::*;
use quote::ToTokens;
use std::path::PathBuf;
use syn::visit::Visit;

struct MethodLits {
    found: Vec<(String, Vec<String>)>, // method name, literal string args
}
impl<'ast> Visit<'ast> for MethodLits {
    fn visit_expr_method_call(&mut self, m: &'ast syn::ExprMethodCall) {
        let lits: Vec<String> = m
            .args
            .iter()
            .filter_map(|a| match a {
                syn::Expr::Lit(l) => match &l.lit {
                    syn::Lit::Str(s) => Some(s.value()),
                    _ => None,
                },
                _ => None,
            })
            .collect();
        self.found.push((m.method.to_string(), lits));
        syn::visit::visit_expr_method_call(self, m);
    }
}

struct Arms {
    arms: Vec<(String, String)>,
}
impl<'ast> Visit<'ast> for Arms {
    fn visit_expr_match(&mut self, m: &'ast syn::ExprMatch) {
        for a in &m.arms {
            self.arms.push((a.pat.to_token_stream().to_string(), a.body.to_token_stream().to_string()));
        }
        syn::visit::visit_expr_match(self, m);
    }
}

struct Cmps {
    ops: Vec<(String, String)>, // operator, full expression text
}
impl<'ast> Visit<'ast> for Cmps {
    fn visit_expr_binary(&mut self, b: &'ast syn::ExprBinary) {
        let op = b.op.to_token_stream().to_string();
        if ["<=", "<", ">=", ">"].contains(&op.as_str()) {
            self.ops.push((op, b.to_token_stream().to_string()));
        }
        syn::visit::visit_expr_binary(self, b);
    }
}

fn lean_str(s: &str) -> String {
    format!("[{}]", s.bytes().map(|b| b.to_string()).collect::<Vec<_>>().join(", "))
}

const VARIANTS: [&str; 6] = ["PeerId", "ChunkAddress", "TransactionAddress", "RegisterAddress", "RecordKey", "ScratchpadAddress"];

fn accessor_table(f: &syn::ImplItemFn, what: &str) -> Result<Vec<(String, bool)>, String> {
    // for every NetworkAddress variant: does the arm use the raw stored bytes (true) or the typed address's xorname (false)?
    let mut v = Arms { arms: vec![] };
    v.visit_block(&f.block);
    let mut out = vec![];
    for var in VARIANTS {
        let arm = v
            .arms
            .iter()
            .find(|(p, _)| p.split(|c: char| !c.is_alphanumeric() && c != '_').any(|t| t == var))
            .ok_or_else(|| format!("{what}: no arm for {var}"))?;
        let uses_x = arm.1.contains("xorname");
        let uses_b = arm.1.contains("bytes");
        if uses_x == uses_b {
            return Err(format!("{what}: arm for {var} has unexpected body `{}`", arm.1));
        }
        out.push((var.to_string(), uses_b));
    }
    Ok(out)
}

pub fn generate(repo: &PathBuf) -> Result<String, String> {
    let rel = "ant-protocol/src/lib.rs";
    let file = parse_file(&repo.join(rel))?;
    let close_group = const_value(&file, "CLOSE_GROUP_SIZE")?;
    let conv = free_fn(&file, "convert_distance_to_u256")?;
    let mut ml = MethodLits { found: vec![] };
    ml.visit_block(&conv.block);
    let ts = ml.found.iter().find(|(m, _)| m == "trim_start_matches").and_then(|(_, l)| l.first().cloned())
        .ok_or("convert_distance_to_u256: no trim_start_matches(\"…\")")?;
    let te = ml.found.iter().find(|(m, _)| m == "trim_end_matches").and_then(|(_, l)| l.first().cloned())
        .ok_or("convert_distance_to_u256: no trim_end_matches(\"…\")")?;
    let c = calls_in_block(&conv.block);
    let fmt = c.macros.iter().find(|(n, _)| n == "format").map(|(_, t)| t.clone()).ok_or("convert_distance_to_u256: no format!")?;
    if !fmt.contains(":?") {
        return Err(format!("convert_distance_to_u256: expected Debug formatting, got {fmt}"));
    }
    let fallback_zero = ml.found.iter().any(|(m, _)| m == "unwrap_or") && conv.block.to_token_stream().to_string().contains("U256 :: ZERO");
    if !fallback_zero {
        return Err("convert_distance_to_u256: expected `.unwrap_or(U256::ZERO)`".into());
    }
    let as_bytes = accessor_table(impl_fn(&file, "NetworkAddress", None, "as_bytes")?, "as_bytes")?;
    let to_key = accessor_table(impl_fn(&file, "NetworkAddress", None, "to_record_key")?, "to_record_key")?;
    let dist = impl_fn(&file, "NetworkAddress", None, "distance")?;
    let dc = calls_in_block(&dist.block);
    if dc.methods.iter().filter(|m| *m == "as_kbucket_key").count() != 2 || !dc.methods.iter().any(|m| m == "distance") {
        return Err("NetworkAddress::distance: expected self.as_kbucket_key().distance(&other.as_kbucket_key())".into());
    }
    let kb = impl_fn(&file, "NetworkAddress", None, "as_kbucket_key")?;
    if !kb.block.to_token_stream().to_string().replace(' ', "").contains("Key::new(self.as_bytes())") {
        return Err("as_kbucket_key: expected Key::new(self.as_bytes())".into());
    }

    // ant-networking: sort_peers_by_key guard and get_peers_in_range comparator
    let netlib = parse_file(&repo.join("ant-networking/src/lib.rs"))?;
    let sp = free_fn(&netlib, "sort_peers_by_key")?;
    let mut cm = Cmps { ops: vec![] };
    cm.visit_block(&sp.block);
    let guard = cm.ops.iter().find(|(_, t)| t.contains("CLOSE_GROUP_SIZE")).ok_or("sort_peers_by_key: no CLOSE_GROUP_SIZE guard")?;
    let guard_txt = guard.1.replace(' ', "");
    if guard_txt != "CLOSE_GROUP_SIZE>peers.len()" {
        return Err(format!("sort_peers_by_key: unexpected guard {guard_txt}"));
    }
    let spc = calls_in_block(&sp.block);
    if !spc.methods.iter().any(|m| m == "sort_by") || !spc.methods.iter().any(|m| m == "take") {
        return Err("sort_peers_by_key: expected sort_by + take".into());
    }
    // Network::get_all_close_peers_in_range_or_close_group: the client's own id is stripped BEFORE sorting/truncating,
    // and the expanded close group is CLOSE_GROUP_SIZE + CLOSE_GROUP_SIZE / 2
    let cg = impl_fn(&netlib, "Network", None, "get_all_close_peers_in_range_or_close_group")?;
    let cgt = cg.block.to_token_stream().to_string().replace(' ', "");
    let pos_retain = cgt.find(".retain(").ok_or("get_all_close_peers_in_range_or_close_group: no retain of self")?;
    let pos_sort = cgt.find("sort_peers_by_address(").ok_or("get_all_close_peers_in_range_or_close_group: no sort_peers_by_address")?;
    let strip_before_sort = pos_retain < pos_sort;
    if !cgt.contains("ifclient{") {
        return Err("get_all_close_peers_in_range_or_close_group: expected `if client { … retain … }`".into());
    }
    let expanded = if cgt.contains("CLOSE_GROUP_SIZE+CLOSE_GROUP_SIZE/2") {
        close_group + close_group / 2
    } else {
        return Err("get_all_close_peers_in_range_or_close_group: unexpected expanded close group expression".into());
    };
    let cmd = parse_file(&repo.join("ant-networking/src/cmd.rs"))?;
    let gp = free_fn(&cmd, "get_peers_in_range")?;
    let mut cm = Cmps { ops: vec![] };
    cm.visit_block(&gp.block);
    let in_range = cm.ops.iter().find(|(_, t)| t.contains("range")).ok_or("get_peers_in_range: no comparison with range")?;
    let in_range_le = match in_range.1.replace(' ', "").as_str() {
        "distance<=range" => true,
        "distance<range" => false,
        other => return Err(format!("get_peers_in_range: unexpected comparison {other}")),
    };
    let node = parse_file(&repo.join("ant-node/src/node.rs"))?;
    let cg = impl_fn(&node, "Node", None, "calculate_get_closest_peers")?;
    let mut cm = Cmps { ops: vec![] };
    cm.visit_block(&cg.block);
    // the one comparison of a converted distance with the requested range (any other comparison in the function is not it)
    let cls: Vec<&(String, String)> = cm.ops.iter().filter(|(_, t)| t.contains("convert_distance_to_u256")).collect();
    if cls.len() != 1 {
        return Err(format!("calculate_get_closest_peers: expected exactly one comparison of convert_distance_to_u256(..) with the range, found {}", cls.len()));
    }
    let cl = cls[0];
    if !cl.1.replace(' ', "").starts_with("convert_distance_to_u256(") {
        return Err(format!("calculate_get_closest_peers: the converted distance is not the left operand in `{}`", cl.1));
    }
    let closest_le = match cl.0.as_str() {
        "<=" => true,
        "<" => false,
        other => return Err(format!("calculate_get_closest_peers: unexpected comparator {other}")),
    };

    // ---- the producer of every range bound: the `set_farthest_record_interval` arm of `SwarmDriver::run` (driver.rs)
    let drv = parse_file(&repo.join("ant-networking/src/driver.rs"))?;
    let run = impl_fn(&drv, "SwarmDriver", None, "run")?;
    let run_s = run.block.to_token_stream().to_string().replace(' ', "");
    let need = [
        "letestimated_network_size=Self::estimate_network_size(peers_in_non_full_buckets,num_of_full_buckets);",
        "ifestimated_network_size<=CLOSE_GROUP_SIZE{",
        "letdensity=U256::MAX/U256::from(estimated_network_size);",
        "letdensity_distance=density*U256::from(CLOSE_GROUP_SIZE);",
        "letclosest_k_peers=self.get_closest_k_value_local_peers();",
        "ifclosest_k_peers.len()<=CLOSE_GROUP_SIZE+2{continue;}",
        "letclose_peers_distance=self_addr.distance(&NetworkAddress::from_peer(closest_k_peers[CLOSE_GROUP_SIZE+1]));",
        "letclose_peers_u256=convert_distance_to_u256(&close_peers_distance);",
        "letdistance=std::cmp::max(density_distance,close_peers_u256);",
        ".set_distance_range(distance);",
        "self.replication_fetcher.set_replication_distance_range(distance);",
        "letself_addr=NetworkAddress::from_peer(self.self_peer_id);",
    ];
    for n in need {
        if run_s.matches(n).count() != 1 {
            return Err(format!("driver.rs:SwarmDriver::run: the responsible-range computation no longer contains exactly one `{n}`"));
        }
    }
    let ev = parse_file(&repo.join("ant-networking/src/event/mod.rs"))?;
    let ens = impl_fn(&ev, "SwarmDriver", None, "estimate_network_size")?;
    if ens.block.to_token_stream().to_string().replace(' ', "") != "{(peers_in_non_full_buckets+1)*(2_usize.pow(num_of_full_bucketsasu32))}" {
        return Err("event/mod.rs:estimate_network_size: unexpected body".into());
    }
    let gck = impl_fn(&drv, "SwarmDriver", None, "get_closest_k_value_local_peers")?;
    let gck_s = gck.block.to_token_stream().to_string().replace(' ', "");
    if !(gck_s.contains("std::iter::once(self.self_peer_id).chain(peers).take(K_VALUE.get()).collect()") && gck_s.contains(".get_closest_local_peers(&self_peer_id)")) {
        return Err("driver.rs:get_closest_k_value_local_peers: unexpected shape (self first, then the closest local peers, K_VALUE in all)".into());
    }
    // ---- the storage challenge (ant-node/src/node.rs): the responder's and the challenger's selections
    let rx = impl_fn(&node, "Node", None, "respond_x_closest_record_proof")?;
    let rx_s = rx.block.to_token_stream().to_string().replace(' ', "");
    for n in [
        "ifdifficulty==1{",
        "all_chunk_addrs.sort_by_key(|addr|key.distance(addr));",
        "letworkload_factor=std::cmp::min(difficulty,CLOSE_GROUP_SIZE);",
        "foraddrinall_chunk_addrs.iter().take(workload_factor){",
    ] {
        if rx_s.matches(n).count() != 1 {
            return Err(format!("node.rs:respond_x_closest_record_proof: no longer contains exactly one `{n}`"));
        }
    }
    let sc = impl_fn(&node, "Node", None, "storage_challenge")?;
    let sc_s = sc.block.to_token_stream().to_string().replace(' ', "");
    for n in [
        "closest_peers.into_iter().take(CLOSE_GROUP_SIZE).collect_vec()",
        "ifclosest_peers.len()<CLOSE_GROUP_SIZE{",
        "ifnum_of_targets<50{",
        "verify_candidates.sort_by_key(|addr|self_addr.distance(addr));",
        "letindex:usize=OsRng.gen_range(0..num_of_targets/2);",
        "lettarget=verify_candidates[index].clone();",
        "letdifficulty=CLOSE_GROUP_SIZE;",
        "verify_candidates.sort_by_key(|addr|target.distance(addr));",
        "letexpected_targets=verify_candidates.into_iter().take(difficulty);",
        "ifpeer_id==network.peer_id(){continue;}",
    ] {
        if sc_s.matches(n).count() != 1 {
            return Err(format!("node.rs:storage_challenge: no longer contains exactly one `{n}`"));
        }
    }

    let mut s = header("ant-protocol/src/lib.rs, ant-networking/src/{lib,cmd,driver,event/mod}.rs, ant-node/src/node.rs");
    s.push_str("namespace SafeNet.Gen.Distance\n");
    s.push_str(&format!("def closeGroupSize : Nat := {close_group}\n"));
    s.push_str(&format!("/-- `trim_start_matches({ts:?})` -/\ndef trimStart : List Nat := {}\n", lean_str(&ts)));
    s.push_str(&format!("/-- `trim_end_matches({te:?})` -/\ndef trimEnd : List Nat := {}\n", lean_str(&te)));
    s.push_str("/-- parse failure falls back to zero (`unwrap_or(U256::ZERO)`) -/\ndef fallback : Nat := 0\n");
    s.push_str("/-- address kinds in declaration order -/\ninductive Kind | peerId | chunk | transaction | register | recordKey | scratchpad\nderiving DecidableEq, Repr\n");
    let kinds = ["peerId", "chunk", "transaction", "register", "recordKey", "scratchpad"];
    s.push_str("/-- `as_bytes`: true = the stored raw bytes, false = the typed address's xorname -/\ndef asBytesRaw : Kind → Bool\n");
    for (i, (_, raw)) in as_bytes.iter().enumerate() {
        s.push_str(&format!("  | .{} => {}\n", kinds[i], lean_bool(*raw)));
    }
    s.push_str("/-- `to_record_key`: true = from the stored raw bytes, false = from the typed address's xorname -/\ndef toRecordKeyRaw : Kind → Bool\n");
    for (i, (_, raw)) in to_key.iter().enumerate() {
        s.push_str(&format!("  | .{} => {}\n", kinds[i], lean_bool(*raw)));
    }
    s.push_str(&format!("/-- `get_peers_in_range` keeps `distance <= range` (true) or `<` (false) -/\ndef inRangeLe : Bool := {}\n", lean_bool(in_range_le)));
    s.push_str(&format!("/-- `calculate_get_closest_peers` range branch keeps `<=` (true) or `<` (false) -/\ndef closestRangeLe : Bool := {}\n", lean_bool(closest_le)));
    s.push_str(&format!("/-- `get_all_close_peers_in_range_or_close_group`: the client's own id is removed before the sort/`NotEnoughPeers` check/truncation -/\ndef clientStripsSelfBeforeSort : Bool := {}\n", lean_bool(strip_before_sort)));
    s.push_str(&format!("/-- `CLOSE_GROUP_SIZE + CLOSE_GROUP_SIZE / 2` -/\ndef expandedCloseGroup : Nat := {expanded}\n"));
    s.push_str("/-- responsible-range computation of `SwarmDriver::run`: nothing is set unless `estimated_network_size > CLOSE_GROUP_SIZE` and the self-inclusive K list is longer than `CLOSE_GROUP_SIZE + 2`; the neighbour whose distance is used is `closest_k_peers[CLOSE_GROUP_SIZE + 1]`; the bound is the `max` of that distance and `U256::MAX / estimated_network_size * CLOSE_GROUP_SIZE` -/\n");
    s.push_str(&format!("def rangeMinEstimateExclusive : Nat := {close_group}\ndef rangeMinListLenExclusive : Nat := {}\ndef rangeNeighbourIndex : Nat := {}\ndef rangeDensityFactor : Nat := {close_group}\n", close_group + 2, close_group + 1));
    s.push_str("/-- storage challenge: the responder answers for the `min(difficulty, CLOSE_GROUP_SIZE)` held chunks nearest the key; the challenger needs 50 chunks, picks the target among the nearer half to itself, expects the `CLOSE_GROUP_SIZE` nearest the target, and challenges the first `CLOSE_GROUP_SIZE` of the self-inclusive K list except itself -/\n");
    s.push_str(&format!("def challengeWorkloadCap : Nat := {close_group}\ndef challengeMinCandidates : Nat := 50\ndef challengeDifficulty : Nat := {close_group}\ndef challengePeersTaken : Nat := {close_group}\n"));
    s.push_str("end SafeNet.Gen.Distance\n");
    Ok(s)
}
