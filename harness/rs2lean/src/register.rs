use crate::util::*;
use quote::ToTokens;
use std::path::PathBuf;
use syn::visit::Visit;

/// comparator of the first `if` whose condition mentions `needle` (as a token) in `block`
struct IfCmp<'a> {
    needle: &'a str,
    found: Option<String>,
}
impl<'ast, 'a> Visit<'ast> for IfCmp<'a> {
    fn visit_expr_if(&mut self, i: &'ast syn::ExprIf) {
        if self.found.is_none() {
            if let syn::Expr::Binary(b) = &*i.cond {
                let toks = b.to_token_stream().to_string();
                if toks.contains(self.needle) {
                    self.found = Some(b.op.to_token_stream().to_string());
                }
            }
        }
        syn::visit::visit_expr_if(self, i);
    }
}
fn if_cmp(blocks: &[&syn::Block], needle: &str) -> Option<String> {
    let mut v = IfCmp { needle, found: None };
    for b in blocks {
        v.visit_block(b);
    }
    v.found
}
/// method calls whose result is propagated with `?` (`x.m(..)?`), over several blocks
struct TryCalls {
    methods: Vec<String>,
}
impl<'ast> Visit<'ast> for TryCalls {
    fn visit_expr_try(&mut self, t: &'ast syn::ExprTry) {
        if let syn::Expr::MethodCall(m) = &*t.expr {
            self.methods.push(m.method.to_string());
        }
        syn::visit::visit_expr_try(self, t);
    }
}
fn try_calls(blocks: &[&syn::Block]) -> Vec<String> {
    let mut v = TryCalls { methods: vec![] };
    for b in blocks {
        v.visit_block(b);
        // the value of the function's tail expression is returned as it is: also a propagation
        if let Some(syn::Stmt::Expr(syn::Expr::MethodCall(m), None)) = b.stmts.last() {
            v.methods.push(m.method.to_string());
        }
    }
    v.methods
}
/// two-sided: `true` when `name(..)?` occurs (the failure is propagated), `false` when `name` is not called at all,
/// refused when it is called but its result is consumed some other way (e.g. a `match` tolerating some errors)
fn checked_call(what: &str, blocks: &[&syn::Block], name: &str) -> Result<bool, String> {
    let called = calls_in_blocks(blocks).methods.iter().any(|m| m == name);
    let tried = try_calls(blocks).iter().any(|m| m == name);
    match (called, tried) {
        (true, true) => Ok(true),
        (false, _) => Ok(false),
        (true, false) => Err(format!("{what}: `{name}(..)` is called but its error is not propagated with `?`")),
    }
}
fn cmp_name(op: &str) -> Result<&'static str, String> {
    match op {
        ">=" => Ok("Cmp.ge"),
        ">" => Ok("Cmp.gt"),
        other => Err(format!("unexpected comparator {other}")),
    }
}

/// every `fn` of a file (free, impl, trait default, nested in modules): name -> body
struct AllFns<'a> {
    v: Vec<(String, &'a syn::Block)>,
}
impl<'ast> Visit<'ast> for AllFns<'ast> {
    fn visit_item_fn(&mut self, f: &'ast syn::ItemFn) {
        self.v.push((f.sig.ident.to_string(), &*f.block));
        syn::visit::visit_item_fn(self, f);
    }
    fn visit_impl_item_fn(&mut self, f: &'ast syn::ImplItemFn) {
        self.v.push((f.sig.ident.to_string(), &f.block));
        syn::visit::visit_impl_item_fn(self, f);
    }
}

fn rs_files(dir: &std::path::Path, out: &mut Vec<PathBuf>) {
    let Ok(rd) = std::fs::read_dir(dir) else { return };
    let mut es: Vec<_> = rd.filter_map(|e| e.ok()).map(|e| e.path()).collect();
    es.sort();
    for p in es {
        let name = p.file_name().map(|n| n.to_string_lossy().to_string()).unwrap_or_default();
        if p.is_dir() {
            // the crate that defines SignedRegister is modelled in its own right; build output, VCS data and the
            // cfg-guarded verification hooks are not production callers
            if name == "target" || name == ".git" || name == "ant-registers" || name == "verif" {
                continue;
            }
            rs_files(&p, out);
        } else if name.ends_with(".rs") {
            out.push(p);
        }
    }
}

/// Call-site table for the two UNVERIFIED ways into a `SignedRegister` that stay public: `merge` and
/// `SignedRegister::new(.., ops)`. Every file of /repo outside ant-registers that mentions `SignedRegister` is read.
/// * `.merge(` inside a function: `true` only on the shape
///     `match R.verify() { Ok(_) => { C.push(R); } … }` (the single `C.push` of the function) followed by
///     `C.iter().fold(C[0].clone(), |mut acc, x| { … acc.merge(x) … })` — every register merged has passed `verify`;
///   `false` only when the function does not call `.verify()` at all; any other shape is refused.
/// * `SignedRegister::new(a, b, ops)`: `true` only when `ops` is literally `BTreeSet::new()`; `false` otherwise.
fn call_sites(repo: &PathBuf) -> Result<(Vec<(String, bool)>, Vec<(String, bool)>), String> {
    let mut files = vec![];
    rs_files(repo, &mut files);
    let mut merges = vec![];
    let mut news = vec![];
    let re_match = regex::Regex::new(r"match(\w+)\.verify\(\)\{Ok\(_\)=>\{(\w+)\.push\((\w+)\);\}").map_err(|e| e.to_string())?;
    for p in files {
        let Ok(src) = std::fs::read_to_string(&p) else { continue };
        if !src.contains("SignedRegister") {
            continue;
        }
        let rel = p.strip_prefix(repo).unwrap_or(&p).display().to_string();
        let file = syn::parse_file(&src).map_err(|e| format!("{rel}: {e}"))?;
        let mut fns = AllFns { v: vec![] };
        fns.visit_file(&file);
        // does ANY function of this file call `.verify()`? (a `.merge(` in a function without a `verify` of its own is
        // read as "unverified" only when the whole file never verifies: with the verification extracted into a helper the
        // shape is unknown and refused, not guessed — false alarm found by the benign patch R6-p2)
        let file_has_verify = fns.v.iter().any(|(_, b)| calls_in_block(b).methods.iter().any(|m| m == "verify"));
        for (name, body) in fns.v {
            let c = calls_in_block(body);
            let t = body.to_token_stream().to_string().replace(' ', "");
            if c.methods.iter().any(|m| m == "merge") {
                let site = format!("{rel}::{name}");
                let verified = if let Some(cap) = re_match.captures(&t) {
                    let (r, coll, pushed) = (&cap[1], &cap[2], &cap[3]);
                    let fold = format!("{coll}.iter().fold({coll}[0].clone(),|mutacc,x|{{ifletErr(e)=acc.merge(x)");
                    if r == pushed
                        && t.matches(&format!("{coll}.push(")).count() == 1
                        && !t.contains(&format!("{coll}.insert("))
                        && !t.contains(&format!("{coll}.extend("))
                        && t.matches(".merge(").count() == 1
                        && t.contains(&fold)
                    {
                        true
                    } else {
                        return Err(format!("{site}: `.merge(` next to a `verify()` match, but not the recognised collect-verified-then-fold shape"));
                    }
                } else if !c.methods.iter().any(|m| m == "verify") {
                    if file_has_verify {
                        return Err(format!("{site}: `.merge(` in a function without `.verify()` while another function of the file verifies: cannot tell whether what is merged was verified"));
                    }
                    false
                } else {
                    return Err(format!("{site}: `.merge(` and `.verify()` in one function, but not the recognised collect-verified-then-fold shape"));
                };
                merges.push((site, verified));
            }
            let mut from = 0;
            while let Some(i) = t[from..].find("SignedRegister::new(") {
                let start = from + i + "SignedRegister::new(".len();
                // the argument list up to the matching parenthesis
                let mut depth = 1;
                let mut end = start;
                for (k, ch) in t[start..].char_indices() {
                    match ch {
                        '(' | '[' | '{' => depth += 1,
                        ')' | ']' | '}' => {
                            depth -= 1;
                            if depth == 0 {
                                end = start + k;
                                break;
                            }
                        }
                        _ => {}
                    }
                }
                let args = &t[start..end];
                news.push((format!("{rel}::{name}"), args.ends_with(",BTreeSet::new()") || args.ends_with(",BTreeSet::new(),")));
                from = end;
            }
        }
    }
    merges.sort();
    merges.dedup();
    news.sort();
    news.dedup();
    Ok((merges, news))
}

/// autonomi `Register::write_atop` (the only production caller of `add_op`). Two-sided:
/// `true` only on the repaired shape (the entry is written to a CLONE of the CRDT half, `add_op`'s error is propagated,
/// the clone replaces the CRDT half afterwards); `false` only on the old shape (`self.crdt_reg.write(..)` applied in
/// place, then `let _ = self.signed_reg.add_op(op);`); anything else is refused.
fn client_write_propagates(repo: &PathBuf) -> Result<bool, String> {
    let rel = "autonomi/src/client/registers.rs";
    let file = parse_file(&repo.join(rel))?;
    let f = impl_fn(&file, "Register", None, "write_atop")?;
    let t = f.block.to_token_stream().to_string().replace(' ', "");
    let in_place = t.contains("self.crdt_reg.write(");
    let discarded = t.contains("let_=self.signed_reg.add_op(op);");
    let on_clone = t.contains("letmutcrdt_reg=self.crdt_reg.clone();") && t.contains("=crdt_reg.write(");
    let propagated = t.find("self.signed_reg.add_op(op).map_err(RegisterError::Write)?;");
    let committed = t.find("self.crdt_reg=crdt_reg;");
    match (in_place, discarded, on_clone, propagated, committed) {
        (false, false, true, Some(a), Some(b)) if a < b && t.matches("self.crdt_reg=").count() == 1 => Ok(true),
        (true, true, false, None, None) => Ok(false),
        _ => Err(format!("{rel}: write_atop has neither the repaired shape (write on a clone, `add_op(op)…?`, then `self.crdt_reg = crdt_reg`) nor the old one (`self.crdt_reg.write(..)` then `let _ = self.signed_reg.add_op(op)`)")),
    }
}

pub fn generate(repo: &PathBuf) -> Result<String, String> {
    let (merge_sites, new_sites) = call_sites(repo)?;
    let client_propagates = client_write_propagates(repo)?;
    let rel = "ant-registers/src/register.rs";
    let file = parse_file(&repo.join(rel))?;
    let max_entry = const_value(&file, "MAX_REG_ENTRY_SIZE")?;
    let max_num = const_value(&file, "MAX_REG_NUM_ENTRIES")?;
    let verify = impl_fn(&file, "SignedRegister", None, "verify")?;
    let add_op = impl_fn(&file, "SignedRegister", None, "add_op")?;
    let merge = impl_fn(&file, "SignedRegister", None, "merge")?;
    let vmerge = impl_fn(&file, "SignedRegister", None, "verified_merge")?;
    let check = impl_fn(&file, "Register", None, "check_register_op")?;
    let mergeable = impl_fn(&file, "Register", None, "verify_is_mergeable")?;

    // each modelled function together with the private same-file helpers it calls (an "extract helper" refactoring must
    // not change what is read); the modelled functions themselves are never looked through
    const STOP: [&str; 8] = ["verify", "add_op", "merge", "verified_merge", "check_register_op", "verify_is_mergeable", "check_user_permissions", "verify_signature"];
    let verify_b = with_private_helpers(&file, &verify.block, &STOP);
    let add_b = with_private_helpers(&file, &add_op.block, &STOP);
    let merge_b = with_private_helpers(&file, &merge.block, &STOP);
    let vmerge_b = with_private_helpers(&file, &vmerge.block, &STOP);
    let check_b = with_private_helpers(&file, &check.block, &STOP);
    let v_num = if_cmp(&verify_b, "MAX_REG_NUM_ENTRIES").ok_or("verify: no entry-count guard")?;
    let v_size = if_cmp(&verify_b, "MAX_REG_ENTRY_SIZE").ok_or("verify: no entry-size guard")?;
    let a_num = if_cmp(&add_b, "MAX_REG_NUM_ENTRIES").ok_or("add_op: no entry-count guard")?;
    let a_size = if_cmp(&add_b, "MAX_REG_ENTRY_SIZE").ok_or("add_op: no entry-size guard")?;
    let vc = calls_in_blocks(&verify_b);
    let verify_checks_owner_sig = vc.methods.iter().any(|m| m == "verify") && vc.methods.iter().any(|m| m == "owner");
    let verify_checks_ops = checked_call("verify", &verify_b, "check_register_op")?;
    let add_checks_op = checked_call("add_op", &add_b, "check_register_op")?;
    let merge_checks_base = checked_call("merge", &merge_b, "verify_is_mergeable")?;
    let merge_limit = if_cmp(&merge_b, "MAX_REG_NUM_ENTRIES").is_some();
    let vmerge_checks_base = checked_call("verified_merge", &vmerge_b, "verify_is_mergeable")?;
    let vmerge_verifies = checked_call("verified_merge", &vmerge_b, "verify")?;
    let vmerge_limit = if_cmp(&vmerge_b, "MAX_REG_NUM_ENTRIES").is_some();
    // check_register_op: address comparison present? permission check? signature check?
    let cc = calls_in_blocks(&check_b);
    let check_addr = if_cmp(&check_b, "address").map(|c| c == "!=").unwrap_or(false);
    let check_perm = checked_call("check_register_op", &check_b, "check_user_permissions")?;
    let check_sig = checked_call("check_register_op", &check_b, "verify_signature")?;
    let check_anyone_short = cc.methods.iter().any(|m| m == "can_anyone_write");
    let mg = mergeable.block.to_token_stream().to_string();
    let mergeable_addr = mg.contains("address");
    let mergeable_perms = mg.contains("permissions");

    let mut s = header(rel);
    s.push_str("namespace SafeNet.Gen.Register\n");
    s.push_str("/-- comparator used by a limit guard: `x >= max` or `x > max` rejects -/\ninductive Cmp | ge | gt\nderiving DecidableEq, Repr\n");
    s.push_str(&format!("def maxEntrySize : Nat := {max_entry}\ndef maxNumEntries : Nat := {max_num}\n"));
    s.push_str(&format!("def verifyCountCmp : Cmp := {}\n", cmp_name(&v_num)?));
    s.push_str(&format!("def verifySizeCmp : Cmp := {}\n", cmp_name(&v_size)?));
    s.push_str(&format!("def addOpCountCmp : Cmp := {}\n", cmp_name(&a_num)?));
    s.push_str(&format!("def addOpSizeCmp : Cmp := {}\n", cmp_name(&a_size)?));
    for (n, b) in [
        ("verifyChecksOwnerSig", verify_checks_owner_sig),
        ("verifyChecksOps", verify_checks_ops),
        ("addOpChecksOp", add_checks_op),
        ("mergeChecksBase", merge_checks_base),
        ("mergeHasLimit", merge_limit),
        ("vmergeChecksBase", vmerge_checks_base),
        ("vmergeVerifiesOther", vmerge_verifies),
        ("vmergeHasLimit", vmerge_limit),
        ("checkOpChecksAddr", check_addr),
        ("checkOpChecksPerm", check_perm),
        ("checkOpChecksSig", check_sig),
        ("checkOpAnyoneShortCircuit", check_anyone_short),
        ("mergeableComparesAddr", mergeable_addr),
        ("mergeableComparesPerms", mergeable_perms),
    ] {
        s.push_str(&format!("def {n} : Bool := {}\n", lean_bool(b)));
    }
    let table = |v: &[(String, bool)]| -> String {
        let items: Vec<String> = v.iter().map(|(k, b)| format!("({k:?}, {})", lean_bool(*b))).collect();
        format!("[{}]", items.join(", "))
    };
    s.push_str("/-- every function of /repo outside ant-registers that calls `.merge(` in a file mentioning `SignedRegister`, and whether each register it merges has passed `verify()` first (collect-verified-then-fold shape) -/\n");
    s.push_str(&format!("def mergeCallSites : List (String × Bool) := {}\n", table(&merge_sites)));
    s.push_str("/-- every `SignedRegister::new(.., ops)` outside ant-registers, and whether `ops` is literally the empty set -/\n");
    s.push_str(&format!("def signedNewCallSites : List (String × Bool) := {}\n", table(&new_sites)));
    s.push_str("/-- autonomi `Register::write_atop` propagates `add_op`'s refusal and only then lets the entry into the CRDT half (false: `let _ = add_op(..)` after the entry was applied to the CRDT half in place) -/\n");
    s.push_str(&format!("def clientWritePropagates : Bool := {}\n", lean_bool(client_propagates)));
    s.push_str("end SafeNet.Gen.Register\n");
    Ok(s)
}
