use crate::util::*;
use quote::ToTokens;
use std::path::PathBuf;
use syn::visit::Visit;

/// comparator of the first `if` whose condition mentions `needle` (as a token) in `block`
struct IfCmp<'a> {
    needle: &'a str,
    found: Option<String>,
}
impl<'ast, 'a> Visit<'ast> for IfCmp<'a> {
    fn visit_expr_if(&mut self, i: &'ast syn::ExprIf) {
        if self.found.is_none() {
            if let syn::Expr::Binary(b) = &*i.cond {
                let toks = b.to_token_stream().to_string();
                if toks.contains(self.needle) {
                    self.found = Some(b.op.to_token_stream().to_string());
                }
            }
        }
        syn::visit::visit_expr_if(self, i);
    }
}
fn if_cmp(blocks: &[&syn::Block], needle: &str) -> Option<String> {
    let mut v = IfCmp { needle, found: None };
    for b in blocks {
        v.visit_block(b);
    }
    v.found
}
/// method calls whose result is propagated with `?` (`x.m(..)?`), over several blocks
struct TryCalls {
    methods: Vec<String>,
}
impl<'ast> Visit<'ast> for TryCalls {
    fn visit_expr_try(&mut self, t: &'ast syn::ExprTry) {
        if let syn::Expr::MethodCall(m) = &*t.expr {
            self.methods.push(m.method.to_string());
        }
        syn::visit::visit_expr_try(self, t);
    }
}
fn try_calls(blocks: &[&syn::Block]) -> Vec<String> {
    let mut v = TryCalls { methods: vec![] };
    for b in blocks {
        v.visit_block(b);
        // the value of the function's tail expression is returned as it is: also a propagation
        if let Some(syn::Stmt::Expr(syn::Expr::MethodCall(m), None)) = b.stmts.last() {
            v.methods.push(m.method.to_string());
        }
    }
    v.methods
}
/// two-sided: `true` when `name(..)?` occurs (the failure is propagated), `false` when `name` is not called at all,
/// refused when it is called but its result is consumed some other way (e.g. a `match` tolerating some errors)
fn checked_call(what: &str, blocks: &[&syn::Block], name: &str) -> Result<bool, String> {
    let called = calls_in_blocks(blocks).methods.iter().any(|m| m == name);
    let tried = try_calls(blocks).iter().any(|m| m == name);
    match (called, tried) {
        (true, true) => Ok(true),
        (false, _) => Ok(false),
        (true, false) => Err(format!("{what}: `{name}(..)` is called but its error is not propagated with `?`")),
    }
}
fn cmp_name(op: &str) -> Result<&'static str, String> {
    match op {
        ">=" => Ok("Cmp.ge"),
        ">" => Ok("Cmp.gt"),
        other => Err(format!("unexpected comparator {other}")),
    }
}

pub fn generate(repo: &PathBuf) -> Result<String, String> {
    let rel = "ant-registers/src/register.rs";
    let file = parse_file(&repo.join(rel))?;
    let max_entry = const_value(&file, "MAX_REG_ENTRY_SIZE")?;
    let max_num = const_value(&file, "MAX_REG_NUM_ENTRIES")?;
    let verify = impl_fn(&file, "SignedRegister", None, "verify")?;
    let add_op = impl_fn(&file, "SignedRegister", None, "add_op")?;
    let merge = impl_fn(&file, "SignedRegister", None, "merge")?;
    let vmerge = impl_fn(&file, "SignedRegister", None, "verified_merge")?;
    let check = impl_fn(&file, "Register", None, "check_register_op")?;
    let mergeable = impl_fn(&file, "Register", None, "verify_is_mergeable")?;

    // each modelled function together with the private same-file helpers it calls (an "extract helper" refactoring must
    // not change what is read); the modelled functions themselves are never looked through
    const STOP: [&str; 8] = ["verify", "add_op", "merge", "verified_merge", "check_register_op", "verify_is_mergeable", "check_user_permissions", "verify_signature"];
    let verify_b = with_private_helpers(&file, &verify.block, &STOP);
    let add_b = with_private_helpers(&file, &add_op.block, &STOP);
    let merge_b = with_private_helpers(&file, &merge.block, &STOP);
    let vmerge_b = with_private_helpers(&file, &vmerge.block, &STOP);
    let check_b = with_private_helpers(&file, &check.block, &STOP);
    let v_num = if_cmp(&verify_b, "MAX_REG_NUM_ENTRIES").ok_or("verify: no entry-count guard")?;
    let v_size = if_cmp(&verify_b, "MAX_REG_ENTRY_SIZE").ok_or("verify: no entry-size guard")?;
    let a_num = if_cmp(&add_b, "MAX_REG_NUM_ENTRIES").ok_or("add_op: no entry-count guard")?;
    let a_size = if_cmp(&add_b, "MAX_REG_ENTRY_SIZE").ok_or("add_op: no entry-size guard")?;
    let vc = calls_in_blocks(&verify_b);
    let verify_checks_owner_sig = vc.methods.iter().any(|m| m == "verify") && vc.methods.iter().any(|m| m == "owner");
    let verify_checks_ops = checked_call("verify", &verify_b, "check_register_op")?;
    let add_checks_op = checked_call("add_op", &add_b, "check_register_op")?;
    let merge_checks_base = checked_call("merge", &merge_b, "verify_is_mergeable")?;
    let merge_limit = if_cmp(&merge_b, "MAX_REG_NUM_ENTRIES").is_some();
    let vmerge_checks_base = checked_call("verified_merge", &vmerge_b, "verify_is_mergeable")?;
    let vmerge_verifies = checked_call("verified_merge", &vmerge_b, "verify")?;
    let vmerge_limit = if_cmp(&vmerge_b, "MAX_REG_NUM_ENTRIES").is_some();
    // check_register_op: address comparison present? permission check? signature check?
    let cc = calls_in_blocks(&check_b);
    let check_addr = if_cmp(&check_b, "address").map(|c| c == "!=").unwrap_or(false);
    let check_perm = checked_call("check_register_op", &check_b, "check_user_permissions")?;
    let check_sig = checked_call("check_register_op", &check_b, "verify_signature")?;
    let check_anyone_short = cc.methods.iter().any(|m| m == "can_anyone_write");
    let mg = mergeable.block.to_token_stream().to_string();
    let mergeable_addr = mg.contains("address");
    let mergeable_perms = mg.contains("permissions");

    let mut s = header(rel);
    s.push_str("namespace SafeNet.Gen.Register\n");
    s.push_str("/-- comparator used by a limit guard: `x >= max` or `x > max` rejects -/\ninductive Cmp | ge | gt\nderiving DecidableEq, Repr\n");
    s.push_str(&format!("def maxEntrySize : Nat := {max_entry}\ndef maxNumEntries : Nat := {max_num}\n"));
    s.push_str(&format!("def verifyCountCmp : Cmp := {}\n", cmp_name(&v_num)?));
    s.push_str(&format!("def verifySizeCmp : Cmp := {}\n", cmp_name(&v_size)?));
    s.push_str(&format!("def addOpCountCmp : Cmp := {}\n", cmp_name(&a_num)?));
    s.push_str(&format!("def addOpSizeCmp : Cmp := {}\n", cmp_name(&a_size)?));
    for (n, b) in [
        ("verifyChecksOwnerSig", verify_checks_owner_sig),
        ("verifyChecksOps", verify_checks_ops),
        ("addOpChecksOp", add_checks_op),
        ("mergeChecksBase", merge_checks_base),
        ("mergeHasLimit", merge_limit),
        ("vmergeChecksBase", vmerge_checks_base),
        ("vmergeVerifiesOther", vmerge_verifies),
        ("vmergeHasLimit", vmerge_limit),
        ("checkOpChecksAddr", check_addr),
        ("checkOpChecksPerm", check_perm),
        ("checkOpChecksSig", check_sig),
        ("checkOpAnyoneShortCircuit", check_anyone_short),
        ("mergeableComparesAddr", mergeable_addr),
        ("mergeableComparesPerms", mergeable_perms),
    ] {
        s.push_str(&format!("def {n} : Bool := {}\n", lean_bool(b)));
    }
    s.push_str("end SafeNet.Gen.Register\n");
    Ok(s)
}
