use crate::util::*;
use std::path::PathBuf;

pub fn generate(repo: &PathBuf) -> Result<String, String> {
    let rel = "ant-evm/src/amount.rs";
    let file = parse_file(&repo.join(rel))?;
    let pow = const_value(&file, "TOKEN_TO_RAW_POWER_OF_10_CONVERSION")?;
    let raw = const_value(&file, "TOKEN_TO_RAW_CONVERSION")?;

    // Display: the format string must be "{unit}.{remainder:0N}" with unit = self.0 / RAW, remainder = self.0 % RAW
    let fmt = impl_fn(&file, "AttoTokens", Some("Display"), "fmt")?;
    let c = calls_in_block(&fmt.block);
    let (_, toks) = c.macros.iter().find(|(n, _)| n == "write").ok_or("Display::fmt: no write! call")?;
    let lit = toks.split('"').nth(1).ok_or("Display::fmt: no format string")?;
    let pad: u32 = {
        let pre = "{unit}.{remainder:0";
        if !lit.starts_with(pre) || !lit.ends_with('}') {
            return Err(format!("Display::fmt: unexpected format string {lit:?}"));
        }
        lit[pre.len()..lit.len() - 1].parse().map_err(|_| format!("Display::fmt: unexpected width in {lit:?}"))?
    };
    if !(c.binops.contains(&"/".to_string()) && c.binops.contains(&"%".to_string())) {
        return Err("Display::fmt: expected `/` and `%` by TOKEN_TO_RAW_CONVERSION".into());
    }

    // FromStr: which arithmetic steps are checked
    let fs = impl_fn(&file, "AttoTokens", Some("FromStr"), "from_str")?;
    let c = calls_in_block(&fs.block);
    // every flag is two-sided: `true` only on the checked form, `false` only on the recognised unchecked form,
    // anything else (e.g. the arithmetic moved into a helper) is refused
    let units_mul_checked = c.methods.iter().any(|m| m == "checked_mul");
    if !units_mul_checked && !c.binops.contains(&"*".to_string()) {
        return Err("from_str: neither checked_mul nor `*` found for units * TOKEN_TO_RAW_CONVERSION".into());
    }
    let final_add_checked = c.methods.iter().any(|m| m == "checked_add");
    if !final_add_checked && !c.binops.contains(&"+".to_string()) {
        return Err("from_str: neither checked_add nor `+` found for units + remainder".into());
    }
    if !c.methods.iter().any(|m| m == "checked_sub") {
        return Err("from_str: expected checked_sub of the remainder length from the power-of-ten constant".into());
    }
    // the length limit on the fraction is applied to the string as written (trailing zeros included), i.e.
    // BEFORE `trim_end_matches('0')`. Two-sided: `true` only on the exact guard
    // `if remainder_str.len() as u64 > TOKEN_TO_RAW_POWER_OF_10_CONVERSION { return Err(LossOfPrecision); }`,
    // `false` only when nothing before the trim looks at a length or reports LossOfPrecision; anything else is refused.
    let fs_src = quote::ToTokens::to_token_stream(&fs.block).to_string().replace(' ', "");
    let trim_at = fs_src.find("trim_end_matches('0')").ok_or("from_str: expected trim_end_matches('0') on the remainder")?;
    let before_trim = &fs_src[..trim_at];
    let guard = "ifremainder_str.len()asu64>TOKEN_TO_RAW_POWER_OF_10_CONVERSION{returnErr(EvmError::LossOfPrecision);}";
    let frac_len_untrimmed = if before_trim.contains(guard) {
        true
    } else if !before_trim.contains(".len()") && !before_trim.contains("LossOfPrecision") {
        false
    } else {
        return Err("from_str: a length / LossOfPrecision test precedes trim_end_matches('0') but is not the recognised guard `if remainder_str.len() as u64 > TOKEN_TO_RAW_POWER_OF_10_CONVERSION { return Err(EvmError::LossOfPrecision); }`".into());
    };
    let add = impl_fn(&file, "AttoTokens", None, "checked_add")?;
    let sub = impl_fn(&file, "AttoTokens", None, "checked_sub")?;
    let (ac, sc) = (calls_in_block(&add.block), calls_in_block(&sub.block));
    let add_checked = ac.methods.iter().any(|m| m == "checked_add");
    if !add_checked && !(ac.binops.contains(&"+".to_string()) || ac.methods.iter().any(|m| m == "wrapping_add" || m == "saturating_add" || m == "overflowing_add")) {
        return Err("AttoTokens::checked_add: neither Amount::checked_add nor an unchecked addition recognised".into());
    }
    let sub_checked = sc.methods.iter().any(|m| m == "checked_sub");
    if !sub_checked && !(sc.binops.contains(&"-".to_string()) || sc.methods.iter().any(|m| m == "wrapping_sub" || m == "saturating_sub" || m == "overflowing_sub")) {
        return Err("AttoTokens::checked_sub: neither Amount::checked_sub nor an unchecked subtraction recognised".into());
    }

    // ant-cli/src/utils.rs collect_upload_summary: both loops must ACCUMULATE (`tokens_spent += …`)
    let cli = std::fs::read_to_string(repo.join("ant-cli/src/utils.rs")).map_err(|e| format!("ant-cli/src/utils.rs: {e}"))?;
    let cli_file = syn::parse_file(&cli).map_err(|e| format!("ant-cli/src/utils.rs: {e}"))?;
    let cus = free_fn(&cli_file, "collect_upload_summary")?;
    let body = quote::ToTokens::to_token_stream(&cus.block).to_string().replace(' ', "");
    let n_acc = body.matches("tokens_spent+=").count();
    let n_assign = body.matches("tokens_spent=").count(); // plain assignments (the `+=` form does not contain this substring)
    let n_loops = body.matches("UploadComplete(").count();
    if n_loops == 0 {
        return Err("collect_upload_summary: no UploadComplete arm found".into());
    }
    let cli_accumulates = n_acc == n_loops && n_assign == 0;
    if !cli_accumulates && n_assign == 0 {
        // neither the accumulating form in every arm nor a recognised plain assignment: refuse rather than guess
        return Err(format!("collect_upload_summary: {n_acc} of {n_loops} UploadComplete arms use `tokens_spent +=` and no plain assignment was found"));
    }

    // ant-cli: every `println!` that shows a cost. kind `atto` = the raw integer (`.as_atto()` / `summary.tokens_spent`,
    // an `Amount`), kind `tokens` = `Display` of an `AttoTokens` (whole tokens, 18 decimals); labelled = the format
    // string names the unit "AttoTokens". Anything that mentions a cost but is neither shape is refused.
    let mut print_sites: Vec<(String, &'static str, bool)> = vec![];
    for f in ["ant-cli/src/commands/file.rs", "ant-cli/src/commands/vault.rs", "ant-cli/src/commands/register.rs"] {
        let src = std::fs::read_to_string(repo.join(f)).map_err(|e| format!("{f}: {e}"))?;
        let parsed = syn::parse_file(&src).map_err(|e| format!("{f}: {e}"))?;
        for it in &parsed.items {
            let syn::Item::Fn(func) = it else { continue };
            let c = calls_in_block(&func.block);
            for (name, toks) in &c.macros {
                if name != "println" {
                    continue;
                }
                let Some(lit) = toks.split('"').nth(1) else { continue };
                let args = toks.rsplit('"').next().unwrap_or("").replace(' ', "");
                let inline_tokens = lit.contains("{cost}") || lit.contains("{total_cost}");
                let arg_atto = lit.contains("{}") && (args.ends_with(".as_atto()") || args.ends_with(".tokens_spent") || args.ends_with(".as_atto(),"));
                let mentions = inline_tokens || args.contains("cost") || args.contains("tokens_spent") || args.contains("as_atto");
                if !mentions {
                    continue;
                }
                let kind = match (inline_tokens, arg_atto) {
                    (true, false) => "CostKind.tokens",
                    (false, true) => "CostKind.atto",
                    _ => return Err(format!("{f}::{}: println!({toks}) shows a cost in a shape that is not recognised", func.sig.ident)),
                };
                print_sites.push((format!("{f}::{} {lit}", func.sig.ident), kind, lit.contains("AttoTokens")));
            }
        }
    }
    if print_sites.is_empty() {
        return Err("ant-cli: no println! showing a cost was found".into());
    }

    // the cost sums that feed those lines: each site either wraps (`.sum::<Amount>()` / `.sum()` / `+=`: ruint's `Sum`
    // and `AddAssign` are `wrapping_add`) or is checked (`checked_add`). Two-sided over ALL sites together.
    let sum_sites: [(&str, &str, Option<&str>); 6] = [
        ("autonomi/src/client/quote.rs", "price", Some("QuoteForAddress")),
        ("autonomi/src/client/quote.rs", "price", Some("StoreQuote")),
        ("autonomi/src/client/data/public.rs", "data_cost", Some("Client")),
        ("autonomi/src/client/vault.rs", "vault_cost", Some("Client")),
        ("autonomi/src/client/registers.rs", "register_cost", Some("Client")),
        ("autonomi/src/client/files/fs_public.rs", "file_cost", Some("Client")),
    ];
    let mut n_wrapping = 0;
    let mut n_checked = 0;
    let mut sum_desc = vec![];
    for (f, name, ty) in sum_sites {
        let parsed = parse_file(&repo.join(f))?;
        let func = impl_fn(&parsed, ty.unwrap_or(""), None, name)?;
        let t = quote::ToTokens::to_token_stream(&func.block).to_string().replace(' ', "");
        let wraps = t.contains(".sum::<Amount>()") || t.contains(".sum()") || t.contains("total_cost+=");
        let checked = t.contains("checked_add");
        match (wraps, checked) {
            (true, false) => n_wrapping += 1,
            (false, true) => n_checked += 1,
            _ => return Err(format!("{f}::{name}: the cost sum is neither the wrapping form (`.sum()` / `+=`) nor a `checked_add` fold")),
        }
        sum_desc.push(format!("{}::{name}", ty.unwrap_or("")));
    }
    let cost_sums_checked = match (n_wrapping, n_checked) {
        (_, 0) => false,
        (0, _) => true,
        _ => return Err(format!("cost sums: {n_checked} site(s) checked, {n_wrapping} wrapping — mixed, refused")),
    };

    let mut s = header(rel);
    s.push_str("namespace SafeNet.Gen.Amount\n");
    s.push_str(&format!("/-- `TOKEN_TO_RAW_POWER_OF_10_CONVERSION` -/\ndef powConv : Nat := {pow}\n"));
    s.push_str(&format!("/-- `TOKEN_TO_RAW_CONVERSION` -/\ndef rawConv : Nat := {raw}\n"));
    s.push_str(&format!("/-- zero-pad width of the remainder in `Display` (format string {lit:?}) -/\ndef displayPad : Nat := {pad}\n"));
    s.push_str(&format!("/-- `from_str`: units * RAW goes through `checked_mul` -/\ndef unitsMulChecked : Bool := {}\n", lean_bool(units_mul_checked)));
    s.push_str(&format!("/-- `from_str`: units + remainder goes through `checked_add` (otherwise wrapping `+`) -/\ndef finalAddChecked : Bool := {}\n", lean_bool(final_add_checked)));
    s.push_str(&format!("/-- `from_str`: the fraction as written (before trailing zeros are trimmed) is limited to `TOKEN_TO_RAW_POWER_OF_10_CONVERSION` digits -/\ndef fracLenCheckedUntrimmed : Bool := {}\n", lean_bool(frac_len_untrimmed)));
    s.push_str(&format!("/-- `AttoTokens::checked_add` delegates to `Amount::checked_add` -/\ndef addIsChecked : Bool := {}\n", lean_bool(add_checked)));
    s.push_str(&format!("/-- `AttoTokens::checked_sub` delegates to `Amount::checked_sub` -/\ndef subIsChecked : Bool := {}\n", lean_bool(sub_checked)));
    s.push_str(&format!("/-- ant-cli `collect_upload_summary`: every arm that consumes an `UploadComplete` event adds to the running total ({n_acc} of {n_loops} arms use `+=`, {n_assign} plain assignments) -/\ndef cliSummaryAccumulates : Bool := {}\n", lean_bool(cli_accumulates)));
    s.push_str("/-- how a cost is shown: the raw atto integer, or `Display` of `AttoTokens` (whole tokens, 18 decimals) -/\ninductive CostKind | atto | tokens\nderiving DecidableEq, Repr\n");
    let items: Vec<String> = print_sites.iter().map(|(k, kind, l)| format!("({k:?}, {kind}, {})", lean_bool(*l))).collect();
    s.push_str(&format!("/-- every ant-cli `println!` that shows a cost: (site and format string, kind of number, labelled \"AttoTokens\") -/\ndef costPrintSites : List (String × CostKind × Bool) := [{}]\n", items.join(", ")));
    s.push_str(&format!("/-- the cost sums behind those lines ({}) go through `checked_add` (false: `.sum()` / `+=`, which wrap at 2^256) -/\ndef costSumsChecked : Bool := {}\n", sum_desc.join(", "), lean_bool(cost_sums_checked)));
    s.push_str("end SafeNet.Gen.Amount\n");
    Ok(s)
}
